"""Translation targets of C10 (tie T): the literal tables of the orientation code.

T13o  spatial.py : PATIENT_ORIENTATION_OPPOSITES, `direction_to_vector_mapping` of
      rotation_for_patient_orientation, `pos_directions` / `neg_directions` of
      get_closest_patient_orientation, the if/elif table of create_rotation_matrix and
      get_normal_vector (index direction -> signed cosine vector, spacing), the handedness branch and the
      slices-first placement, the half-pixel correction matrices of the image transformers.
T13e  enum.py    : members of PatientOrientationValuesBiped, PixelIndexDirections, AxisHandedness.

Everything is emitted as Lean list literals (letters as `Char`), so that `letters_matrix_agree` and the
convention theorems are about what the source says now.
"""
from __future__ import annotations

import ast

from py2lean import Unsupported, find_func, lean_table, span_sha


def _enum_letter(node):
    """PatientOrientationValuesBiped.L / PixelIndexDirections.R -> 'L' / 'R'"""
    if isinstance(node, ast.Attribute) and isinstance(node.value, ast.Name) and len(node.attr) == 1:
        return node.attr
    if isinstance(node, ast.Constant) and isinstance(node.value, str) and len(node.value) == 1:
        return node.value
    raise Unsupported(f'not a single-letter enum member: {ast.unparse(node)}')


def _ch(c):
    return f"'{c}'"


def _num(node):
    """numeric literal (possibly negated) -> int; floats must be integral"""
    if isinstance(node, ast.UnaryOp) and isinstance(node.op, ast.USub):
        return -_num(node.operand)
    if isinstance(node, ast.Constant) and isinstance(node.value, (int, float)) and not isinstance(node.value, bool):
        if float(node.value) != int(node.value):
            raise Unsupported(f'non-integral literal {node.value}')
        return int(node.value)
    raise Unsupported(f'not a numeric literal: {ast.unparse(node)}')


def _rat(node):
    """numeric literal -> Lean rational text (dyadic floats exactly)"""
    from fractions import Fraction
    neg = False
    if isinstance(node, ast.UnaryOp) and isinstance(node.op, ast.USub):
        neg, node = True, node.operand
    if isinstance(node, ast.Constant) and isinstance(node.value, (int, float)) and not isinstance(node.value, bool):
        f = Fraction(node.value)
        if neg:
            f = -f
        return f'(({f.numerator} : Rat) / {f.denominator})'
    raise Unsupported(f'not a numeric literal: {ast.unparse(node)}')


def _assign_in(fn, name):
    hits = [n for n in ast.walk(fn) if isinstance(n, ast.Assign) and len(n.targets) == 1
            and isinstance(n.targets[0], ast.Name) and n.targets[0].id == name]
    if not hits:
        raise Unsupported(f'assignment to {name} not found in {getattr(fn, "name", "module")}')
    return hits


def _module_assign(tree, name):
    for n in tree.body:
        if isinstance(n, ast.Assign) and len(n.targets) == 1 and isinstance(n.targets[0], ast.Name) \
                and n.targets[0].id == name:
            return n
    raise Unsupported(f'module-level {name} not found')


def _axis_table(fn, with_spacing):
    """The `for d in index_convention_:` if/elif chain: direction -> (sign, 'row'|'col', spacing name)."""
    loops = [n for n in ast.walk(fn) if isinstance(n, ast.For) and 'index_convention_' in ast.unparse(n.iter)]
    if len(loops) != 1:
        raise Unsupported(f'loop over index_convention_ not found in {fn.name}')
    loop = loops[0]
    if len(loop.body) != 1 or not isinstance(loop.body[0], ast.If):
        raise Unsupported('loop body is no longer a single if/elif chain')
    rows = []
    node = loop.body[0]
    while True:
        t = node.test
        if not (isinstance(t, ast.Compare) and len(t.ops) == 1 and isinstance(t.ops[0], ast.Eq)
                and isinstance(t.left, ast.Name) and t.left.id == loop.target.id):
            raise Unsupported(f'unexpected branch test {ast.unparse(t)}')
        letter = _enum_letter(t.comparators[0])
        vec = spc = None
        for st in node.body:
            if not (isinstance(st, ast.Expr) and isinstance(st.value, ast.Call)
                    and isinstance(st.value.func, ast.Attribute) and st.value.func.attr == 'append'
                    and len(st.value.args) == 1):
                raise Unsupported(f'unexpected statement in branch {letter}: {ast.unparse(st)}')
            tgt = ast.unparse(st.value.func.value)
            a = st.value.args[0]
            if tgt == 'rotation_columns':
                sign = 1
                if isinstance(a, ast.UnaryOp) and isinstance(a.op, ast.USub):
                    sign, a = -1, a.operand
                if not isinstance(a, ast.Name) or a.id not in ('row_cosines', 'column_cosines'):
                    raise Unsupported(f'unexpected axis vector {ast.unparse(a)}')
                vec = (sign, a.id == 'row_cosines')
            elif tgt == 'spacings':
                if not isinstance(a, ast.Name) or a.id not in ('spacing_between_rows', 'spacing_between_columns'):
                    raise Unsupported(f'unexpected spacing {ast.unparse(a)}')
                spc = a.id == 'spacing_between_columns'
            else:
                raise Unsupported(f'append to unexpected list {tgt}')
        if vec is None or (with_spacing and spc is None):
            raise Unsupported(f'branch {letter} incomplete')
        rows.append((letter, vec[0], vec[1], bool(spc)))
        if len(node.orelse) == 1 and isinstance(node.orelse[0], ast.If):
            node = node.orelse[0]
        elif not node.orelse:
            break
        else:
            raise Unsupported('unexpected else branch in axis table')
    return rows, loop


def _handed_branch(fn):
    """`if handedness_ == RIGHT_HANDED: n = cross(rc[0], rc[1]) else: n = cross(rc[1], rc[0])`
    -> (i, j) used in the right-handed branch, (i, j) in the other."""
    for n in ast.walk(fn):
        if isinstance(n, ast.If) and 'handedness_' in ast.unparse(n.test):
            t = n.test
            if not (isinstance(t, ast.Compare) and isinstance(t.ops[0], ast.Eq)
                    and ast.unparse(t.comparators[0]).endswith('RIGHT_HANDED')):
                raise Unsupported(f'unexpected handedness test {ast.unparse(t)}')

            def order(body):
                if len(body) != 1 or not isinstance(body[0], ast.Assign):
                    raise Unsupported('unexpected handedness branch')
                c = body[0].value
                if not (isinstance(c, ast.Call) and ast.unparse(c.func) == 'np.cross' and len(c.args) == 2):
                    raise Unsupported('handedness branch is not an np.cross call')
                idx = []
                for a in c.args:
                    if not (isinstance(a, ast.Subscript) and ast.unparse(a.value) == 'rotation_columns'):
                        raise Unsupported('np.cross argument is not rotation_columns[i]')
                    idx.append(_num(a.slice))
                return tuple(idx)
            return order(n.body), order(n.orelse), n
    raise Unsupported(f'handedness branch not found in {fn.name}')


def _slices_first(fn):
    """`if slices_first: rc.insert(0, n); sp.insert(0, sbs) else: rc.append(n); sp.append(sbs)` -> True when
    the slice axis is put in front exactly in the `slices_first` branch."""
    for n in ast.walk(fn):
        if isinstance(n, ast.If) and ast.unparse(n.test) == 'slices_first':
            a = [ast.unparse(s) for s in n.body]
            b = [ast.unparse(s) for s in n.orelse]
            if a == ['rotation_columns.insert(0, n)', 'spacings.insert(0, spacing_between_slices)'] and \
                    b == ['rotation_columns.append(n)', 'spacings.append(spacing_between_slices)']:
                return True, n
            raise Unsupported('slices_first branch changed: ' + '; '.join(a + ['|'] + b))
    raise Unsupported('slices_first branch not found')


def _matrix44(fn, name, which=0):
    """`name = np.array([[...4 numbers...] * 4])` inside fn -> translation column as rationals, after
    checking that the rest is the identity."""
    hits = _assign_in(fn, name)
    node = hits[which].value
    if not (isinstance(node, ast.Call) and ast.unparse(node.func) == 'np.array' and node.args
            and isinstance(node.args[0], ast.List) and len(node.args[0].elts) == 4):
        raise Unsupported(f'{name} is not a 4x4 np.array literal')
    rows = []
    for r in node.args[0].elts:
        if not isinstance(r, ast.List) or len(r.elts) != 4:
            raise Unsupported(f'{name} is not a 4x4 np.array literal')
        rows.append(r.elts)
    from fractions import Fraction

    def val(e):
        neg = False
        if isinstance(e, ast.UnaryOp) and isinstance(e.op, ast.USub):
            neg, e = True, e.operand
        if not (isinstance(e, ast.Constant) and isinstance(e.value, (int, float))):
            raise Unsupported(f'non-literal entry in {name}')
        f = Fraction(e.value)
        return -f if neg else f
    vals = [[val(e) for e in r] for r in rows]
    for i in range(4):
        for j in range(3):
            if vals[i][j] != (1 if i == j else 0):
                raise Unsupported(f'{name} is no longer identity + translation')
    if vals[3][3] != 1:
        raise Unsupported(f'{name} last row changed')
    return [_rat_text(vals[i][3]) for i in range(3)], hits[which]


def _rat_text(f):
    return f'(({f.numerator} : Rat) / {f.denominator})'


def _module_float(tree, name):
    """module-level `name = <float literal>` -> exact decimal rational text (1e-05 -> 1/100000)"""
    from fractions import Fraction
    n = _module_assign(tree, name)
    v = n.value
    if not (isinstance(v, ast.Constant) and isinstance(v.value, (int, float)) and not isinstance(v.value, bool)):
        raise Unsupported(f'{name} is not a numeric literal')
    f = Fraction(repr(v.value))
    return f'(({f.numerator} : Rat) / {f.denominator})', n


def _coplanar_decision(tree):
    """`_are_images_coplanar`: the statement sequence is matched exactly; what may vary (and is emitted) is, for each of the
    two plane distances, whether an abs() is applied, which position and which normal is used."""
    from py2lean import strip_doc
    fn = find_func(tree, '_are_images_coplanar')
    body = strip_doc(fn.body)
    src = [ast.unparse(x) for x in body]
    if len(body) != 6:
        raise Unsupported(f'_are_images_coplanar has {len(body)} statements, 6 expected')
    if src[0] != 'n_a = get_normal_vector(image_orientation_a)' or src[1] != 'n_b = get_normal_vector(image_orientation_b)':
        raise Unsupported('normals of _are_images_coplanar are no longer get_normal_vector(image_orientation_x)')
    if src[2] != 'if 1.0 - np.abs(n_a @ n_b) > tol:\n    return False':
        raise Unsupported('parallelism test of _are_images_coplanar changed: ' + src[2])
    if src[5] != 'return abs(dis_a - dis_b) < tol':
        raise Unsupported('distance comparison of _are_images_coplanar changed: ' + src[5])
    dflt = {a.arg: d for a, d in zip(fn.args.args[-len(fn.args.defaults):], fn.args.defaults)}
    if 'tol' not in dflt or ast.unparse(dflt['tol']) != '_DEFAULT_EQUALITY_TOLERANCE':
        raise Unsupported('default tolerance of _are_images_coplanar changed')
    specs = []
    for k, name in ((3, 'dis_a'), (4, 'dis_b')):
        st = body[k]
        if not (isinstance(st, ast.Assign) and ast.unparse(st.targets[0]) == name):
            raise Unsupported(f'statement {k} of _are_images_coplanar is not an assignment to {name}')
        e = st.value
        use_abs = False
        if isinstance(e, ast.Call) and ast.unparse(e.func) in ('abs', 'np.abs') and len(e.args) == 1:
            use_abs, e = True, e.args[0]
        if not (isinstance(e, ast.BinOp) and isinstance(e.op, ast.MatMult)):
            raise Unsupported(f'{name} is not a dot product')
        l, rgt = ast.unparse(e.left), ast.unparse(e.right)
        pos = {'np.array(image_position_a, dtype=float)': 'a', 'np.array(image_position_b, dtype=float)': 'b'}.get(l)
        nrm = {'n_a': 'a', 'n_b': 'b'}.get(rgt)
        if pos is None or nrm is None:
            raise Unsupported(f'{name} = {ast.unparse(st.value)} is not position @ normal')
        specs.append((use_abs, pos, nrm))
    txt = ('/-- `_are_images_coplanar`: for `dis_a`, `dis_b`: (abs applied, which position, which normal) -/\n'
           'def coplanarDistance : (Bool × Char × Char) × (Bool × Char × Char) := ('
           + ', '.join(f"({str(a).lower()}, '{p}', '{n}')" for a, p, n in specs) + ')')
    return txt, fn


def build_T13o(tree):
    spans = []
    out = []
    # tolerances
    for py, ln, doc in (('_DEFAULT_EQUALITY_TOLERANCE', 'equalityTolerance', 'tolerance of equality tests (coplanarity, orthogonality)'),
                        ('_DOT_PRODUCT_PERPENDICULAR_TOLERANCE', 'perpendicularTolerance', 'tolerance on the cosine of the stacking direction'),
                        ('_DEFAULT_SPACING_RELATIVE_TOLERANCE', 'spacingRelativeTolerance', 'default relative tolerance of slice spacings')):
        t, node = _module_float(tree, py)
        out.append(f'/-- spatial.{py}: {doc} -/\ndef {ln} : Rat := {t}')
        spans.append(node)
    t, node = _coplanar_decision(tree)
    out.append(t)
    spans.append(node)
    # PATIENT_ORIENTATION_OPPOSITES
    n = _module_assign(tree, 'PATIENT_ORIENTATION_OPPOSITES')
    if not isinstance(n.value, ast.Dict):
        raise Unsupported('PATIENT_ORIENTATION_OPPOSITES is not a dict literal')
    rows = [f'({_ch(_enum_letter(k))}, {_ch(_enum_letter(v))})' for k, v in zip(n.value.keys, n.value.values)]
    out.append(lean_table('orientationOpposites', 'List (Char × Char)', rows, 'spatial.PATIENT_ORIENTATION_OPPOSITES'))
    spans.append(n)
    # VOLUME_INDEX_CONVENTION
    n = _module_assign(tree, 'VOLUME_INDEX_CONVENTION')
    if not isinstance(n.value, ast.Tuple):
        raise Unsupported('VOLUME_INDEX_CONVENTION is not a tuple literal')
    out.append(lean_table('volumeIndexConvention', 'List Char', [_ch(_enum_letter(e)) for e in n.value.elts],
                          'spatial.VOLUME_INDEX_CONVENTION'))
    spans.append(n)
    # direction_to_vector_mapping
    fn = find_func(tree, 'rotation_for_patient_orientation')
    n = _assign_in(fn, 'direction_to_vector_mapping')[0]
    if not isinstance(n.value, ast.Dict):
        raise Unsupported('direction_to_vector_mapping is not a dict literal')
    rows = []
    for k, v in zip(n.value.keys, n.value.values):
        if not (isinstance(v, ast.Call) and ast.unparse(v.func) == 'np.array' and len(v.args) == 1
                and isinstance(v.args[0], ast.List) and len(v.args[0].elts) == 3):
            raise Unsupported('direction vector is not np.array([a, b, c])')
        a, b, c = (_num(e) for e in v.args[0].elts)
        rows.append(f'({_ch(_enum_letter(k))}, (({a} : Int), ({b} : Int), ({c} : Int)))')
    out.append(lean_table('directionToVector', 'List (Char × (Int × Int × Int))', rows,
                          'rotation_for_patient_orientation.direction_to_vector_mapping'))
    spans.append(n)
    # pos_directions / neg_directions
    fn = find_func(tree, 'get_closest_patient_orientation')
    for py, ln in (('pos_directions', 'posDirections'), ('neg_directions', 'negDirections')):
        n = _assign_in(fn, py)[0]
        if not isinstance(n.value, ast.List):
            raise Unsupported(f'{py} is not a list literal')
        out.append(lean_table(ln, 'List Char', [_ch(_enum_letter(e)) for e in n.value.elts],
                              f'get_closest_patient_orientation.{py}'))
        spans.append(n)
    # the final sign test `if alignments[i, d] > 0: pos else: neg`
    sign_if = [x for x in ast.walk(fn) if isinstance(x, ast.If) and ast.unparse(x.test) == 'alignments[i, d] > 0']
    if len(sign_if) != 1 or 'pos_directions[i]' not in ast.unparse(sign_if[0].body[0]) \
            or 'neg_directions[i]' not in ast.unparse(sign_if[0].orelse[0]):
        raise Unsupported('sign test of get_closest_patient_orientation changed')
    spans.append(sign_if[0])
    # axis tables
    fn = find_func(tree, 'create_rotation_matrix')
    rows, loop = _axis_table(fn, True)
    out.append(lean_table(
        'rotationAxisTable', 'List (Char × (Int × Bool × Bool))',
        [f'({_ch(l)}, (({s} : Int), {str(r).lower()}, {str(c).lower()}))' for l, s, r, c in rows],
        'create_rotation_matrix: index direction -> (sign, uses row cosines, uses spacing between columns)'))
    spans.append(loop)
    (rh, lh, node) = _handed_branch(fn)
    out.append(f'/-- create_rotation_matrix: operand order of np.cross for right- / left-handed -/\n'
               f'def rotationCrossOrder : (Nat × Nat) × (Nat × Nat) := (({rh[0]}, {rh[1]}), ({lh[0]}, {lh[1]}))')
    spans.append(node)
    sf, node = _slices_first(fn)
    out.append('/-- create_rotation_matrix: slice axis goes first exactly when `slices_first` -/\n'
               f'def slicesFirstPutsNormalFirst : Bool := {str(sf).lower()}')
    spans.append(node)
    fn = find_func(tree, 'get_normal_vector')
    rows, loop = _axis_table(fn, False)
    out.append(lean_table(
        'normalAxisTable', 'List (Char × (Int × Bool))',
        [f'({_ch(l)}, (({s} : Int), {str(r).lower()}))' for l, s, r, _ in rows],
        'get_normal_vector: index direction -> (sign, uses row cosines)'))
    spans.append(loop)
    (rh, lh, node) = _handed_branch(fn)
    out.append(f'/-- get_normal_vector: operand order of np.cross for right- / left-handed -/\n'
               f'def normalCrossOrder : (Nat × Nat) × (Nat × Nat) := (({rh[0]}, {rh[1]}), ({lh[0]}, {lh[1]}))')
    spans.append(node)
    # half-pixel corrections
    for qual, name, ln, which in (
            ('ImageToReferenceTransformer.__init__', 'correction_affine', 'imgToRefCorrection', 0),
            ('ReferenceToImageTransformer.__init__', 'correction_affine', 'refToImgCorrection', 0),
            ('ImageToImageTransformer.__init__', 'pix_to_im', 'pixToImCorrection', 0),
            ('ImageToImageTransformer.__init__', 'im_to_pix', 'imToPixCorrection', 0)):
        fn = find_func(tree, qual)
        t, node = _matrix44(fn, name, which)
        out.append(f'/-- translation column of `{name}` in `{qual}` (rest of the matrix is the identity) -/\n'
                   f'def {ln} : Rat × Rat × Rat := ({t[0]}, {t[1]}, {t[2]})')
        spans.append(node)
    return '\n\n'.join(out), span_sha(spans)


def _enum_members(tree, cls):
    for n in tree.body:
        if isinstance(n, ast.ClassDef) and n.name == cls:
            out = []
            for st in n.body:
                if isinstance(st, ast.Assign) and len(st.targets) == 1 and isinstance(st.targets[0], ast.Name):
                    if not (isinstance(st.value, ast.Constant) and isinstance(st.value.value, str)):
                        raise Unsupported(f'{cls}.{st.targets[0].id} is not a string literal')
                    out.append((st.targets[0].id, st.value.value))
            return out, n
    raise Unsupported(f'enum {cls} not found')


def build_T13e(tree):
    out, spans = [], []
    for cls, ln in (('PatientOrientationValuesBiped', 'bipedValues'), ('PixelIndexDirections', 'pixelIndexDirections')):
        mem, node = _enum_members(tree, cls)
        for name, val in mem:
            if name != val or len(val) != 1:
                raise Unsupported(f'{cls}.{name} = {val!r}: member name and value differ')
        out.append(lean_table(ln, 'List Char', [_ch(v) for _, v in mem], f'members of enum.{cls}'))
        spans.append(node)
    mem, node = _enum_members(tree, 'AxisHandedness')
    out.append(lean_table('axisHandednessValues', 'List String', [f'"{v}"' for _, v in mem], 'members of enum.AxisHandedness'))
    spans.append(node)
    return '\n\n'.join(out), span_sha(spans)


TARGETS = {
    'T13o': {'file': 'spatial.py', 'build': build_T13o},
    'T13e': {'file': 'enum.py', 'build': build_T13e},
}


# ---------------------------------------------------------------------------------------------------------------------------
# T13w  "argument writes": every statement of the coordinate helpers that stores IN PLACE into an object that may be (a view of)
# an argument of the caller.  Flow-ordered may-alias analysis per function:
#   * a parameter is `given` unless its annotation is a plain immutable type (int, float, bool, str, enums);
#   * a local becomes `alias` when it is bound to a given/alias name, to np.asarray / np.asanyarray / np.ascontiguousarray /
#     np.asfortranarray / np.atleast_*d / np.array(..., copy=False) of one, to a view of one (.T, .reshape, .ravel, .squeeze,
#     .view, .swapaxes, .transpose, np.squeeze/np.reshape/np.transpose(x), a subscript x[...], an attribute chain), or to a
#     conditional expression / tuple element of those; anything else (np.array(x), x.copy(), x.astype(...), arithmetic, calls)
#     makes it `fresh`;
#   * writes: augmented assignment to a given/alias array name or to a subscript / attribute of one, plain assignment to a
#     subscript of one, `out=` arguments and mutating methods (sort, fill, resize, put, itemset, append, extend, insert, pop,
#     remove, clear, reverse, update, setdefault, __setitem__, __delitem__) on one, `del x[...]`.
# The table is expected to be EMPTY; `helpers_never_write_arguments` in Props/C10.lean states that.
_W_FUNCS = [
    'get_normal_vector', 'create_rotation_matrix', '_stack_affine_matrix', 'create_affine_matrix_from_attributes',
    '_create_inv_affine_matrix_from_attributes', 'rotation_for_patient_orientation', 'create_affine_matrix_from_components',
    '_transform_affine_matrix', '_translate_affine_matrix', '_transform_affine_to_convention', 'get_closest_patient_orientation',
    '_is_matrix_orthogonal', '_are_images_coplanar', '_normalize_pixel_index_convention', '_normalize_patient_orientation',
    'PixelToReferenceTransformer.__init__', 'PixelToReferenceTransformer.__call__',
    'ReferenceToPixelTransformer.__init__', 'ReferenceToPixelTransformer.__call__',
    'PixelToPixelTransformer.__init__', 'PixelToPixelTransformer.__call__',
    'ImageToReferenceTransformer.__init__', 'ImageToReferenceTransformer.__call__',
    'ReferenceToImageTransformer.__init__', 'ReferenceToImageTransformer.__call__',
    'ImageToImageTransformer.__init__', 'ImageToImageTransformer.__call__',
    'map_pixel_into_coordinate_system', 'map_coordinate_into_pixel_matrix', 'compute_tile_positions_per_frame',
    'get_volume_positions', 'get_series_volume_positions', 'get_plane_sort_index', 'get_dataset_sort_index', 'sort_datasets',
    '_get_slice_distances', '_get_spatial_information',
]
_W_IMMUTABLE = {'int', 'float', 'bool', 'str', 'bytes', 'int | None', 'float | None', 'bool | None', 'str | None'}
_W_ASVIEW = {'np.asarray', 'np.asanyarray', 'np.ascontiguousarray', 'np.asfortranarray', 'np.atleast_1d', 'np.atleast_2d',
             'np.atleast_3d', 'np.squeeze', 'np.reshape', 'np.transpose', 'np.ravel', 'np.swapaxes', 'np.moveaxis',
             'np.expand_dims', 'np.broadcast_to'}
_W_VIEWMETH = {'reshape', 'ravel', 'squeeze', 'view', 'swapaxes', 'transpose', 'T', 'flat', 'real', 'imag'}
_W_MUT = {'sort', 'fill', 'resize', 'put', 'itemset', 'append', 'extend', 'insert', 'pop', 'remove', 'clear', 'reverse', 'update',
          'setdefault', '__setitem__', '__delitem__', 'setflags', 'partition'}


def _w_base(node):
    while isinstance(node, (ast.Subscript, ast.Attribute, ast.Starred)):
        node = node.value
    return node.id if isinstance(node, ast.Name) else None


def _w_may_alias(node, kinds):
    """does the value of this expression possibly share memory with a given/alias object?"""
    if isinstance(node, ast.Name):
        return kinds.get(node.id) in ('given', 'alias')
    if isinstance(node, (ast.Subscript, ast.Starred)):
        return _w_may_alias(node.value, kinds)
    if isinstance(node, ast.Attribute):
        return _w_may_alias(node.value, kinds)
    if isinstance(node, ast.IfExp):
        return _w_may_alias(node.body, kinds) or _w_may_alias(node.orelse, kinds)
    if isinstance(node, (ast.Tuple, ast.List)):
        return False                      # a new container (its elements are not written through it by these helpers)
    if isinstance(node, ast.NamedExpr):
        return _w_may_alias(node.value, kinds)
    if isinstance(node, ast.Call):
        fn = ast.unparse(node.func)
        if fn in _W_ASVIEW and node.args:
            return _w_may_alias(node.args[0], kinds)
        if fn == 'np.array' and node.args:
            for kw in node.keywords:
                if kw.arg == 'copy' and not (isinstance(kw.value, ast.Constant) and kw.value.value is True):
                    return _w_may_alias(node.args[0], kinds)
            return False
        if isinstance(node.func, ast.Attribute) and node.func.attr in _W_VIEWMETH:
            return _w_may_alias(node.func.value, kinds)
        return False
    return False


def _w_scan(fn, qual):
    kinds = {}
    for a in fn.args.posonlyargs + fn.args.args + fn.args.kwonlyargs:
        ann = ast.unparse(a.annotation) if a.annotation is not None else ''
        kinds[a.arg] = 'fresh' if (a.arg in ('self', 'cls') or ann in _W_IMMUTABLE) else 'given'
    rows = []

    def note(name, st):
        rows.append((qual, name, ' '.join(ast.unparse(st).split())[:120]))

    def bind(t, value):
        if isinstance(t, ast.Name):
            kinds[t.id] = 'alias' if (value is not None and _w_may_alias(value, kinds)) else 'fresh'
        elif isinstance(t, (ast.Tuple, ast.List)):
            for e in t.elts:
                bind(e.value if isinstance(e, ast.Starred) else e, None)

    def visit(stmts):
        for st in stmts:
            if isinstance(st, (ast.FunctionDef, ast.ClassDef, ast.AsyncFunctionDef)):
                continue
            # expression-level writes anywhere inside the statement
            for node in ast.walk(st):
                if isinstance(node, ast.Call):
                    for kw in node.keywords:
                        if kw.arg == 'out' and _w_may_alias(kw.value, kinds):
                            note(_w_base(kw.value) or '?', st)
                    if isinstance(node.func, ast.Attribute) and node.func.attr in _W_MUT and _w_may_alias(node.func.value, kinds):
                        note(_w_base(node.func.value) or '?', st)
            if isinstance(st, ast.AugAssign):
                t = st.target
                if isinstance(t, ast.Name):
                    if kinds.get(t.id) in ('given', 'alias'):
                        note(t.id, st)
                elif _w_may_alias(t, kinds):
                    note(_w_base(t) or '?', st)
            elif isinstance(st, ast.Assign):
                for t in st.targets:
                    if isinstance(t, (ast.Subscript, ast.Attribute)) and _w_may_alias(t.value if isinstance(t, ast.Subscript) else t.value, kinds) \
                            and not (isinstance(t, ast.Attribute) and isinstance(t.value, ast.Name) and t.value.id == 'self'):
                        note(_w_base(t) or '?', st)
                for t in st.targets:
                    bind(t, st.value)
            elif isinstance(st, ast.AnnAssign) and st.value is not None:
                bind(st.target, st.value)
            elif isinstance(st, ast.Delete):
                for t in st.targets:
                    if isinstance(t, ast.Subscript) and _w_may_alias(t.value, kinds):
                        note(_w_base(t) or '?', st)
            elif isinstance(st, (ast.For, ast.AsyncFor)):
                bind(st.target, ast.Subscript(value=st.iter, slice=ast.Constant(0)) if _w_may_alias(st.iter, kinds) else None)
                visit(st.body)
                visit(st.orelse)
            elif isinstance(st, ast.While):
                visit(st.body)
                visit(st.orelse)
            elif isinstance(st, ast.If):
                before = dict(kinds)
                visit(st.body)
                after_body = dict(kinds)
                kinds.clear()
                kinds.update(before)
                visit(st.orelse)
                for k2, v2 in after_body.items():         # may-alias: the union of both branches
                    if v2 in ('given', 'alias') or k2 not in kinds:
                        kinds[k2] = v2
            elif isinstance(st, (ast.With, ast.AsyncWith)):
                visit(st.body)
            elif isinstance(st, ast.Try):
                visit(st.body)
                for h in st.handlers:
                    visit(h.body)
                visit(st.orelse)
                visit(st.finalbody)

    visit(fn.body)
    return rows


def build_T13w(tree):
    rows, spans = [], []
    for q in _W_FUNCS:
        fn = find_func(tree, q)
        spans.append(fn)
        rows += _w_scan(fn, q)
    esc = lambda t: t.replace('\\', '\\\\').replace('"', '\\"')
    body = ('[' + ',\n   '.join(f'("{esc(a)}", "{esc(b)}", "{esc(c)}")' for a, b, c in rows) + ']') if rows else '[]'
    text = ('/-- spatial.py coordinate helpers: every in-place store into an object that may be (a view of) an argument of the caller\n'
            '(function, written name, statement); expected to be empty -/\n'
            f'def argumentWrites : List (String × String × String) :=\n  {body}\n\n'
            f'/-- the functions that were scanned -/\ndef argumentWritesScanned : Nat := {len(_W_FUNCS)}')
    return text, span_sha(spans)


TARGETS['T13w'] = {'file': 'spatial.py', 'build': build_T13w}


# ---------------------------------------------------------------------------------------------------------------------------
# TC10f  "forwarding and formulas": what the hand-written model of the transformers, of create_affine_matrix_from_components and
# of compute_tile_positions_per_frame copies from the source by hand:
#   * the defaults of create_affine_matrix_from_attributes / _create_inv_affine_matrix_from_attributes / create_rotation_matrix;
#   * for every transformer constructor: which constructor argument reaches which keyword of the affine constructors and of
#     _are_images_coplanar (a polymorphic Lean function per call: a swapped or extra argument changes it), and the order of the
#     factors of the matrix product (a Lean function over an abstract product);
#   * the keywords _create_inv_affine_matrix_from_attributes passes to create_rotation_matrix (the others take the defaults);
#   * create_affine_matrix_from_components: centre index, position from the centre, scaled direction (scalar readings);
#   * compute_tile_positions_per_frame: pixel index of a tile, the 1-based shift, that positions are computed BEFORE the shift,
#     the arguments of the transformer.
# lean/HdVerif/Proofs/AffineTie.lean proves that the hand-written definitions are equal to twins built from these.

from targets_C11 import _call_shape, _one, scalar_def  # noqa: E402

_GEOM_FLAGS = {'self', 'round_output', 'drop_slice_index', 'drop_slice_coord'}
_AFFINE_SLOTS = (('image_position', True), ('image_orientation', True), ('pixel_spacing', True), ('spacing_between_slices', False))
_COPLANAR_SLOTS = (('image_position_a', True), ('image_orientation_a', True), ('image_position_b', True), ('image_orientation_b', True))
_ROTATION_SLOTS = (('image_orientation', True), ('index_convention', False), ('slices_first', False), ('handedness', False),
                   ('pixel_spacing', False), ('spacing_between_slices', False))
_ROTATION_ABSENT_T = {'index_convention': 'List Char', 'slices_first': 'Bool', 'handedness': 'Bool', 'pixel_spacing': 'Rat',
                      'spacing_between_slices': 'Rat'}


def _forward_def(fn, call, slots, lean_name, doc, absent_types=None):
    """the keyword call `call` inside `fn` as a polymorphic Lean function of fn's geometry parameters: one component per callee
    slot (`some v` / `none` for optional ones)"""
    if not isinstance(call, ast.Call) or call.args:
        raise Unsupported(f'{lean_name}: keyword-only call expected: {ast.unparse(call)}')
    params = [a.arg for a in fn.args.args if a.arg not in _GEOM_FLAGS]
    kw = {}
    for k in call.keywords:
        if k.arg is None or k.arg in kw:
            raise Unsupported(f'{lean_name}: unsupported keyword in {ast.unparse(call)}')
        if not (isinstance(k.value, ast.Name) and k.value.id in params):
            raise Unsupported(f'{lean_name}: {k.arg}={ast.unparse(k.value)} is not a constructor argument')
        kw[k.arg] = k.value.id
    unknown = set(kw) - {s for s, _ in slots}
    if unknown:
        raise Unsupported(f'{lean_name}: keywords {sorted(unknown)} are not modelled')
    tv = {p: f'T{i}' for i, p in enumerate(params)}
    comps, types = [], []
    for s, required in slots:
        if s in kw:
            comps.append(kw[s] if required else f'some {kw[s]}')
            types.append(tv[kw[s]] if required else f'Option {tv[kw[s]]}')
        elif required:
            raise Unsupported(f'{lean_name}: required argument {s} is not passed')
        else:
            comps.append('none')
            t = (absent_types or {}).get(s, 'Rat')
            types.append(f'Option ({t})' if ' ' in t else f'Option {t}')
    sig = ' '.join(f'({p} : {tv[p]})' for p in params)
    tvs = ' '.join(tv[p] for p in params)
    return (f'/-- {doc} -/\ndef {lean_name} {{{tvs} : Type}} {sig} :\n    {" × ".join(types)} :=\n  ({", ".join(comps)})')


def _product_def(expr, names, lean_name, doc):
    """a product of named matrices (np.dot(a, b), a @ b, nested) as a Lean function over an abstract product"""
    used = []

    def go(e):
        if isinstance(e, ast.Name):
            if e.id not in names:
                raise Unsupported(f'{lean_name}: unexpected factor {e.id}')
            used.append(e.id)
            return e.id
        if isinstance(e, ast.BinOp) and isinstance(e.op, ast.MatMult):
            return f'(mul {go(e.left)} {go(e.right)})'
        if isinstance(e, ast.Call) and ast.unparse(e.func) == 'np.dot' and len(e.args) == 2 and not e.keywords:
            return f'(mul {go(e.args[0])} {go(e.args[1])})'
        raise Unsupported(f'{lean_name}: not a matrix product: {ast.unparse(e)}')
    body = go(expr)
    if sorted(used) != sorted(names):
        raise Unsupported(f'{lean_name}: factors {used}, expected {list(names)}')
    return f'/-- {doc} -/\ndef {lean_name} {{M : Type}} (mul : M → M → M) {" ".join(f"({n} : M)" for n in names)} : M :=\n  {body}'


def _local_assign(fn, name):
    return _one((n for n in ast.walk(fn) if isinstance(n, ast.Assign) and len(n.targets) == 1
                 and ast.unparse(n.targets[0]) == name), f'{fn.name}: assignment of {name}')


def _defaults(fn):
    args = fn.args.args
    return {a.arg: d for a, d in zip(args[len(args) - len(fn.args.defaults):], fn.args.defaults)}


def _handed(node, what):
    t = ast.unparse(node)
    if t == 'AxisHandedness.RIGHT_HANDED':
        return 'true'
    if t == 'AxisHandedness.LEFT_HANDED':
        return 'false'
    raise Unsupported(f'{what}: handedness default {t}')


def _conv(node, what):
    if not isinstance(node, ast.Tuple):
        raise Unsupported(f'{what}: index_convention default {ast.unparse(node)}')
    return '[' + ', '.join(_ch(_enum_letter(e)) for e in node.elts) + ']'


def _boolc(node, what):
    if isinstance(node, ast.Constant) and isinstance(node.value, bool):
        return str(node.value).lower()
    raise Unsupported(f'{what}: not a bool literal: {ast.unparse(node)}')


def build_TC10f(tree):
    out, spans = [], []
    # ---- defaults
    fa = find_func(tree, 'create_affine_matrix_from_attributes')
    d = _defaults(fa)
    if set(d) != {'spacing_between_slices', 'index_convention', 'slices_first', 'handedness'}:
        raise Unsupported(f'create_affine_matrix_from_attributes: optional parameters {sorted(d)}')
    out.append('/-- defaults of create_affine_matrix_from_attributes -/\n'
               f'def affineDefaultSpacingBetweenSlices : Rat := {_rat(d["spacing_between_slices"])}\n'
               f'def affineDefaultConvention : List Char := {_conv(d["index_convention"], fa.name)}\n'
               f'def affineDefaultSlicesFirst : Bool := {_boolc(d["slices_first"], fa.name)}\n'
               f'def affineDefaultRightHanded : Bool := {_handed(d["handedness"], fa.name)}')
    spans.append(fa.args)
    fi = find_func(tree, '_create_inv_affine_matrix_from_attributes')
    d = _defaults(fi)
    if set(d) != {'spacing_between_slices'}:
        raise Unsupported(f'_create_inv_affine_matrix_from_attributes: optional parameters {sorted(d)}')
    out.append('/-- default of _create_inv_affine_matrix_from_attributes -/\n'
               f'def invAffineDefaultSpacingBetweenSlices : Rat := {_rat(d["spacing_between_slices"])}')
    spans.append(fi.args)
    fr = find_func(tree, 'create_rotation_matrix')
    d = _defaults(fr)
    if set(d) != {'index_convention', 'slices_first', 'handedness', 'pixel_spacing', 'spacing_between_slices'}:
        raise Unsupported(f'create_rotation_matrix: optional parameters {sorted(d)}')
    out.append('/-- defaults of create_rotation_matrix -/\n'
               f'def rotationDefaultConvention : List Char := {_conv(d["index_convention"], fr.name)}\n'
               f'def rotationDefaultSlicesFirst : Bool := {_boolc(d["slices_first"], fr.name)}\n'
               f'def rotationDefaultRightHanded : Bool := {_handed(d["handedness"], fr.name)}\n'
               f'def rotationDefaultPixelSpacing : Rat := {_rat(d["pixel_spacing"])}\n'
               f'def rotationDefaultSpacingBetweenSlices : Rat := {_rat(d["spacing_between_slices"])}')
    spans.append(fr.args)
    # ---- the inverse constructor: rotation call, inverse, translation
    a = _local_assign(fi, 'rotation')
    if ast.unparse(a.value.func) != 'create_rotation_matrix':
        raise Unsupported('_create_inv_affine_matrix_from_attributes: rotation is not create_rotation_matrix(...)')
    out.append(_forward_def(fi, a.value, _ROTATION_SLOTS, 'invAffineRotationCall',
                            '_create_inv_affine_matrix_from_attributes: arguments of create_rotation_matrix (none = its default)',
                            _ROTATION_ABSENT_T))
    spans.append(a)
    a = _local_assign(fi, 'inv_rotation')
    _call_shape(a.value, 'np.linalg.inv', ['rotation'], {}, 'inv_rotation')
    spans.append(a)
    ret = _one((n for n in fi.body if isinstance(n, ast.Return)), 'return of the inverse constructor')
    _call_shape(ret.value, '_stack_affine_matrix', [], {'rotation': 'inv_rotation', 'translation': '-np.dot(inv_rotation, translation)'},
                'return of the inverse constructor')
    spans.append(ret)
    a = _local_assign(fi, 'translation')
    if ast.unparse(a.value) != 'np.array([float(x) for x in image_position], dtype=float)':
        raise Unsupported(f'inverse constructor: translation is {ast.unparse(a.value)}')
    spans.append(a)
    # ---- transformer constructors
    AFF, INV = 'create_affine_matrix_from_attributes', '_create_inv_affine_matrix_from_attributes'

    def ctor_call(fn, target, callee, lean, what):
        a = _local_assign(fn, target)
        if not isinstance(a.value, ast.Call) or ast.unparse(a.value.func) != callee:
            raise Unsupported(f'{what}: {target} is not {callee}(...)')
        out.append(_forward_def(fn, a.value, _AFFINE_SLOTS, lean, f'{what}: arguments of {callee} (none = its default)'))
        spans.append(a)

    def coplanar(fn, lean, what):
        iff = _one((n for n in fn.body if isinstance(n, ast.If) and '_are_images_coplanar' in ast.unparse(n.test)), f'{what}: coplanarity test')
        if not (isinstance(iff.test, ast.UnaryOp) and isinstance(iff.test.op, ast.Not) and len(iff.body) == 1
                and isinstance(iff.body[0], ast.Raise) and ast.unparse(iff.body[0].exc.func) == 'ValueError' and not iff.orelse):
            raise Unsupported(f'{what}: coplanarity test is not `if not _are_images_coplanar(...): raise ValueError`')
        out.append(_forward_def(fn, iff.test.operand, _COPLANAR_SLOTS, lean, f'{what}: arguments of _are_images_coplanar'))
        spans.append(iff)

    def product(fn, names, lean, what):
        a = _local_assign(fn, 'self._affine')
        out.append(_product_def(a.value, names, lean, f'{what}: self._affine as a product of the named matrices'))
        spans.append(a)

    fn = find_func(tree, 'PixelToReferenceTransformer.__init__')
    ctor_call(fn, 'self._affine', AFF, 'pixToRefCall', 'PixelToReferenceTransformer')
    fn = find_func(tree, 'ReferenceToPixelTransformer.__init__')
    ctor_call(fn, 'self._affine', INV, 'refToPixCall', 'ReferenceToPixelTransformer')
    fn = find_func(tree, 'PixelToPixelTransformer.__init__')
    coplanar(fn, 'pixToPixCoplanarCall', 'PixelToPixelTransformer')
    ctor_call(fn, 'pix_to_ref', AFF, 'pixToPixForwardCall', 'PixelToPixelTransformer (pix_to_ref)')
    ctor_call(fn, 'ref_to_pix', INV, 'pixToPixInverseCall', 'PixelToPixelTransformer (ref_to_pix)')
    product(fn, ['pix_to_ref', 'ref_to_pix'], 'pixToPixProduct', 'PixelToPixelTransformer')
    fn = find_func(tree, 'ImageToReferenceTransformer.__init__')
    ctor_call(fn, 'affine', AFF, 'imgToRefCall', 'ImageToReferenceTransformer')
    product(fn, ['affine', 'correction_affine'], 'imgToRefProduct', 'ImageToReferenceTransformer')
    fn = find_func(tree, 'ReferenceToImageTransformer.__init__')
    ctor_call(fn, 'affine', INV, 'refToImgCall', 'ReferenceToImageTransformer')
    product(fn, ['affine', 'correction_affine'], 'refToImgProduct', 'ReferenceToImageTransformer')
    fn = find_func(tree, 'ImageToImageTransformer.__init__')
    coplanar(fn, 'imgToImgCoplanarCall', 'ImageToImageTransformer')
    ctor_call(fn, 'pix_to_ref', AFF, 'imgToImgForwardCall', 'ImageToImageTransformer (pix_to_ref)')
    ctor_call(fn, 'ref_to_pix', INV, 'imgToImgInverseCall', 'ImageToImageTransformer (ref_to_pix)')
    product(fn, ['pix_to_im', 'ref_to_pix', 'pix_to_ref', 'im_to_pix'], 'imgToImgProduct', 'ImageToImageTransformer')
    # ---- create_affine_matrix_from_components
    fn = find_func(tree, 'create_affine_matrix_from_components')
    a = _local_assign(fn, 'center_index')
    out.append(scalar_def(a.value, 'centerIndex', [('extent', 'int')], {'shape_arr': 'extent'},
                          'create_affine_matrix_from_components: index of the array centre along an axis of this extent'))
    spans.append(a)
    a = _one((n for n in ast.walk(fn) if isinstance(n, ast.Assign) and ast.unparse(n.targets[0]) == 'position_arr'
              and 'center_position_arr' in ast.unparse(n.value)), 'position_arr from the centre')
    out.append(scalar_def(a.value, 'centerToPosition', [('center', 'rat'), ('moved', 'rat')],
                          {'center_position_arr': 'center', 'scaled_direction @ center_index.T': 'moved'},
                          'create_affine_matrix_from_components: a coordinate of the position from that of the centre and of '
                          '`scaled_direction @ center_index`'))
    spans.append(a)
    a = _local_assign(fn, 'scaled_direction')
    out.append(scalar_def(a.value, 'scaledDirectionEntry', [('entry', 'rat'), ('spacing', 'rat')], {'direction_arr': 'entry'},
                          'create_affine_matrix_from_components: an entry of the scaled direction (numpy broadcasting: column j '
                          'with spacing[j])'))
    spans.append(a)
    a = _local_assign(fn, 'affine')
    _call_shape(a.value, '_stack_affine_matrix', ['scaled_direction', 'position_arr'], {}, 'affine (components)')
    spans.append(a)
    # ---- compute_tile_positions_per_frame
    fn = find_func(tree, 'compute_tile_positions_per_frame')
    a = _local_assign(fn, 'tile_indices')
    if ast.unparse(a.value) != "np.stack(np.meshgrid(range(tiles_per_column), range(tiles_per_row), indexing='xy')).reshape(2, -1).T":
        raise Unsupported(f'tile_indices is {ast.unparse(a.value)}')
    spans.append(a)
    a = _local_assign(fn, 'pixel_indices')
    v = a.value
    if not (isinstance(v, ast.BinOp) and isinstance(v.op, ast.Mult) and ast.unparse(v.left) == 'tile_indices'
            and isinstance(v.right, ast.List) and len(v.right.elts) == 2
            and all(isinstance(e, ast.Name) and e.id in ('columns', 'rows') for e in v.right.elts)):
        raise Unsupported(f'pixel_indices is {ast.unparse(v)}')
    e0, e1 = (e.id for e in v.right.elts)
    out.append('/-- compute_tile_positions_per_frame: 0-based (column, row) pixel index of the tile in tile column / tile row '
               '(tile_indices * [.., ..]) -/\n'
               'def tilePixelIndex (tile_column tile_row columns rows : Int) : Int × Int :=\n'
               f'  (tile_column * {e0}, tile_row * {e1})')
    spans.append(a)
    i_pix = fn.body.index(a)
    tr = _local_assign(fn, 'transformer')
    if ast.unparse(tr.value.func) != 'PixelToReferenceTransformer':
        raise Unsupported('tiles: transformer is not a PixelToReferenceTransformer')
    out.append(_forward_def(fn, tr.value, _AFFINE_SLOTS[:3], 'tileTransformerCall',
                            'compute_tile_positions_per_frame: arguments of PixelToReferenceTransformer'))
    spans.append(tr)
    ip = _local_assign(fn, 'image_positions')
    _call_shape(ip.value, 'transformer', ['pixel_indices'], {}, 'image_positions (tiles)')
    spans.append(ip)
    aug = _one((n for n in fn.body if isinstance(n, ast.AugAssign) and ast.unparse(n.target) == 'pixel_indices'), 'pixel_indices += ...')
    if not isinstance(aug.op, ast.Add):
        raise Unsupported(f'tiles: {ast.unparse(aug)}')
    out.append(scalar_def(ast.BinOp(left=ast.Name(id='index', ctx=ast.Load()), op=ast.Add(), right=aug.value), 'tileOneBased',
                          [('index', 'int')], {}, 'compute_tile_positions_per_frame: the reported offset of a 0-based pixel index'))
    spans.append(aug)
    i_tr, i_aug = fn.body.index(ip), fn.body.index(aug)
    if not i_pix < i_tr:
        raise Unsupported('tiles: positions computed before the pixel indices')
    out.append('/-- compute_tile_positions_per_frame: the positions are computed from the pixel indices BEFORE these are shifted -/\n'
               f'def tilePositionsBeforeShift : Bool := {str(i_tr < i_aug).lower()}')
    ret = _one((n for n in fn.body if isinstance(n, ast.Return)), 'return (tiles)')
    if ast.unparse(ret.value) != 'list(zip(pixel_indices.tolist(), image_positions.tolist()))':
        raise Unsupported(f'tiles return {ast.unparse(ret.value)}')
    spans.append(ret)
    return '\n\n'.join(out), span_sha(spans)


TARGETS['TC10f'] = {'file': 'spatial.py', 'build': build_TC10f}


# ---------------------------------------------------------------------------------------------------------------------------
# TC10g  "calls and images": (1) the `__call__` of the six transformer classes as a SPEC the model interprets: required shape[1]
# of the argument, whether only integer dtypes are accepted, the constant rows stacked under the transposed argument (zeros /
# ones), how many rows of the product are returned, the out-of-plane test under the drop flag (column tested, threshold, strict
# `>`, columns kept) and whether there is a rounding flag (np.around(..).astype(int)); the drop test comes BEFORE the rounding;
# (2) for_image / for_images: which element of the tuple returned by _get_spatial_information reaches which constructor keyword,
# the slice spacing used when the dataset declares none, which flags are passed on; (3) _get_spatial_information: for every
# functional group it needs, where it is looked up and in which order (shared before per-frame), that per-frame groups are ignored
# for TILED_FULL, the z origin of the total pixel matrix when absent; (4) iter_tiled_full_frame_data: the nesting of its loops
# (channel, focal plane, tile), the z offset of a focal plane, its defaults, the number of tiles per row / column and the order of the
# tiles; the frame picked by `itertools.islice`.

def _const_rat(node, what):
    from fractions import Fraction
    if isinstance(node, ast.Constant) and isinstance(node.value, (int, float)) and not isinstance(node.value, bool):
        f = Fraction(repr(node.value)) if isinstance(node.value, float) else Fraction(node.value)
        return f'(({f.numerator} : Rat) / {f.denominator})'
    raise Unsupported(f'{what}: not a numeric literal: {ast.unparse(node)}')


def _call_spec(tree, cls):
    from py2lean import strip_doc
    fn = find_func(tree, f'{cls}.__call__')
    body = strip_doc(fn.body)
    arg = fn.args.args[1].arg
    i = 0
    # 1. shape test
    st = body[i]
    if not (isinstance(st, ast.If) and not st.orelse and len(st.body) == 1 and isinstance(st.body[0], ast.Raise)
            and ast.unparse(st.body[0].exc.func) == 'ValueError' and isinstance(st.test, ast.Compare)
            and ast.unparse(st.test.left) == f'{arg}.shape[1]' and len(st.test.ops) == 1 and isinstance(st.test.ops[0], ast.NotEq)):
        raise Unsupported(f'{cls}.__call__: first statement is not the shape test: {ast.unparse(st)[:80]}')
    width = _num(st.test.comparators[0])
    i += 1
    # 2. optional dtype test
    int_only = False
    st = body[i]
    if isinstance(st, ast.If) and f'{arg}.dtype.kind' in ast.unparse(st.test):
        if not (ast.unparse(st.test) == f"{arg}.dtype.kind not in ('u', 'i')" and not st.orelse and len(st.body) == 1
                and isinstance(st.body[0], ast.Raise) and ast.unparse(st.body[0].exc.func) == 'TypeError'):
            raise Unsupported(f'{cls}.__call__: dtype test changed: {ast.unparse(st.test)}')
        int_only = True
        i += 1
    # 3. homogeneous coordinates
    st = body[i]
    if not (isinstance(st, ast.Assign) and isinstance(st.value, ast.Call) and ast.unparse(st.value.func) == 'np.vstack'
            and len(st.value.args) == 1 and isinstance(st.value.args[0], ast.List)):
        raise Unsupported(f'{cls}.__call__: np.vstack([...]) expected: {ast.unparse(st)[:80]}')
    hom = ast.unparse(st.targets[0])
    elts = st.value.args[0].elts
    if ast.unparse(elts[0]) != f'{arg}.T.astype(float)':
        raise Unsupported(f'{cls}.__call__: first stacked block is {ast.unparse(elts[0])}')
    pad = []
    for e in elts[1:]:
        t = ast.unparse(e)
        if t == f'np.zeros(({arg}.shape[0],), dtype=float)':
            pad.append('0')
        elif t == f'np.ones(({arg}.shape[0],), dtype=float)':
            pad.append('1')
        else:
            raise Unsupported(f'{cls}.__call__: stacked block {t}')
    i += 1
    # 4. product
    st = body[i]
    if not (isinstance(st, ast.Assign) and ast.unparse(st.value) == f'np.dot(self._affine, {hom})'):
        raise Unsupported(f'{cls}.__call__: product is {ast.unparse(st)[:80]}')
    out = ast.unparse(st.targets[0])
    i += 1
    # 5. rows kept, then (drop) then (round)
    def rows_kept(e):
        t = ast.unparse(e)
        for k in (2, 3):
            if t == f'{out}[:{k}, :].T':
                return k
        raise Unsupported(f'{cls}.__call__: returned rows {t}')
    st = body[i]
    drop, has_round = None, False
    if isinstance(st, ast.Return):
        keep = rows_kept(st.value)
        if i != len(body) - 1:
            raise Unsupported(f'{cls}.__call__: statements after return')
    else:
        if not (isinstance(st, ast.Assign) and ast.unparse(st.targets[0]) == out):
            raise Unsupported(f'{cls}.__call__: {ast.unparse(st)[:80]}')
        keep = rows_kept(st.value)
        i += 1
        st = body[i]
        if isinstance(st, ast.If) and ast.unparse(st.test) in ('self._drop_slice_index', 'self._drop_slice_coord'):
            if st.orelse or len(st.body) != 2:
                raise Unsupported(f'{cls}.__call__: drop block changed')
            inner, cut = st.body
            if not (isinstance(inner, ast.If) and not inner.orelse and len(inner.body) == 1 and isinstance(inner.body[0], ast.Raise)
                    and ast.unparse(inner.body[0].exc.func) == 'RuntimeError'):
                raise Unsupported(f'{cls}.__call__: out-of-plane refusal changed')
            t = inner.test
            if not (isinstance(t, ast.Call) and ast.unparse(t.func).endswith('.any') and isinstance(t.func.value, ast.Compare)
                    and len(t.func.value.ops) == 1 and isinstance(t.func.value.ops[0], ast.Gt)):
                raise Unsupported(f'{cls}.__call__: out-of-plane test {ast.unparse(t)}')
            cmp_ = t.func.value
            col = None
            for k in range(3):
                if ast.unparse(cmp_.left) == f'np.abs({out}[:, {k}])':
                    col = k
            if col is None:
                raise Unsupported(f'{cls}.__call__: out-of-plane test on {ast.unparse(cmp_.left)}')
            thr = _const_rat(cmp_.comparators[0], f'{cls}.__call__ threshold')
            kc = None
            for k in (1, 2, 3):
                if ast.unparse(cut) == f'{out} = {out}[:, :{k}]':
                    kc = k
            if kc is None:
                raise Unsupported(f'{cls}.__call__: columns kept: {ast.unparse(cut)}')
            drop = (col, thr, kc)
            i += 1
            st = body[i]
        if isinstance(st, ast.If) and ast.unparse(st.test) == 'self._round_output':
            if not (len(st.body) == 1 and len(st.orelse) == 1 and ast.unparse(st.body[0]) == f'return np.around({out}).astype(int)'
                    and ast.unparse(st.orelse[0]) == f'return {out}'):
                raise Unsupported(f'{cls}.__call__: rounding block changed')
            has_round = True
        elif not (isinstance(st, ast.Return) and ast.unparse(st.value) == out):
            raise Unsupported(f'{cls}.__call__: {ast.unparse(st)[:80]}')
        if i != len(body) - 1:
            raise Unsupported(f'{cls}.__call__: statements after the result')
    d = 'none' if drop is None else f'some ({drop[0]}, {drop[1]}, {drop[2]})'
    return (f'({width}, {str(int_only).lower()}, [{", ".join(pad)}], {keep}, {d}, {str(has_round).lower()})'), fn


_SPEC_T = 'Nat × Bool × List Rat × Nat × Option (Nat × Rat × Nat) × Bool'


def build_TC10g(tree):
    out, spans = [], []
    for cls, ln in (('PixelToReferenceTransformer', 'pixToRefCallSpec'), ('ReferenceToPixelTransformer', 'refToPixCallSpec'),
                    ('PixelToPixelTransformer', 'pixToPixCallSpec'), ('ImageToReferenceTransformer', 'imgToRefCallSpec'),
                    ('ReferenceToImageTransformer', 'refToImgCallSpec'), ('ImageToImageTransformer', 'imgToImgCallSpec')):
        t, fn = _call_spec(tree, cls)
        out.append(f'/-- `{cls}.__call__`: (required shape[1], integer dtypes only, constant rows stacked under the transposed argument, rows of\n'
                   f'the product returned, under the drop flag (column tested with `abs(.) >`, threshold, columns kept), has a rounding flag) -/\n'
                   f'def {ln} : {_SPEC_T} :=\n  {t}')
        spans.append(fn)
    # ---- defaults of the flags of the constructors
    for cls, flags in (('ReferenceToPixelTransformer', (('round_output', 'refToPixDefaultRound'), ('drop_slice_index', 'refToPixDefaultDrop'))),
                       ('PixelToPixelTransformer', (('round_output', 'pixToPixDefaultRound'),)),
                       ('ReferenceToImageTransformer', (('drop_slice_coord', 'refToImgDefaultDrop'),))):
        fn = find_func(tree, f'{cls}.__init__')
        d = _defaults(fn)
        for flag, ln in flags:
            if flag not in d:
                raise Unsupported(f'{cls}.__init__: no default for {flag}')
            out.append(f'/-- default of `{flag}` of `{cls}` -/\ndef {ln} : Bool := {_boolc(d[flag], cls)}')
            a = _local_assign(fn, f'self._{flag}')
            if ast.unparse(a.value) != flag:
                raise Unsupported(f'{cls}.__init__: self._{flag} = {ast.unparse(a.value)}')
            spans.append(a)
        spans.append(fn.args)
    # ---- the two point helpers: transformer on a one-row array, first row of the result, Python round of each entry
    fn = find_func(tree, 'map_pixel_into_coordinate_system')
    tr = _local_assign(fn, 'transformer')
    if ast.unparse(tr.value.func) != 'PixelToReferenceTransformer':
        raise Unsupported('map_pixel_into_coordinate_system: transformer is not a PixelToReferenceTransformer')
    out.append(_forward_def(fn, tr.value, _AFFINE_SLOTS[:3], 'mapPixelCall', 'map_pixel_into_coordinate_system: arguments of PixelToReferenceTransformer'))
    spans.append(tr)
    a = _local_assign(fn, 'transformed_coordinates')
    if ast.unparse(a.value) != 'transformer(np.array([index], dtype=int))':
        raise Unsupported(f'map_pixel_into_coordinate_system: {ast.unparse(a.value)}')
    spans.append(a)
    a = _local_assign(fn, 'reference_coordinates')
    if ast.unparse(a.value) != 'transformed_coordinates[0, :].tolist()':
        raise Unsupported(f'map_pixel_into_coordinate_system: {ast.unparse(a.value)}')
    spans.append(a)
    ret = _one((n for n in fn.body if isinstance(n, ast.Return)), 'return of map_pixel_into_coordinate_system')
    if ast.unparse(ret.value) != '(reference_coordinates[0], reference_coordinates[1], reference_coordinates[2])':
        raise Unsupported(f'map_pixel_into_coordinate_system returns {ast.unparse(ret.value)}')
    spans.append(ret)
    fn = find_func(tree, 'map_coordinate_into_pixel_matrix')
    d = _defaults(fn)
    if set(d) != {'spacing_between_slices'}:
        raise Unsupported(f'map_coordinate_into_pixel_matrix: optional parameters {sorted(d)}')
    out.append(f'/-- default slice spacing of map_coordinate_into_pixel_matrix -/\ndef mapCoordinateDefaultSpacingBetweenSlices : Rat := {_rat(d["spacing_between_slices"])}')
    tr = _local_assign(fn, 'transformer')
    if ast.unparse(tr.value.func) != 'ReferenceToPixelTransformer':
        raise Unsupported('map_coordinate_into_pixel_matrix: transformer is not a ReferenceToPixelTransformer')
    out.append(_forward_def(fn, tr.value, _AFFINE_SLOTS, 'mapCoordinateCall',
                            'map_coordinate_into_pixel_matrix: arguments of ReferenceToPixelTransformer (flags not passed: its defaults)'))
    spans.append(tr)
    a = _local_assign(fn, 'transformed_coordinates')
    if ast.unparse(a.value) != 'transformer(np.array([coordinate], dtype=float))':
        raise Unsupported(f'map_coordinate_into_pixel_matrix: {ast.unparse(a.value)}')
    spans.append(a)
    a = _local_assign(fn, 'pixel_matrix_coordinates')
    if ast.unparse(a.value) != 'transformed_coordinates[0, :].tolist()':
        raise Unsupported(f'map_coordinate_into_pixel_matrix: {ast.unparse(a.value)}')
    spans.append(a)
    ret = _one((n for n in fn.body if isinstance(n, ast.Return)), 'return of map_coordinate_into_pixel_matrix')
    if ast.unparse(ret.value) != '(round(pixel_matrix_coordinates[0]), round(pixel_matrix_coordinates[1]), round(pixel_matrix_coordinates[2]))':
        raise Unsupported(f'map_coordinate_into_pixel_matrix returns {ast.unparse(ret.value)}')
    spans.append(ret)
    _images_part(tree, out, spans)
    return '\n\n'.join(out), span_sha(spans)


def _scalar_def2(expr, lean_name, params, doc):
    """as targets_C11.scalar_def, with the builtins float / int allowed"""
    from py2lean import translate_block
    import copy
    e = copy.deepcopy(expr)
    names = {n.id for n in ast.walk(e) if isinstance(n, ast.Name)} - {'abs', 'float', 'int'}
    unknown = names - {p for p, _ in params}
    if unknown:
        raise Unsupported(f'{lean_name}: unexpected names {sorted(unknown)} in {ast.unparse(expr)}')
    missing = {p for p, _ in params} - names
    if missing:
        raise Unsupported(f'{lean_name}: {sorted(missing)} not used in {ast.unparse(expr)}')
    ret = ast.Return(value=e)
    ast.fix_missing_locations(ast.Module(body=[ret], type_ignores=[]))
    return translate_block([ret], lean_name, params, {}, doc=doc)


def _src(node):
    return ' '.join(ast.unparse(node).split())


def _expect(node, text, what):
    if _src(node) != ' '.join(text.split()):
        raise Unsupported(f'{what}: `{_src(node)[:160]}` (expected `{text[:160]}`)')


_GSI_CALL = ('_get_spatial_information({ds}, frame_number={fn}, for_total_pixel_matrix={tot})')


def _for_image_def(tree, cls, lean, out, spans, inverse):
    """for_image of one class: the tuple returned by _get_spatial_information is unpacked into names, some of these reach the
    constructor keywords; the inverse classes replace a missing slice spacing by a default; flags are passed on under their own name"""
    fn = find_func(tree, f'{cls}.for_image')
    a = _one((n for n in ast.walk(fn) if isinstance(n, ast.Assign) and isinstance(n.value, ast.Call)
              and ast.unparse(n.value.func) == '_get_spatial_information'), f'{cls}.for_image: call of _get_spatial_information')
    _expect(a.value, _GSI_CALL.format(ds='dataset', fn='frame_number', tot='for_total_pixel_matrix'), f'{cls}.for_image')
    tgt = a.targets[0]
    if not (isinstance(tgt, ast.Tuple) and len(tgt.elts) == 4 and all(isinstance(e, ast.Name) for e in tgt.elts)):
        raise Unsupported(f'{cls}.for_image: result is not unpacked into four names')
    names = [e.id if e.id != '_' else f'unused{i}' for i, e in enumerate(tgt.elts)]
    spans.append(a)
    ret = _one((n for n in fn.body if isinstance(n, ast.Return)), f'{cls}.for_image: return')
    call = ret.value
    if not (isinstance(call, ast.Call) and ast.unparse(call.func) == 'cls' and not call.args):
        raise Unsupported(f'{cls}.for_image: return is not cls(...)')
    geo, flags = {}, []
    for k in call.keywords:
        if k.arg in ('round_output', 'drop_slice_index', 'drop_slice_coord'):
            if ast.unparse(k.value) != k.arg:
                raise Unsupported(f'{cls}.for_image: flag {k.arg}={ast.unparse(k.value)}')
            flags.append(k.arg)
        else:
            if not (isinstance(k.value, ast.Name) and k.value.id in [e.id for e in tgt.elts if e.id != '_']):
                raise Unsupported(f'{cls}.for_image: {k.arg}={ast.unparse(k.value)} is not an element of the spatial information')
            geo[k.arg] = names[[e.id for e in tgt.elts].index(k.value.id)]
    want_flags = {'PixelToReferenceTransformer': [], 'ImageToReferenceTransformer': [],
                  'ReferenceToPixelTransformer': ['round_output', 'drop_slice_index'],
                  'ReferenceToImageTransformer': ['drop_slice_coord']}[cls]
    if sorted(flags) != sorted(want_flags):
        raise Unsupported(f'{cls}.for_image: flags passed on {flags}, expected {want_flags}')
    unknown = set(geo) - {s for s, _ in _AFFINE_SLOTS}
    if unknown:
        raise Unsupported(f'{cls}.for_image: keywords {sorted(unknown)} are not modelled')
    tv = {n: f'T{i}' for i, n in enumerate(names)}
    comps, types = [], []
    for sname, required in _AFFINE_SLOTS:
        if sname in geo:
            comps.append(geo[sname] if required else f'some {geo[sname]}')
            types.append(tv[geo[sname]] if required else f'Option {tv[geo[sname]]}')
        elif required:
            raise Unsupported(f'{cls}.for_image: {sname} is not passed')
        else:
            comps.append('none')
            types.append('Option Rat')
    out.append(f'/-- `{cls}.for_image`: which element of `_get_spatial_information(..)` (position, orientation, pixel spacing, slice\n'
               f'spacing - in the order of its return statement) reaches which constructor keyword -/\n'
               f'def {lean} {{{" ".join(tv[n] for n in names)} : Type}} {" ".join(f"({n} : {tv[n]})" for n in names)} :\n'
               f'    {" × ".join(types)} :=\n  ({", ".join(comps)})')
    spans.append(ret)
    if inverse:
        iff = _one((n for n in fn.body if isinstance(n, ast.If)), f'{cls}.for_image: default slice spacing')
        sl = names[3]
        if not (_src(iff.test) == f'{sl} is None' and len(iff.body) == 1 and not iff.orelse and isinstance(iff.body[0], ast.Assign)
                and ast.unparse(iff.body[0].targets[0]) == sl):
            raise Unsupported(f'{cls}.for_image: `if {sl} is None: {sl} = ...` expected, found {_src(iff)[:100]}')
        if fn.body.index(iff) > fn.body.index(ret) or fn.body.index(iff) < fn.body.index(a):
            raise Unsupported(f'{cls}.for_image: default slice spacing is not between the lookup and the constructor')
        out.append(f'/-- `{cls}.for_image`: slice spacing used when the dataset declares none -/\n'
                   f'def {lean}DefaultSliceSpacing : Rat := {_rat(iff.body[0].value)}')
        spans.append(iff)


def _for_images_def(tree, cls, lean, out, spans):
    fn = find_func(tree, f'{cls}.for_images')
    calls = [n for n in fn.body if isinstance(n, ast.Assign) and isinstance(n.value, ast.Call)
             and ast.unparse(n.value.func) == '_get_spatial_information']
    if len(calls) != 2:
        raise Unsupported(f'{cls}.for_images: {len(calls)} calls of _get_spatial_information')
    names = []
    for a, sfx in zip(calls, ('from', 'to')):
        _expect(a.value, _GSI_CALL.format(ds=f'dataset_{sfx}', fn=f'frame_number_{sfx}', tot=f'for_total_pixel_matrix_{sfx}'), f'{cls}.for_images')
        tgt = a.targets[0]
        if not (isinstance(tgt, ast.Tuple) and len(tgt.elts) == 4 and all(isinstance(e, ast.Name) for e in tgt.elts)):
            raise Unsupported(f'{cls}.for_images: result is not unpacked into four names')
        names += [e.id for e in tgt.elts[:3]]
        if tgt.elts[3].id != '_':
            raise Unsupported(f'{cls}.for_images: the slice spacing is used')
        spans.append(a)
    ret = _one((n for n in fn.body if isinstance(n, ast.Return)), f'{cls}.for_images: return')
    call = ret.value
    if not (isinstance(call, ast.Call) and ast.unparse(call.func) == 'cls' and not call.args):
        raise Unsupported(f'{cls}.for_images: return is not cls(...)')
    slots = ['image_position_from', 'image_orientation_from', 'pixel_spacing_from', 'image_position_to', 'image_orientation_to',
             'pixel_spacing_to']
    kw = {}
    for k in call.keywords:
        if k.arg == 'round_output':
            if ast.unparse(k.value) != 'round_output':
                raise Unsupported(f'{cls}.for_images: round_output={ast.unparse(k.value)}')
            continue
        if k.arg not in slots or not (isinstance(k.value, ast.Name) and k.value.id in names):
            raise Unsupported(f'{cls}.for_images: {k.arg}={ast.unparse(k.value)}')
        kw[k.arg] = k.value.id
    if sorted(kw) != sorted(slots):
        raise Unsupported(f'{cls}.for_images: keywords {sorted(kw)}')
    has_round = any(k.arg == 'round_output' for k in call.keywords)
    if has_round != (cls == 'PixelToPixelTransformer'):
        raise Unsupported(f'{cls}.for_images: round_output passed on: {has_round}')
    tv = {n: f'T{i}' for i, n in enumerate(names)}
    out.append(f'/-- `{cls}.for_images`: which element of the two `_get_spatial_information(..)` results reaches which constructor keyword -/\n'
               f'def {lean} {{{" ".join(tv[n] for n in names)} : Type}} {" ".join(f"({n} : {tv[n]})" for n in names)} :\n'
               f'    {" × ".join(tv[kw[s_]] for s_ in slots)} :=\n  ({", ".join(kw[s_] for s_ in slots)})')
    spans.append(ret)
    # the frame-of-reference tests come first
    tests = [n for n in fn.body if isinstance(n, ast.If)]
    if len(tests) != 2 or fn.body.index(tests[1]) > fn.body.index(calls[0]):
        raise Unsupported(f'{cls}.for_images: frame of reference tests changed')
    _expect(tests[0].test, "not hasattr(dataset_from, 'FrameOfReferenceUID') or not hasattr(dataset_to, 'FrameOfReferenceUID')", f'{cls}.for_images')
    _expect(tests[1].test, 'dataset_from.FrameOfReferenceUID != dataset_to.FrameOfReferenceUID', f'{cls}.for_images')
    for t in tests:
        if not (len(t.body) == 1 and isinstance(t.body[0], ast.Raise) and ast.unparse(t.body[0].exc.func) == 'ValueError' and not t.orelse):
            raise Unsupported(f'{cls}.for_images: frame of reference test does not raise ValueError')
        spans.append(t)


def _lookup_chain(node, what):
    """`if hasattr(shared_seq, 'X'): v = shared_seq.X[0] elif frame_seq is not None and hasattr(frame_seq, 'X'): v = frame_seq.X[0]
    else: raise ValueError(..)` -> ('X', target, ['s', 'f'])"""
    order, attr, target = [], None, None
    cur = node
    while True:
        t = _src(cur.test)
        body = cur.body
        if not (len(body) == 1 and isinstance(body[0], ast.Assign)):
            raise Unsupported(f'{what}: branch body {_src(cur)[:100]}')
        val = body[0].value
        if not (isinstance(val, ast.Subscript) and _src(val.slice) == '0' and isinstance(val.value, ast.Attribute)
                and isinstance(val.value.value, ast.Name)):
            raise Unsupported(f'{what}: {_src(body[0])}')
        seq, x = val.value.value.id, val.value.attr
        tg = ast.unparse(body[0].targets[0])
        if attr is None:
            attr, target = x, tg
        if x != attr or tg != target:
            raise Unsupported(f'{what}: branches read different things: {_src(body[0])}')
        if seq == 'shared_seq' and t == f"hasattr(shared_seq, '{x}')":
            order.append('s')
        elif seq == 'frame_seq' and t == f"frame_seq is not None and hasattr(frame_seq, '{x}')":
            order.append('f')
        else:
            raise Unsupported(f'{what}: test `{t}` does not guard `{_src(body[0])}`')
        if len(cur.orelse) == 1 and isinstance(cur.orelse[0], ast.If):
            cur = cur.orelse[0]
            continue
        if not (len(cur.orelse) == 1 and isinstance(cur.orelse[0], ast.Raise) and ast.unparse(cur.orelse[0].exc.func) == 'ValueError'):
            raise Unsupported(f'{what}: the chain does not end in raise ValueError')
        break
    return attr, target, order


def _normaliser_part(tree, out, spans):
    """_normalize_pixel_index_convention / _normalize_patient_orientation: required length, enum conversion, the pairs of letters of which
    exactly one must occur"""
    from py2lean import strip_doc
    for fname, enum, lean in (('_normalize_pixel_index_convention', 'PixelIndexDirections', 'convention'),
                              ('_normalize_patient_orientation', 'PatientOrientationValuesBiped', 'orientation')):
        fn = find_func(tree, fname)
        body = strip_doc(fn.body)
        if len(body) != 6:
            raise Unsupported(f'{fname} has {len(body)} statements, 6 expected')
        t0 = body[0]
        if not (isinstance(t0, ast.If) and isinstance(t0.test, ast.Compare) and _src(t0.test.left) == 'len(c)' and isinstance(t0.test.ops[0], ast.NotEq)
                and isinstance(t0.body[0], ast.Raise) and ast.unparse(t0.body[0].exc.func) == 'ValueError'):
            raise Unsupported(f'{fname}: length test')
        n_ = _num(t0.test.comparators[0])
        _expect(body[1], f'c = tuple(({enum}(d) for d in c))', fname)
        _expect(body[2], 'c_set = {d.value for d in c}', fname)
        cr = body[3]
        if not (isinstance(cr, ast.Assign) and ast.unparse(cr.targets[0]) == 'criteria' and isinstance(cr.value, ast.List)):
            raise Unsupported(f'{fname}: criteria')
        pairs = []
        for e in cr.value.elts:
            if not (isinstance(e, ast.Compare) and len(e.ops) == 1 and isinstance(e.ops[0], ast.NotEq)):
                raise Unsupported(f'{fname}: criterion {_src(e)}')
            sides = []
            for x in (e.left, e.comparators[0]):
                if not (isinstance(x, ast.Compare) and isinstance(x.ops[0], ast.In) and _src(x.comparators[0]) == 'c_set' and isinstance(x.left, ast.Constant)
                        and isinstance(x.left.value, str) and len(x.left.value) == 1):
                    raise Unsupported(f'{fname}: criterion {_src(e)}')
                sides.append(x.left.value)
            pairs.append(tuple(sides))
        if not (_src(body[4]).startswith('if not all(criteria):') and isinstance(body[4].body[-1], ast.Raise)
                and ast.unparse(body[4].body[-1].exc.func) == 'ValueError'):
            raise Unsupported(f'{fname}: criteria test')
        _expect(body[5], 'return c', fname)
        out.append(f'/-- `{fname}`: required number of letters -/\ndef {lean}Length : Nat := {n_}')
        out.append(lean_table(f'{lean}ExclusivePairs', 'List (Char × Char)', [f'({_ch(a)}, {_ch(b)})' for a, b in pairs],
                              f'{fname}: of each of these pairs exactly one letter must occur (else ValueError)'))
        spans.append(fn)


def _rotation_part(tree, out, spans):
    """create_rotation_matrix: which element of `pixel_spacing` is the spacing between rows / between columns, the scalar shorthand, the
    positivity test, the scaling of the columns"""
    from py2lean import strip_doc
    fn = find_func(tree, 'create_rotation_matrix')
    body = strip_doc(fn.body)
    sp_if = _one((n for n in body if isinstance(n, ast.If) and _src(n.test) == 'isinstance(pixel_spacing, (Sequence, np.ndarray))'),
                 'create_rotation_matrix: pixel_spacing branch')
    if not (len(sp_if.body) == 3 and _src(sp_if.body[0]).startswith('if len(pixel_spacing) != 2: raise ValueError(') and len(sp_if.orelse) == 2):
        raise Unsupported('create_rotation_matrix: pixel_spacing branch changed')
    idx = {}
    for st in sp_if.body[1:]:
        if not (isinstance(st, ast.Assign) and isinstance(st.value, ast.Call) and ast.unparse(st.value.func) == 'float'
                and isinstance(st.value.args[0], ast.Subscript) and _src(st.value.args[0].value) == 'pixel_spacing'):
            raise Unsupported(f'create_rotation_matrix: {_src(st)}')
        idx[ast.unparse(st.targets[0])] = _num(st.value.args[0].slice)
    if sorted(idx) != ['spacing_between_columns', 'spacing_between_rows']:
        raise Unsupported(f'create_rotation_matrix: spacings assigned: {sorted(idx)}')
    if sorted(_src(x) for x in sp_if.orelse) != ['spacing_between_columns = pixel_spacing', 'spacing_between_rows = pixel_spacing']:
        raise Unsupported('create_rotation_matrix: scalar pixel_spacing is no longer used for both directions')
    out.append('/-- create_rotation_matrix: index into `pixel_spacing` of (spacing between rows, spacing between columns) -/\n'
               f'def rotationSpacingIndex : Nat × Nat := ({idx["spacing_between_rows"]}, {idx["spacing_between_columns"]})')
    spans.append(sp_if)
    pos = body[body.index(sp_if) + 1]
    if not (isinstance(pos, ast.If) and isinstance(pos.body[0], ast.Raise) and ast.unparse(pos.body[0].exc.func) == 'ValueError' and not pos.orelse):
        raise Unsupported('create_rotation_matrix: positivity test')
    out.append(_scalar_def2(pos.test, 'rotationSpacingRefused', [('spacing_between_rows', 'rat'), ('spacing_between_columns', 'rat')],
                            'create_rotation_matrix: the pixel spacings it refuses (ValueError)'))
    spans.append(pos)
    _expect(body[-2], 'rotation_columns = [c * s for c, s in zip(rotation_columns, spacings)]', 'create_rotation_matrix: scaling')
    _expect(body[-1], 'return np.column_stack(rotation_columns)', 'create_rotation_matrix: return')
    _expect(body[0], "if len(image_orientation) != 6: raise ValueError('Argument \"image_orientation\" must have length 6.')", 'create_rotation_matrix')
    spans += [body[-2], body[-1], body[0]]


def _convention_part(tree, out, spans):
    """_transform_affine_to_convention: which convention the flip flags run over, where a target letter is looked up, the opposite for absent
    letters, which arguments of _transform_affine_matrix are passed"""
    from py2lean import strip_doc
    fn = find_func(tree, '_transform_affine_to_convention')
    body = strip_doc(fn.body)
    if len(body) != 6:
        raise Unsupported(f'_transform_affine_to_convention has {len(body)} statements, 6 expected')
    _expect(body[0], 'from_reference_normed = _normalize_patient_orientation(from_reference_convention)', '_transform_affine_to_convention')
    _expect(body[1], 'to_reference_normed = _normalize_patient_orientation(to_reference_convention)', '_transform_affine_to_convention')
    side = {'from_reference_normed': 'f', 'to_reference_normed': 't'}
    fl = body[2]
    if not (isinstance(fl, ast.Assign) and ast.unparse(fl.targets[0]) == 'flip_reference' and isinstance(fl.value, ast.ListComp)
            and len(fl.value.generators) == 1 and not fl.value.generators[0].ifs):
        raise Unsupported('_transform_affine_to_convention: flip_reference')
    gen = fl.value.generators[0]
    e = fl.value.elt
    if not (isinstance(e, ast.Compare) and len(e.ops) == 1 and isinstance(e.ops[0], (ast.In, ast.NotIn)) and _src(e.left) == _src(gen.target)
            and _src(gen.iter) in side and _src(e.comparators[0]) in side):
        raise Unsupported(f'_transform_affine_to_convention: flip_reference = {_src(fl.value)}')
    out.append('/-- `_transform_affine_to_convention`: `flip_reference` has one flag per letter of (iterated convention), set when the letter is\n'
               '(absent from / present in) the (tested convention): (iterated, tested, flag means absent); \'f\' = from, \'t\' = to -/\n'
               f"def conventionFlipRule : Char × Char × Bool := ('{side[_src(gen.iter)]}', '{side[_src(e.comparators[0])]}', {str(isinstance(e.ops[0], ast.NotIn)).lower()})")
    _expect(body[3], 'permute_reference = []', '_transform_affine_to_convention')
    lp = body[4]
    if not (isinstance(lp, ast.For) and _src(lp.iter) in side and len(lp.body) == 1 and isinstance(lp.body[0], ast.If)):
        raise Unsupported('_transform_affine_to_convention: permutation loop')
    d = _src(lp.target)
    br = lp.body[0]
    if not (isinstance(br.test, ast.Compare) and isinstance(br.test.ops[0], ast.NotIn) and _src(br.test.left) == d and _src(br.test.comparators[0]) in side):
        raise Unsupported(f'_transform_affine_to_convention: loop test {_src(br.test)}')
    look = _src(br.test.comparators[0])
    if not (len(br.body) == 2 and _src(br.body[0]) == f'd_ = PATIENT_ORIENTATION_OPPOSITES[{d}]'
            and _src(br.body[1]) == f'permute_reference.append({look}.index(d_))'
            and len(br.orelse) == 1 and _src(br.orelse[0]) == f'permute_reference.append({look}.index({d}))'):
        raise Unsupported('_transform_affine_to_convention: loop body: ' + _src(br)[:200])
    out.append('/-- `_transform_affine_to_convention`: `permute_reference` has one entry per letter of (iterated convention): the index, in the\n'
               '(searched convention), of the letter itself or - when it is absent there - of its opposite: (iterated, searched) -/\n'
               f"def conventionPermuteRule : Char × Char := ('{side[_src(lp.iter)]}', '{side[look]}')")
    ret = body[5]
    if not (isinstance(ret, ast.Return) and isinstance(ret.value, ast.Call) and ast.unparse(ret.value.func) == '_transform_affine_matrix' and not ret.value.args):
        raise Unsupported('_transform_affine_to_convention: return')
    kws = {k.arg: _src(k.value) for k in ret.value.keywords}
    want = {'affine': 'affine', 'shape': 'shape', 'permute_indices': 'None', 'permute_reference': 'permute_reference', 'flip_indices': 'None',
            'flip_reference': 'flip_reference'}
    if kws != want:
        raise Unsupported(f'_transform_affine_to_convention: arguments of _transform_affine_matrix {kws}')
    spans.append(fn)
    # _transform_affine_matrix: flips are applied BEFORE the permutation of the reference axes (statement order)
    fm = find_func(tree, '_transform_affine_matrix')
    order = []
    for st in strip_doc(fm.body):
        t = _src(st)
        for key, tag in (('if flip_indices is not None', 'flip_indices'), ('if flip_reference is not None', 'flip_reference'),
                         ('if permute_indices is not None', 'permute_indices'), ('if permute_reference is not None', 'permute_reference')):
            if t.startswith(key):
                order.append(tag)
    if sorted(order) != sorted(['flip_indices', 'flip_reference', 'permute_indices', 'permute_reference']):
        raise Unsupported(f'_transform_affine_matrix: steps {order}')
    out.append('/-- `_transform_affine_matrix`: the order in which its four optional steps are applied -/\n'
               'def affineTransformOrder : List String := [' + ', '.join(f'"{x}"' for x in order) + ']')
    for key, txt in (('flip_reference', 'row_inv = np.diag([*[-1 if x else 1 for x in flip_reference], 1])'), ('flip_reference', 'transformed = row_inv @ transformed'),
                     ('permute_reference', 'transformed = transformed[[*permute_reference, 3], :]')):
        if sum(1 for n in ast.walk(fm) if isinstance(n, ast.Assign) and _src(n) == txt) != 1:
            raise Unsupported(f'_transform_affine_matrix: `{txt}` not found')
    spans.append(fm)


def _images_part(tree, out, spans):
    for cls, lean, inv in (('PixelToReferenceTransformer', 'pixToRefForImage', False), ('ReferenceToPixelTransformer', 'refToPixForImage', True),
                           ('ImageToReferenceTransformer', 'imgToRefForImage', False), ('ReferenceToImageTransformer', 'refToImgForImage', True)):
        _for_image_def(tree, cls, lean, out, spans, inv)
    _for_images_def(tree, 'PixelToPixelTransformer', 'pixToPixForImages', out, spans)
    _for_images_def(tree, 'ImageToImageTransformer', 'imgToImgForImages', out, spans)
    # ---- _get_spatial_information
    from py2lean import strip_doc
    fn = find_func(tree, '_get_spatial_information')
    body = strip_doc(fn.body)
    if len(body) != 5:
        raise Unsupported(f'_get_spatial_information has {len(body)} top-level statements, 5 expected')
    _expect(body[0], 'coordinate_system = get_image_coordinate_system(dataset)', '_get_spatial_information')
    if not (isinstance(body[1], ast.If) and _src(body[1].test) == 'coordinate_system is None' and isinstance(body[1].body[0], ast.Raise)
            and ast.unparse(body[1].body[0].exc.func) == 'ValueError'):
        raise Unsupported('_get_spatial_information: images without coordinate system are no longer refused with ValueError')
    _expect(body[4], 'return (position, orientation, pixel_spacing, spacing_between_slices)', '_get_spatial_information')
    tot = body[2]
    if not (isinstance(tot, ast.If) and _src(tot.test) == 'for_total_pixel_matrix' and not tot.orelse):
        raise Unsupported('_get_spatial_information: total pixel matrix branch')
    tb = tot.body
    texts = [_src(x) for x in tb]
    if len(tb) != 7 or not texts[0].startswith("if not hasattr(dataset, 'TotalPixelMatrixOriginSequence'): raise ValueError("):
        raise Unsupported('_get_spatial_information: total pixel matrix branch changed: ' + ' | '.join(texts)[:300])
    _expect(tb[1], 'origin_seq = dataset.TotalPixelMatrixOriginSequence[0]', 'total pixel matrix')
    pos = tb[2]
    if not (isinstance(pos, ast.Assign) and ast.unparse(pos.targets[0]) == 'position' and isinstance(pos.value, ast.Tuple) and len(pos.value.elts) == 3):
        raise Unsupported('total pixel matrix: position')
    _expect(pos.value.elts[0], 'origin_seq.XOffsetInSlideCoordinateSystem', 'total pixel matrix x')
    _expect(pos.value.elts[1], 'origin_seq.YOffsetInSlideCoordinateSystem', 'total pixel matrix y')
    z = pos.value.elts[2]
    if not (isinstance(z, ast.Call) and ast.unparse(z.func) == 'getattr' and len(z.args) == 3
            and _src(z.args[0]) == 'origin_seq' and _src(z.args[1]) == "'ZOffsetInSlideCoordinateSystem'"):
        raise Unsupported(f'total pixel matrix z: {_src(z)}')
    out.append(f'/-- `_get_spatial_information(for_total_pixel_matrix=True)`: z of the origin when the dataset has none -/\n'
               f'def totalMatrixDefaultZ : Rat := {_rat(z.args[2])}')
    _expect(tb[3], 'shared_seq = dataset.SharedFunctionalGroupsSequence[0]', 'total pixel matrix')
    m = tb[4]
    if not (isinstance(m, ast.If) and _src(m.test) == "hasattr(shared_seq, 'PixelMeasuresSequence')" and len(m.body) == 2
            and _src(m.body[0]) == 'pixel_spacing = shared_seq.PixelMeasuresSequence[0].PixelSpacing'
            and _src(m.body[1]) == "spacing_between_slices = getattr(shared_seq.PixelMeasuresSequence[0], 'SpacingBetweenSlices', None)"
            and len(m.orelse) == 1 and isinstance(m.orelse[0], ast.Raise) and ast.unparse(m.orelse[0].exc.func) == 'ValueError'):
        raise Unsupported('total pixel matrix: pixel measures: ' + _src(m)[:200])
    out.append("/-- `_get_spatial_information(for_total_pixel_matrix=True)`: where the pixel measures are looked up ('s' = shared groups) -/\n"
               "def totalMatrixMeasuresLookup : List Char := ['s']")
    _expect(tb[5], 'orientation = dataset.ImageOrientationSlide', 'total pixel matrix')
    _expect(tb[6], 'return (position, orientation, pixel_spacing, spacing_between_slices)', 'total pixel matrix')
    spans.append(tot)
    mf = body[3]
    if not (isinstance(mf, ast.If) and _src(mf.test) == 'is_multiframe_image(dataset)'):
        raise Unsupported('_get_spatial_information: multi-frame branch')
    mb = mf.body
    if not (_src(mb[0]).startswith('if frame_number is None: raise TypeError(')):
        raise Unsupported('multi-frame: a missing frame number is no longer a TypeError')
    lb = mb[1]
    if not (isinstance(lb, ast.If) and isinstance(lb.test, ast.Compare) and _src(lb.test.left) == 'frame_number' and len(lb.test.ops) == 1
            and isinstance(lb.test.ops[0], ast.Lt) and len(lb.body) == 1 and isinstance(lb.body[0], ast.Raise)
            and ast.unparse(lb.body[0].exc.func) == 'IndexError' and not lb.orelse):
        raise Unsupported('multi-frame: frame numbers below the first one are no longer refused with IndexError: ' + _src(lb)[:120])
    out.append('/-- `_get_spatial_information`: the smallest frame number of a multi-frame image (smaller ones are an IndexError, like the ones\n'
               f'beyond the last frame) -/\ndef firstFrameNumber : Int := {_num(lb.test.comparators[0])}')
    spans.append(lb)
    _expect(mb[2], 'shared_seq = dataset.SharedFunctionalGroupsSequence[0]', 'multi-frame')
    _expect(mb[3], "is_tiled_full = dataset.get('DimensionOrganizationType', '') == 'TILED_FULL'", 'multi-frame')
    fs = mb[4]
    if not (isinstance(fs, ast.If) and _src(fs.test) == 'is_tiled_full' and _src(fs.body[0]) == 'frame_seq = None' and len(fs.body) == 1
            and len(fs.orelse) == 1 and isinstance(fs.orelse[0], ast.Assign) and ast.unparse(fs.orelse[0].targets[0]) == 'frame_seq'):
        raise Unsupported('multi-frame: frame_seq: ' + _src(fs)[:200])
    sub = fs.orelse[0].value
    if not (isinstance(sub, ast.Subscript) and _src(sub.value) == 'dataset.PerFrameFunctionalGroupsSequence'):
        raise Unsupported('multi-frame: frame_seq is ' + _src(sub))
    out.append('/-- `_get_spatial_information`: a TILED_FULL image has no per-frame groups to look at -/\ndef tiledFullHasNoFrameGroups : Bool := true')
    out.append(scalar_def(sub.slice, 'frameGroupIndex', [('frame_number', 'int')], {},
                          '_get_spatial_information: index of the per-frame functional groups item of a frame number'))
    spans.append(fs)
    chains = {}
    for n in ast.walk(mf):
        if isinstance(n, ast.If) and _src(n.test).startswith('hasattr(shared_seq,'):
            attr, target, order = _lookup_chain(n, '_get_spatial_information')
            if attr in chains:
                raise Unsupported(f'_get_spatial_information: {attr} looked up twice')
            chains[attr] = (target, order)
            spans.append(n)
    if sorted(chains) != ['PixelMeasuresSequence', 'PlaneOrientationSequence', 'PlanePositionSequence', 'PlanePositionSlideSequence']:
        raise Unsupported(f'_get_spatial_information: lookup chains {sorted(chains)}')
    rows = [f'("{k}", [{", ".join(_ch(c) for c in chains[k][1])}])' for k in sorted(chains)]
    out.append(lean_table('spatialLookups', 'List (String × List Char)', rows,
                          "_get_spatial_information, multi-frame image: where each functional group is looked up, in order ('s' = shared, 'f' = per-frame item of the frame)"))
    # what is read from the groups found
    for txt in ('pixel_spacing = pixel_measures.PixelSpacing', "spacing_between_slices = getattr(pixel_measures, 'SpacingBetweenSlices', None)",
                'position = [pos_seq.XOffsetInSlideCoordinateSystem, pos_seq.YOffsetInSlideCoordinateSystem, pos_seq.ZOffsetInSlideCoordinateSystem]',
                'orientation = dataset.ImageOrientationSlide', 'position = pos_seq.ImagePositionPatient', 'orientation = pos_seq.ImageOrientationPatient'):
        hit = [n for n in ast.walk(mf) if isinstance(n, ast.Assign) and _src(n) == txt]
        if len(hit) != 1:
            raise Unsupported(f'_get_spatial_information: `{txt}` found {len(hit)} times')
        spans.append(hit[0])
    # the frame of a TILED_FULL image
    isl = [n for n in ast.walk(mf) if isinstance(n, ast.Assign) and 'itertools.islice' in _src(n)]
    if len(isl) != 1:
        raise Unsupported('_get_spatial_information: islice over iter_tiled_full_frame_data not found')
    a = isl[0]
    if not (_src(a.targets[0]) == '(_, _, _, _, *position)' and isinstance(a.value, ast.Call) and ast.unparse(a.value.func) == 'next'
            and len(a.value.args) == 1 and isinstance(a.value.args[0], ast.Call) and ast.unparse(a.value.args[0].func) == 'itertools.islice'
            and len(a.value.args[0].args) == 3 and _src(a.value.args[0].args[0]) == 'iter_tiled_full_frame_data(dataset)'):
        raise Unsupported('_get_spatial_information: TILED_FULL frame: ' + _src(a)[:200])
    st_, sp_ = a.value.args[0].args[1:]
    out.append(scalar_def(st_, 'tiledFrameStart', [('frame_number', 'int')], {}, '_get_spatial_information: islice start over iter_tiled_full_frame_data'))
    out.append(scalar_def(sp_, 'tiledFrameStop', [('frame_number', 'int')], {}, '_get_spatial_information: islice stop over iter_tiled_full_frame_data'))
    spans.append(a)
    sg = mf.orelse
    if not (_src(sg[0]).startswith('if frame_number is not None and frame_number != 1: raise TypeError(')):
        raise Unsupported('single frame: frame number rule changed: ' + _src(sg[0])[:120])
    for st, txt in zip(sg[1:], ('position = dataset.ImagePositionPatient', 'orientation = dataset.ImageOrientationPatient',
                                'pixel_spacing = dataset.PixelSpacing', "spacing_between_slices = getattr(dataset, 'SpacingBetweenSlices', None)")):
        _expect(st, txt, 'single frame')
    if len(sg) != 5:
        raise Unsupported('single frame branch has extra statements')
    spans.append(mf)
    # ---- iter_tiled_full_frame_data
    fn = find_func(tree, 'iter_tiled_full_frame_data')
    def getattr_default(name, obj, attr, wrap):
        a = _local_assign(fn, name)
        v = a.value
        if wrap:
            if not (isinstance(v, ast.Call) and ast.unparse(v.func) == 'float' and len(v.args) == 1):
                raise Unsupported(f'iter_tiled_full_frame_data: {name} = {_src(v)}')
            v = v.args[0]
        if not (isinstance(v, ast.Call) and ast.unparse(v.func) == 'getattr' and len(v.args) == 3 and _src(v.args[0]) == obj
                and _src(v.args[1]) == repr(attr)):
            raise Unsupported(f'iter_tiled_full_frame_data: {name} = {_src(a.value)}')
        spans.append(a)
        return v.args[2]
    d = getattr_default('num_focal_planes', 'dataset', 'TotalPixelMatrixFocalPlanes', False)
    out.append(f'/-- iter_tiled_full_frame_data: number of focal planes when the attribute is absent -/\ndef iterDefaultFocalPlanes : Nat := {_num(d)}')
    d = getattr_default('spacing_between_slices', 'pixel_measures', 'SpacingBetweenSlices', True)
    out.append(f'/-- iter_tiled_full_frame_data: spacing between focal planes when the attribute is absent -/\ndef iterDefaultSliceSpacing : Rat := {_rat(d)}')
    d = getattr_default('z_origin', 'image_origin', 'ZOffsetInSlideCoordinateSystem', True)
    out.append(f'/-- iter_tiled_full_frame_data: z of the origin when the attribute is absent -/\ndef iterDefaultZ : Rat := {_rat(d)}')
    for name, txt in (('image_origin', 'dataset.TotalPixelMatrixOriginSequence[0]'), ('shared_fg', 'dataset.SharedFunctionalGroupsSequence[0]'),
                      ('pixel_measures', 'shared_fg.PixelMeasuresSequence[0]'), ('x_offset', 'image_origin.XOffsetInSlideCoordinateSystem'),
                      ('y_offset', 'image_origin.YOffsetInSlideCoordinateSystem'),
                      ('pixel_spacing', '(float(pixel_measures.PixelSpacing[0]), float(pixel_measures.PixelSpacing[1]))')):
        a = _local_assign(fn, name)
        _expect(a.value, txt, f'iter_tiled_full_frame_data: {name}')
        spans.append(a)
    a = _local_assign(fn, 'image_orientation')
    _expect(a.value, '(' + ', '.join(f'float(dataset.ImageOrientationSlide[{k}])' for k in range(6)) + ')', 'iter_tiled_full_frame_data: image_orientation')
    spans.append(a)
    # how the number of channels is derived: SOP classes accepted, which of them are segmentations, LABELMAP = one channel (the
    # length of the literal list), otherwise one per segment / per optical path (declared, else counted)
    a = _local_assign(fn, 'allowed_sop_class_uids')
    if not (isinstance(a.value, ast.Set) and all(isinstance(e, ast.Constant) and isinstance(e.value, str) for e in a.value.elts)):
        raise Unsupported('iter_tiled_full_frame_data: allowed_sop_class_uids is not a set of string literals')
    out.append(lean_table('tiledAllowedSopClasses', 'List String', [f'"{e.value}"' for e in a.value.elts],
                          'iter_tiled_full_frame_data: SOP classes it accepts (others: ValueError)'))
    spans.append(a)
    chk = fn.body[fn.body.index(a) + 1]
    _expect(chk.test, 'dataset.SOPClassUID not in allowed_sop_class_uids', 'iter_tiled_full_frame_data: SOP class test')
    if not (isinstance(chk.body[0], ast.Raise) and ast.unparse(chk.body[0].exc.func) == 'ValueError'):
        raise Unsupported('iter_tiled_full_frame_data: SOP class test does not raise ValueError')
    spans.append(chk)
    a = _local_assign(fn, 'is_segmentation')
    v = a.value
    if not (isinstance(v, ast.Compare) and _src(v.left) == 'dataset.SOPClassUID' and len(v.ops) == 1 and isinstance(v.ops[0], ast.In)
            and isinstance(v.comparators[0], ast.Tuple) and all(isinstance(e, ast.Constant) for e in v.comparators[0].elts)):
        raise Unsupported('iter_tiled_full_frame_data: is_segmentation: ' + _src(v))
    seg_classes = [e.value for e in v.comparators[0].elts]
    spans.append(a)
    dec = _one((n for n in fn.body if isinstance(n, ast.If) and _src(n.test) == 'is_segmentation'), 'iter_tiled_full_frame_data: channel decision')
    inner = dec.body[0]
    if not (len(dec.body) == 1 and isinstance(inner, ast.If) and isinstance(inner.test, ast.Compare) and _src(inner.test.left) == 'dataset.SegmentationType'
            and isinstance(inner.test.ops[0], ast.Eq) and isinstance(inner.test.comparators[0], ast.Constant)):
        raise Unsupported('iter_tiled_full_frame_data: segmentation branch: ' + _src(dec)[:160])
    labelmap = inner.test.comparators[0].value

    def count_of(stmt, what):
        if not (isinstance(stmt, ast.Assign) and ast.unparse(stmt.targets[0]) == 'channels'):
            raise Unsupported(f'{what}: {_src(stmt)}')
        v = stmt.value
        if isinstance(v, ast.List):
            return str(len(v.elts))
        if (isinstance(v, ast.Call) and ast.unparse(v.func) == 'range' and len(v.args) == 2 and _src(v.args[0]) == '1'
                and isinstance(v.args[1], ast.BinOp) and isinstance(v.args[1].op, ast.Add) and _src(v.args[1].right) == '1'):
            e = _src(v.args[1].left)
            names = {'len(dataset.SegmentSequence)': 'segments', 'num_optical_paths': '(declared_paths.getD path_items)'}
            if e in names:
                return names[e]
        raise Unsupported(f'{what}: channels = {_src(v)}')
    c_label = count_of(inner.body[0], 'LABELMAP channels')
    c_seg = count_of(inner.orelse[0], 'segment channels')
    if len(inner.body) != 1 or len(inner.orelse) != 1 or len(dec.orelse) != 2:
        raise Unsupported('iter_tiled_full_frame_data: channel decision has extra statements')
    _expect(dec.orelse[0], "num_optical_paths = getattr(dataset, 'NumberOfOpticalPaths', len(dataset.OpticalPathSequence))", 'optical paths')
    c_path = count_of(dec.orelse[1], 'optical path channels')
    out.append(lean_table('segmentationSopClasses', 'List String', [f'"{c}"' for c in seg_classes],
                          'iter_tiled_full_frame_data: the SOP classes whose channels are segments'))
    out.append('/-- iter_tiled_full_frame_data: number of channels (outermost loop) from the SOP class, the segmentation type, the number of items of\n'
               'SegmentSequence, NumberOfOpticalPaths (if present) and the number of items of OpticalPathSequence -/\n'
               'def tiledChannelCount (sop_class segmentation_type : String) (segments : Nat) (declared_paths : Option Nat) (path_items : Nat) : Nat :=\n'
               f'  if segmentationSopClasses.contains sop_class then (if segmentation_type = "{labelmap}" then {c_label} else {c_seg})\n'
               f'  else {c_path}')
    spans.append(dec)
    loop = _one((n for n in fn.body if isinstance(n, ast.For)), 'iter_tiled_full_frame_data: outer loop')
    # the two outer loops may come in either order (the order is EMITTED: frames are numbered by it); z_offset is assigned once,
    # inside the loop over the focal planes
    heads = {'channel': 'channels', 'slice_index': 'range(1, num_focal_planes + 1)'}
    nest, zo, cur, in_slice = [], None, loop, False
    for depth in range(2):
        tgt = _src(cur.target)
        if tgt not in heads or _src(cur.iter) != heads[tgt] or tgt in nest:
            raise Unsupported(f'iter_tiled_full_frame_data: loop {depth + 1} is `for {tgt} in {_src(cur.iter)}`')
        nest.append(tgt)
        in_slice = in_slice or tgt == 'slice_index'
        inner = [x for x in cur.body if isinstance(x, ast.For)]
        rest = [x for x in cur.body if not isinstance(x, ast.For)]
        if len(inner) != 1:
            raise Unsupported(f'iter_tiled_full_frame_data: loop {depth + 1} does not contain exactly one loop')
        for x in rest:
            if not (isinstance(x, ast.Assign) and ast.unparse(x.targets[0]) == 'z_offset' and zo is None and in_slice
                    and cur.body.index(x) < cur.body.index(inner[0])):
                raise Unsupported(f'iter_tiled_full_frame_data: unexpected statement in loop {depth + 1}: {_src(x)[:80]}')
            zo = x
        cur = inner[0]
    l3 = cur
    if zo is None:
        raise Unsupported('iter_tiled_full_frame_data: z_offset is not assigned inside the loops')
    out.append(_scalar_def2(zo.value, 'focalPlaneZ', [('z_origin', 'rat'), ('slice_index', 'int'), ('spacing_between_slices', 'rat')],
                          'iter_tiled_full_frame_data: z of the 1-based focal plane `slice_index`'))
    if not (isinstance(l3, ast.For) and _src(l3.target) == '(offsets, coords)'):
        raise Unsupported('iter_tiled_full_frame_data: innermost loop')
    _expect(l3.iter, 'compute_tile_positions_per_frame(rows=dataset.Rows, columns=dataset.Columns, total_pixel_matrix_rows=dataset.TotalPixelMatrixRows, '
            'total_pixel_matrix_columns=dataset.TotalPixelMatrixColumns, total_pixel_matrix_image_position=(x_offset, y_offset, z_offset), '
            'image_orientation=image_orientation, pixel_spacing=pixel_spacing)', 'iter_tiled_full_frame_data: tiles')
    nest.append('tile')
    if not (len(l3.body) == 1 and _src(l3.body[0]) == 'yield (channel, slice_index, int(offsets[0]), int(offsets[1]), float(coords[0]), float(coords[1]), float(coords[2]))'):
        raise Unsupported('iter_tiled_full_frame_data: yield: ' + _src(l3.body[0])[:200])
    out.append('/-- iter_tiled_full_frame_data: its loops from the outermost to the innermost (frames are numbered in this order) -/\n'
               'def iterLoopNest : List String := [' + ', '.join(f'"{x}"' for x in nest) + ']')
    spans.append(loop)
    # ---- create_affine_matrix_from_attributes: argument checks, refused directions, the rotation call
    fa = find_func(tree, 'create_affine_matrix_from_attributes')
    fb = strip_doc(fa.body)
    lens = []
    k = 0
    for name in ('image_position', 'image_orientation', 'pixel_spacing'):
        t1, t2 = fb[k], fb[k + 1]
        if not (_src(t1).startswith(f'if not isinstance({name}, (Sequence, np.ndarray)): raise TypeError(')):
            raise Unsupported(f'create_affine_matrix_from_attributes: type check of {name}: {_src(t1)[:100]}')
        if not (isinstance(t2, ast.If) and isinstance(t2.test, ast.Compare) and _src(t2.test.left) == f'len({name})' and isinstance(t2.test.ops[0], ast.NotEq)
                and isinstance(t2.body[0], ast.Raise) and ast.unparse(t2.body[0].exc.func) == 'ValueError'):
            raise Unsupported(f'create_affine_matrix_from_attributes: length check of {name}: {_src(t2)[:100]}')
        lens.append((name, _num(t2.test.comparators[0])))
        spans += [t1, t2]
        k += 2
    out.append(lean_table('affineArgumentLengths', 'List (String × Nat)', [f'("{n}", {v})' for n, v in lens],
                          'create_affine_matrix_from_attributes: required lengths of its sequence arguments (checked in this order, ValueError)'))
    _expect(fb[k], 'index_convention_ = _normalize_pixel_index_convention(index_convention)', 'create_affine_matrix_from_attributes')
    ref = fb[k + 1]
    if not (isinstance(ref, ast.If) and isinstance(ref.test, ast.BoolOp) and isinstance(ref.test.op, ast.Or)
            and isinstance(ref.body[0], ast.Raise) and ast.unparse(ref.body[0].exc.func) == 'ValueError' and not ref.orelse):
        raise Unsupported('create_affine_matrix_from_attributes: refusal of index directions')
    refused = []
    for v in ref.test.values:
        if not (isinstance(v, ast.Compare) and len(v.ops) == 1 and isinstance(v.ops[0], ast.In) and _src(v.comparators[0]) == 'index_convention_'):
            raise Unsupported(f'create_affine_matrix_from_attributes: {_src(v)}')
        refused.append(_enum_letter(v.left))
    out.append(lean_table('affineRefusedDirections', 'List Char', [_ch(c) for c in refused],
                          'create_affine_matrix_from_attributes: index directions it refuses (they would need the image size)'))
    _expect(fb[k + 2], 'translation = np.array([float(x) for x in image_position], dtype=float)', 'create_affine_matrix_from_attributes')
    rc = fb[k + 3]
    if not (isinstance(rc, ast.Assign) and ast.unparse(rc.targets[0]) == 'rotation' and isinstance(rc.value, ast.Call)
            and ast.unparse(rc.value.func) == 'create_rotation_matrix' and not rc.value.args):
        raise Unsupported('create_affine_matrix_from_attributes: rotation call')
    params = [a.arg for a in fa.args.args]
    kwv = {}
    for kk in rc.value.keywords:
        v = ast.unparse(kk.value)
        if v == 'index_convention_':
            v = 'index_convention'          # the normalised convention (normalisation is pinned above)
        if v not in params or kk.arg in kwv:
            raise Unsupported(f'create_affine_matrix_from_attributes: rotation keyword {kk.arg}={ast.unparse(kk.value)}')
        kwv[kk.arg] = v
    if set(kwv) - {s_ for s_, _ in _ROTATION_SLOTS}:
        raise Unsupported(f'create_affine_matrix_from_attributes: rotation keywords {sorted(kwv)}')
    tv = {p_: f'T{i}' for i, p_ in enumerate(params)}
    comps, types = [], []
    for s_, required in _ROTATION_SLOTS:
        if s_ in kwv:
            comps.append(kwv[s_] if required else f'some {kwv[s_]}')
            types.append(tv[kwv[s_]] if required else f'Option {tv[kwv[s_]]}')
        elif required:
            raise Unsupported(f'create_affine_matrix_from_attributes: rotation argument {s_} not passed')
        else:
            comps.append('none')
            t_ = _ROTATION_ABSENT_T[s_]
            types.append(f'Option ({t_})' if ' ' in t_ else f'Option {t_}')
    out.append('/-- create_affine_matrix_from_attributes: arguments of create_rotation_matrix (none = its default; `index_convention` is the NORMALISED one) -/\n'
               f'def affineRotationCall {{{" ".join(tv[p_] for p_ in params)} : Type}} {" ".join(f"({p_} : {tv[p_]})" for p_ in params)} :\n'
               f'    {" × ".join(types)} :=\n  ({", ".join(comps)})')
    _expect(fb[k + 4], 'affine = _stack_affine_matrix(rotation, translation)', 'create_affine_matrix_from_attributes')
    _expect(fb[k + 5], 'return affine', 'create_affine_matrix_from_attributes')
    if len(fb) != k + 6:
        raise Unsupported('create_affine_matrix_from_attributes: extra statements')
    spans += fb[k:]
    # ---- get_normal_vector defaults (what _are_images_coplanar gets: it passes the orientation only), _is_matrix_orthogonal and its callers
    fnv = find_func(tree, 'get_normal_vector')
    dd = _defaults(fnv)
    if set(dd) != {'index_convention', 'handedness'}:
        raise Unsupported(f'get_normal_vector: optional parameters {sorted(dd)}')
    out.append('/-- defaults of get_normal_vector -/\n'
               f'def normalDefaultConvention : List Char := {_conv(dd["index_convention"], fnv.name)}\n'
               f'def normalDefaultRightHanded : Bool := {_handed(dd["handedness"], fnv.name)}')
    spans.append(fnv.args)
    fo = find_func(tree, '_is_matrix_orthogonal')
    dd = _defaults(fo)
    if set(dd) != {'require_unit', 'tol'} or ast.unparse(dd['tol']) != '_DEFAULT_EQUALITY_TOLERANCE':
        raise Unsupported(f'_is_matrix_orthogonal: defaults {[(k, ast.unparse(v)) for k, v in dd.items()]}')
    out.append(f'/-- default of `require_unit` of _is_matrix_orthogonal (its tolerance defaults to _DEFAULT_EQUALITY_TOLERANCE) -/\n'
               f'def orthogonalDefaultRequireUnit : Bool := {_boolc(dd["require_unit"], fo.name)}')
    ob = strip_doc(fo.body)
    want = ["if m.ndim != 2: raise ValueError('Argument \"m\" should be an array with 2 dimensions.')",
            'if m.shape[0] != m.shape[1]: return False',
            'norm_squared = (m ** 2).sum(axis=0)',
            'if require_unit: if not np.allclose(norm_squared, np.array([1.0, 1.0, 1.0]), atol=tol): return False',
            'return np.allclose(m.T @ m, np.diag(norm_squared), atol=tol)']
    got = [_src(x) for x in ob]
    if got != want:
        raise Unsupported('_is_matrix_orthogonal changed: ' + ' | '.join(g for g, w in zip(got, want) if g != w)[:300])
    spans.append(fo)

    def ortho_call(fn_name, lean):
        f_ = find_func(tree, fn_name)
        tests = [n for n in ast.walk(f_) if isinstance(n, ast.If) and '_is_matrix_orthogonal(' in _src(n.test)]
        t_ = _one(tests, f'{fn_name}: orthogonality test')
        if not (isinstance(t_.test, ast.UnaryOp) and isinstance(t_.test.op, ast.Not) and isinstance(t_.body[0], ast.Raise)
                and ast.unparse(t_.body[0].exc.func) == 'ValueError'):
            raise Unsupported(f'{fn_name}: a non-orthogonal matrix is no longer a ValueError')
        call = t_.test.operand
        kws = {k.arg: k.value for k in call.keywords}
        if len(call.args) != 1 or set(kws) - {'require_unit'}:
            raise Unsupported(f'{fn_name}: {_src(call)}')
        val = _boolc(kws['require_unit'], fn_name) if 'require_unit' in kws else None
        out.append(f'/-- `{fn_name}`: `require_unit` it passes to _is_matrix_orthogonal (none = the default) -/\n'
                   f'def {lean} : Option Bool := {"none" if val is None else "some " + val}')
        spans.append(t_)
    ortho_call('get_closest_patient_orientation', 'closestRequireUnit')
    ortho_call('create_affine_matrix_from_components', 'componentsRequireUnit')
    _normaliser_part(tree, out, spans)
    _rotation_part(tree, out, spans)
    _convention_part(tree, out, spans)
    # ---- get_image_coordinate_system: the attributes that decide, in the order they are looked at
    fn = find_func(tree, 'get_image_coordinate_system')
    body = strip_doc(fn.body)
    if len(body) != 2:
        raise Unsupported(f'get_image_coordinate_system has {len(body)} statements, 2 expected')
    if not (isinstance(body[0], ast.If) and _src(body[0].test) == "not hasattr(dataset, 'FrameOfReferenceUID')" and _src(body[0].body[0]) == 'return None'):
        raise Unsupported('get_image_coordinate_system: frame of reference test')
    dec = body[1]
    if not (isinstance(dec, ast.If) and isinstance(dec.test, ast.BoolOp) and isinstance(dec.test.op, ast.Or)
            and _src(dec.body[0]) == 'return CoordinateSystemNames.SLIDE' and len(dec.body) == 1):
        raise Unsupported('get_image_coordinate_system: slide test')
    slide_marks = []
    for v in dec.test.values:
        if not (isinstance(v, ast.Call) and ast.unparse(v.func) == 'hasattr' and _src(v.args[0]) == 'dataset' and isinstance(v.args[1], ast.Constant)):
            raise Unsupported(f'get_image_coordinate_system: slide marker {_src(v)}')
        slide_marks.append(v.args[1].value)
    out.append(lean_table('slideMarkers', 'List String', [f'"{m}"' for m in slide_marks],
                          'get_image_coordinate_system: an image with a frame of reference and one of these attributes is in the SLIDE system'))
    eb = dec.orelse
    if len(eb) != 3:
        raise Unsupported(f'get_image_coordinate_system: patient branch has {len(eb)} statements')
    _expect(eb[0], "if 'ImagePositionPatient' in dataset: return CoordinateSystemNames.PATIENT", 'get_image_coordinate_system')
    lp = eb[1]
    if not (isinstance(lp, ast.For) and _src(lp.target) == 'kw' and isinstance(lp.iter, ast.List)):
        raise Unsupported('get_image_coordinate_system: loop over the functional group sequences')
    kws = [e.value for e in lp.iter.elts]
    _expect(lp.body[0], 'fgs = dataset.get(kw)', 'get_image_coordinate_system')
    _expect(lp.body[1], "if fgs is not None: if 'PlanePositionSequence' in fgs[0]: pps = fgs[0].PlanePositionSequence[0] "
            "if 'ImagePositionPatient' in pps: return CoordinateSystemNames.PATIENT", 'get_image_coordinate_system')
    out.append(lean_table('patientGroupSequences', 'List String', [f'"{k}"' for k in kws],
                          'get_image_coordinate_system: the sequences whose FIRST item is searched for PlanePositionSequence[0].ImagePositionPatient'))
    _expect(eb[2], 'return None', 'get_image_coordinate_system')
    spans.append(fn)
    # ---- number of tiles per direction (compute_tile_positions_per_frame)
    fn = find_func(tree, 'compute_tile_positions_per_frame')
    a = _local_assign(fn, 'tiles_per_column')
    out.append(scalar_def(a.value, 'tilesPerColumn', [('total_pixel_matrix_columns', 'int'), ('columns', 'int')], {},
                          'compute_tile_positions_per_frame: number of tile COLUMNS (range of the first meshgrid axis)'))
    spans.append(a)
    a = _local_assign(fn, 'tiles_per_row')
    out.append(scalar_def(a.value, 'tilesPerRow', [('total_pixel_matrix_rows', 'int'), ('rows', 'int')], {},
                          'compute_tile_positions_per_frame: number of tile ROWS (range of the second meshgrid axis)'))
    spans.append(a)


TARGETS['TC10g'] = {'file': 'spatial.py', 'build': build_TC10g}


# ---------------------------------------------------------------------------------------------------------------------------
# TC10s  "module state": every place of spatial.py where a function could keep something between calls - a `global` statement, a
# store into (a subscript / attribute of) a module-level name or a class, a mutating method call on one, a caching decorator
# (functools.lru_cache / cache).  Transformers and spatial information must depend on the CURRENT attributes of the dataset only
# (seeded R2C10-3, R5C10-3: frame positions memoised by SOP Instance UID); the table is expected to be EMPTY and
# `no_hidden_module_state` in Props/C10.lean states that.  A per-instance attribute (`self._affine = …`) is not module state.
_S_MUT = _W_MUT | {'add', 'discard', 'popitem', 'move_to_end', 'appendleft', 'extendleft', 'difference_update', 'intersection_update',
                   'symmetric_difference_update'}


def _s_module_names(tree):
    names = set()
    for n in tree.body:
        if isinstance(n, ast.Assign):
            for t in n.targets:
                for x in ast.walk(t):
                    if isinstance(x, ast.Name):
                        names.add(x.id)
        elif isinstance(n, ast.AnnAssign) and isinstance(n.target, ast.Name):
            names.add(n.target.id)
        elif isinstance(n, ast.ClassDef):
            names.add(n.name)
    return names


def _s_locals(fn):
    loc = {a.arg for a in fn.args.posonlyargs + fn.args.args + fn.args.kwonlyargs}
    if fn.args.vararg:
        loc.add(fn.args.vararg.arg)
    if fn.args.kwarg:
        loc.add(fn.args.kwarg.arg)
    glob = set()
    for n in ast.walk(fn):
        if isinstance(n, ast.Global):
            glob |= set(n.names)
        elif isinstance(n, (ast.Assign, ast.AugAssign, ast.AnnAssign)):
            tg = n.targets if isinstance(n, ast.Assign) else [n.target]
            for t in tg:
                for x in ([t] if isinstance(t, ast.Name) else (t.elts if isinstance(t, (ast.Tuple, ast.List)) else [])):
                    if isinstance(x, ast.Name):
                        loc.add(x.id)
                    elif isinstance(x, ast.Starred) and isinstance(x.value, ast.Name):
                        loc.add(x.value.id)
        elif isinstance(n, (ast.For, ast.AsyncFor, ast.comprehension)):
            for x in ast.walk(n.target):
                if isinstance(x, ast.Name):
                    loc.add(x.id)
        elif isinstance(n, (ast.With, ast.AsyncWith)):
            for it in n.items:
                if it.optional_vars is not None:
                    for x in ast.walk(it.optional_vars):
                        if isinstance(x, ast.Name):
                            loc.add(x.id)
        elif isinstance(n, ast.NamedExpr) and isinstance(n.target, ast.Name):
            loc.add(n.target.id)
    return loc - glob, glob


def build_TC10s(tree):
    mod = _s_module_names(tree)
    rows, spans, scanned = [], [], 0

    def scan(fn, qual):
        nonlocal scanned
        scanned += 1
        spans.append(fn)
        loc, glob = _s_locals(fn)

        def is_module(name):
            return name is not None and (name in glob or (name in mod and name not in loc)) and name not in ('self',)

        def note(name, st):
            rows.append((qual, name, ' '.join(ast.unparse(st).split())[:120]))
        for d in fn.decorator_list:
            t = ast.unparse(d)
            if 'lru_cache' in t or t.split('(')[0].split('.')[-1] in ('cache', 'cached', 'memoize', 'memoise'):
                note('@' + t, d)
        for g in glob:
            note(g, ast.Global(names=[g]))
        for st in ast.walk(fn):
            if isinstance(st, (ast.FunctionDef, ast.AsyncFunctionDef)) and st is not fn:
                continue
            if isinstance(st, (ast.Assign, ast.AugAssign, ast.AnnAssign)):
                tg = st.targets if isinstance(st, ast.Assign) else [st.target]
                for t in tg:
                    if isinstance(t, (ast.Subscript, ast.Attribute)) and is_module(_w_base(t)):
                        note(_w_base(t), st)
                    if isinstance(t, (ast.Subscript, ast.Attribute)) and _w_base(t) == 'cls':
                        note('cls', st)
            elif isinstance(st, ast.Delete):
                for t in st.targets:
                    if isinstance(t, (ast.Subscript, ast.Attribute)) and is_module(_w_base(t)):
                        note(_w_base(t), st)
            elif isinstance(st, ast.Call) and isinstance(st.func, ast.Attribute) and st.func.attr in _S_MUT and is_module(_w_base(st.func.value)):
                note(_w_base(st.func.value), st)
            elif isinstance(st, ast.Call) and ast.unparse(st.func) in ('setattr',) and st.args and is_module(_w_base(st.args[0])):
                note(_w_base(st.args[0]), st)

    for n in tree.body:
        if isinstance(n, (ast.FunctionDef, ast.AsyncFunctionDef)):
            scan(n, n.name)
            for m in ast.walk(n):
                if isinstance(m, (ast.FunctionDef, ast.AsyncFunctionDef)) and m is not n:
                    scan(m, f'{n.name}.<locals>.{m.name}')
        elif isinstance(n, ast.ClassDef):
            for m in n.body:
                if isinstance(m, (ast.FunctionDef, ast.AsyncFunctionDef)):
                    scan(m, f'{n.name}.{m.name}')
    if scanned < 40:
        raise Unsupported(f'only {scanned} functions of spatial.py scanned')
    # mutable module-level containers are listed too: none is expected besides constants
    esc = lambda t: t.replace('\\', '\\\\').replace('"', '\\"')
    body = ('[' + ',\n   '.join(f'("{esc(a)}", "{esc(b)}", "{esc(c)}")' for a, b, c in rows) + ']') if rows else '[]'
    text = ('/-- spatial.py: every statement through which a function could keep state between calls (function, name, statement): `global`,\n'
            'stores into module-level names or classes, mutating method calls on them, caching decorators; expected to be empty -/\n'
            f'def moduleStateWrites : List (String × String × String) :=\n  {body}\n\n'
            f'/-- the functions and methods that were scanned -/\ndef moduleStateScanned : Nat := {scanned}')
    return text, span_sha(spans)


TARGETS['TC10s'] = {'file': 'spatial.py', 'build': build_TC10s}
