"""Translation targets of C08 (tie T): integer cores of volume.py.

T9a/T9b/T9c  per-axis loop bodies of pad_to_spatial_shape / crop_to_spatial_shape / pad_or_crop_to_spatial_shape
T10a         per-axis size / emptiness arithmetic of `_prepare_getitem_index` (both branches), together with what
             is appended to new_shape / origin_indices / new_vectors (so the model's (first, step, size) is the code's)
T10b/T10c    the bound checks `_check_int` / `_check_slice` nested in `_prepare_getitem_index`
T10d         int -> slice conversion (`item == -1` -> open end) of `_prepare_getitem_index`
"""
from __future__ import annotations

import ast
import hashlib

from py2lean import Unsupported, find_func, span_sha, strip_doc, translate_block


def _loop_over_shapes(fn, other):
    """the `for insize, outsize in zip(self.spatial_shape, <other>)` loop of fn"""
    for node in ast.walk(fn):
        if isinstance(node, ast.For) and ast.unparse(node.iter) == f'zip(self.spatial_shape, {other})':
            t = node.target
            if isinstance(t, ast.Tuple) and [getattr(e, 'id', None) for e in t.elts] == ['insize', 'outsize'] and not node.orelse:
                return node
    raise Unsupported(f'loop `for insize, outsize in zip(self.spatial_shape, {other})` not found in {fn.name}')


class _Appends(ast.NodeTransformer):
    """`xs.append(e)` as a statement becomes `xs__item = e` (the value appended for this axis)."""

    def __init__(self, names):
        self.names = names
        self.count = {n: 0 for n in names}

    def visit_Expr(self, node):
        v = node.value
        if isinstance(v, ast.Call) and isinstance(v.func, ast.Attribute) and v.func.attr == 'append' \
                and isinstance(v.func.value, ast.Name) and v.func.value.id in self.names and len(v.args) == 1:
            self.count[v.func.value.id] += 1
            return ast.copy_location(ast.Assign(targets=[ast.Name(id=v.func.value.id + '__item', ctx=ast.Store())],
                                                value=v.args[0]), node)
        return node


def _axis_body(fn_name, lean_name, lists, doc, usage_needles):
    def build(tree):
        fn = find_func(tree, fn_name)
        loop = _loop_over_shapes(fn, 'spatial_shape')
        body = [ast.parse(ast.unparse(s)).body[0] for s in loop.body]
        tr = _Appends(lists)
        body = [tr.visit(s) for s in body]
        if any(c == 0 for c in tr.count.values()):
            raise Unsupported(f'loop body of {fn_name} no longer appends to {lists}')
        body.append(ast.parse('return (' + ', '.join(n + '__item' for n in lists) + ',)').body[0] if len(lists) == 1
                    else ast.parse('return (' + ', '.join(n + '__item' for n in lists) + ')').body[0])
        for s in body:
            ast.fix_missing_locations(s)
        # how the per-axis results are used afterwards is part of the translated span (checked textually)
        rest = ''.join(ast.unparse(fn).split())
        for needle in usage_needles:
            if ''.join(needle.split()) not in rest:
                raise Unsupported(f'{fn_name}: expected use `{needle}` not found')
        text = translate_block(body, lean_name, [('insize', 'int'), ('outsize', 'int')], {}, doc=doc)
        return text, span_sha(loop.body) + hashlib.sha256(''.join(usage_needles).encode()).hexdigest()[:8]
    return build


_PAD_USE = ['self.pad(pad_width=pad_width, mode=mode, constant_value=constant_value, per_channel=per_channel)']
_CROP_USE = ['self[crop_vals[0][0]:crop_vals[0][1], crop_vals[1][0]:crop_vals[1][1], crop_vals[2][0]:crop_vals[2][1]]']


def _prepare(tree):
    return find_func(tree, '_VolumeBase._prepare_getitem_index')


def _nested(fn, name):
    for n in fn.body:
        if isinstance(n, ast.FunctionDef) and n.name == name:
            return n
    raise Unsupported(f'nested function {name} not found in {fn.name}')


class _Rename(ast.NodeTransformer):
    def __init__(self, mapping):
        self.mapping = mapping

    def generic_visit(self, node):
        try:
            key = ast.unparse(node)
        except Exception:  # noqa: BLE001
            key = None
        if key in self.mapping and isinstance(node, (ast.Attribute, ast.Subscript)):
            return ast.copy_location(ast.Name(id=self.mapping[key], ctx=ast.Load()), node)
        return super().generic_visit(node)


def build_T10a(tree):
    fn = _prepare(tree)
    loop = None
    for node in ast.walk(fn):
        if isinstance(node, ast.For) and isinstance(node.target, ast.Name) and node.target.id == 'd' \
                and ast.unparse(node.iter) in ('range(0, 3)', 'range(3)'):
            loop = node
    if loop is None:
        raise Unsupported('axis loop `for d in range(0, 3)` not found in _prepare_getitem_index')
    iff = loop.body[0] if loop.body and isinstance(loop.body[0], ast.If) else None
    if iff is None or ''.join(ast.unparse(iff.test).split()) != 'len(tuple_index)>d':
        raise Unsupported('axis loop no longer starts with `if len(tuple_index) > d`')
    # what is appended after the if (shared by both branches): the column factor and the origin index are translated too
    tail = loop.body[1:]
    if len(tail) != 2:
        raise Unsupported('tail of the axis loop is no longer two append statements')
    vec, org = tail
    def _arg(st, lst):
        v = st.value if isinstance(st, ast.Expr) else None
        if not (isinstance(v, ast.Call) and ast.unparse(v.func) == f'{lst}.append' and len(v.args) == 1):
            raise Unsupported(f'tail of the axis loop: `{lst}.append(...)` not found')
        return v.args[0]
    vec_arg, org_arg = _arg(vec, 'new_vectors'), _arg(org, 'origin_indices')
    if not (isinstance(vec_arg, ast.BinOp) and isinstance(vec_arg.op, ast.Mult)
            and ''.join(ast.unparse(vec_arg.left).split()) == 'self._affine[:3,d]'):
        raise Unsupported('new column is no longer `self._affine[:3, d] * <factor>`')
    factor_src, origin_src = ast.unparse(vec_arg.right), ast.unparse(org_arg)
    # after the loop: origin through map_indices_to_reference, columns stacked
    after = ''.join(ast.unparse(fn).split())
    for needle in ['origin_index_arr=np.array([origin_indices])', 'new_origin_arr=self.map_indices_to_reference(origin_index_arr).T',
                   'new_rotation=np.column_stack(new_vectors)', 'new_affine=_stack_affine_matrix(new_rotation,new_origin_arr)',
                   'return(tuple_index,tuple(new_shape),new_affine)']:
        if needle not in after:
            raise Unsupported(f'_prepare_getitem_index: expected `{needle}` not found')
    # branch with an index item
    body = list(iff.body)
    txt0 = [''.join(ast.unparse(s).split()) for s in body[:2]]
    if txt0 != ['index_item=tuple_index[d]', 'first,last,step=index_item.indices(self.spatial_shape[d])']:
        raise Unsupported(f'head of the indexed branch changed: {txt0}')
    blk = [ast.parse(ast.unparse(s)).body[0] for s in body[2:]]
    tr = _Appends(['new_shape'])
    blk = [tr.visit(s) for s in blk]
    if tr.count['new_shape'] != 1:
        raise Unsupported('indexed branch does not append exactly once to new_shape')
    blk.append(ast.parse(f'return ({origin_src}, {factor_src}, new_shape__item)').body[0])
    for s in blk:
        ast.fix_missing_locations(s)
    t1 = translate_block(blk, 'getitemAxisItem', [('first', 'int'), ('last', 'int'), ('step', 'int')], {},
                         doc='`_prepare_getitem_index`, axis with an index item: from `first, last, step = item.indices(n)` to '
                             '(origin index, column factor, new size) or IndexError when empty')
    # branch without an index item
    blk2 = [ast.parse(ast.unparse(s)).body[0] for s in iff.orelse]
    tr2 = _Appends(['new_shape'])
    blk2 = [_Rename({'self.spatial_shape[d]': 'n'}).visit(tr2.visit(s)) for s in blk2]
    if tr2.count['new_shape'] != 1:
        raise Unsupported('unindexed branch does not append exactly once to new_shape')
    blk2 = [s for s in blk2 if not (isinstance(s, ast.Assign) and ast.unparse(s.targets[0]) == 'index_item')]
    blk2.append(ast.parse(f'return ({origin_src}, {factor_src}, new_shape__item)').body[0])
    for s in blk2:
        ast.fix_missing_locations(s)
    t2 = translate_block(blk2, 'getitemAxisNone', [('n', 'int')], {},
                         doc='`_prepare_getitem_index`, axis without an index item: (origin index, column factor, new size)')
    return t1 + '\n\n' + t2, span_sha(loop.body)


def build_T10b(tree):
    fn = _nested(_prepare(tree), '_check_int')
    if [a.arg for a in fn.args.args] != ['val', 'dim']:
        raise Unsupported('_check_int signature changed')
    body = [_Rename({'self.spatial_shape[dim]': 'n'}).visit(ast.parse(ast.unparse(s)).body[0]) for s in strip_doc(fn.body)]
    body.append(ast.parse('return val').body[0])
    for s in body:
        ast.fix_missing_locations(s)
    text = translate_block(body, 'checkInt', [('val', 'int'), ('n', 'int')], {},
                           doc='`_prepare_getitem_index._check_int` for an axis of size n (result: the accepted index)')
    return text, span_sha(fn.body)


def build_T10c(tree):
    fn = _nested(_prepare(tree), '_check_slice')
    if [a.arg for a in fn.args.args] != ['val', 'dim']:
        raise Unsupported('_check_slice signature changed')
    ren = {'self.spatial_shape[dim]': 'n', 'val.start': 'start', 'val.stop': 'stop', 'val.step': 'step'}
    body = [_Rename(ren).visit(ast.parse(ast.unparse(s)).body[0]) for s in strip_doc(fn.body)]
    body.append(ast.parse('return 0').body[0])
    for s in body:
        ast.fix_missing_locations(s)
    if 'step' in {n.id for s in body for n in ast.walk(s) if isinstance(n, ast.Name)}:
        raise Unsupported('_check_slice now looks at the step')
    text = translate_block(body, 'checkSlice', [('start', 'optint'), ('stop', 'optint'), ('n', 'int')], {},
                           doc='`_prepare_getitem_index._check_slice` for an axis of size n (0 = accepted)')
    return text, span_sha(fn.body)


def build_T10d(tree):
    """int -> slice conversion inside the tuple loop: (start, has_stop, stop)"""
    fn = _prepare(tree)
    loop = None
    for node in ast.walk(fn):
        if isinstance(node, ast.For) and ast.unparse(node.iter) == 'enumerate(index)':
            loop = node
    if loop is None:
        raise Unsupported('`for dim, item in enumerate(index)` not found')
    iff = loop.body[0] if loop.body and isinstance(loop.body[0], ast.If) else None
    if iff is None or ast.unparse(iff.test) != 'isinstance(item, int)':
        raise Unsupported('tuple loop no longer starts with `if isinstance(item, int)`')
    body = list(iff.body)
    txt = [''.join(ast.unparse(s).split()) for s in body]
    if len(body) != 4 or txt[0] != '_check_int(item,dim)' or not isinstance(body[1], ast.If) \
            or txt[2] != 'item=slice(item,end_index)' or txt[3] != 'index_list.append(item)':
        raise Unsupported(f'int branch of the tuple loop changed: {txt}')
    # the same conversion for a bare int index must read the same
    top = None
    for s in fn.body:
        if isinstance(s, ast.If) and ast.unparse(s.test) == 'isinstance(index, int)':
            top = s
    if top is None:
        raise Unsupported('bare-int branch not found')
    ttxt = [''.join(ast.unparse(s).split()) for s in top.body]
    want = ['_check_int(index,0)', ''.join(ast.unparse(body[1]).replace('item', 'index').split()), 'tuple_index=(slice(index,end_index),)']
    if ttxt != want:
        raise Unsupported(f'bare-int branch differs from the tuple branch: {ttxt}')
    cond = body[1]
    # encode `end_index = None` as has_end = False
    class R(ast.NodeTransformer):
        def visit_Assign(self, node):
            if ast.unparse(node.targets[0]) == 'end_index':
                if isinstance(node.value, ast.Constant) and node.value.value is None:
                    return [ast.parse('has_end = False').body[0], ast.parse('end_index = 0').body[0]]
                return [ast.parse('has_end = True').body[0], node]
            return node
    c2 = R().visit(ast.parse(ast.unparse(cond)).body[0])
    blk = [c2, ast.parse('return (item, has_end, end_index)').body[0]]
    for s in blk:
        ast.fix_missing_locations(s)
    text = translate_block(blk, 'intToSlice', [('item', 'int')], {},
                           doc='`_prepare_getitem_index`: an int index k becomes slice(k, end) with (k, has_end, end); '
                               'has_end = false encodes `end_index = None`')
    return text, span_sha(body) + span_sha(top.body)[:8]


TARGETS = {
    'T9a': {'file': 'volume.py', 'build': _axis_body(
        '_VolumeBase.pad_to_spatial_shape', 'padToAxis', ['pad_width'],
        '`pad_to_spatial_shape`, one axis: (pad_front, pad_back)', _PAD_USE)},
    'T9b': {'file': 'volume.py', 'build': _axis_body(
        '_VolumeBase.crop_to_spatial_shape', 'cropToAxis', ['crop_vals'],
        '`crop_to_spatial_shape`, one axis: (start, stop) of the slice taken', _CROP_USE)},
    'T9c': {'file': 'volume.py', 'build': _axis_body(
        '_VolumeBase.pad_or_crop_to_spatial_shape', 'padOrCropAxis', ['pad_width', 'crop_vals'],
        '`pad_or_crop_to_spatial_shape`, one axis: ((pad_front, pad_back), (crop start, crop stop)); crop first, then pad',
        ['cropped = ' + _CROP_USE[0],
         'padded = cropped.pad(pad_width=pad_width, mode=mode, constant_value=constant_value, per_channel=per_channel)',
         'return padded'])},
    'T10a': {'file': 'volume.py', 'build': build_T10a},
    'T10b': {'file': 'volume.py', 'build': build_T10b},
    'T10c': {'file': 'volume.py', 'build': build_T10c},
    'T10d': {'file': 'volume.py', 'build': build_T10d},
}


def build_T9d(tree):
    """`Volume.pad`: the decision whether padding is done channel by channel"""
    fn = find_func(tree, 'Volume.pad')
    body = strip_doc(fn.body)
    i1 = next((k for k, st in enumerate(body) if isinstance(st, ast.If) and isinstance(st.test, ast.Compare)
               and isinstance(st.test.ops[0], ast.In) and ast.unparse(st.test.left) == 'mode'), None)
    if i1 is None or i1 + 1 >= len(body) or not isinstance(body[i1 + 1], ast.If):
        raise Unsupported('`if mode in (...)` followed by the channel-count test not found in Volume.pad')
    # what precedes: mode normalisation to the enum
    pre = ''.join(ast.unparse(s) for s in body[:i1]).replace(' ', '').replace('\n', '')
    if pre != 'ifisinstance(mode,str):mode=mode.upper()mode=PadModes(mode)':
        raise Unsupported(f'mode normalisation of Volume.pad changed: {pre}')
    blk = [ast.parse(ast.unparse(s)).body[0] for s in body[i1:i1 + 2]]

    class R(ast.NodeTransformer):
        def visit_Compare(self, node):
            if len(node.ops) == 1 and isinstance(node.ops[0], ast.In) and isinstance(node.comparators[0], ast.Tuple):
                elts = node.comparators[0].elts
                return ast.BoolOp(op=ast.Or(), values=[ast.Compare(left=node.left, ops=[ast.Eq()], comparators=[self.visit(e)])
                                                       for e in elts])
            if ''.join(ast.unparse(node).split()) == 'self.channel_shape==(1,)':
                return ast.Name(id='channel_shape_is_one', ctx=ast.Load())
            return self.generic_visit(node)

        def visit_Attribute(self, node):
            txt = ast.unparse(node)
            if txt.startswith('PadModes.'):
                return ast.Constant(value=txt.split('.', 1)[1])
            if txt == 'self.number_of_channel_dimensions':
                return ast.Name(id='n_channel_dims', ctx=ast.Load())
            return node

        def visit_Assign(self, node):
            if ast.unparse(node.targets[0]) == 'used_mode':
                return ast.Pass()
            return self.generic_visit(node)
    blk = [R().visit(s) for s in blk]
    blk.append(ast.parse('return per_channel').body[0])
    for s in blk:
        ast.fix_missing_locations(s)
    # the enum values are their names (so the upper-cased string IS the member)
    text = translate_block(blk, 'padPerChannel', [('mode', 'str'), ('per_channel', 'bool'), ('n_channel_dims', 'int'),
                                                  ('channel_shape_is_one', 'bool')], {},
                           doc='`Volume.pad`: effective `per_channel` from the mode (enum member name), the argument, the number '
                               'of channel dimensions and `channel_shape == (1,)`')
    return text, span_sha(body[i1:i1 + 2])


TARGETS['T9d'] = {'file': 'volume.py', 'build': build_T9d}


def build_T9e(tree):
    """pad: origin offset per axis (`_prepare_pad_width`) and new size per axis (`VolumeGeometry.pad`)"""
    fn = find_func(tree, '_VolumeBase._prepare_pad_width')
    comp = None
    for node in ast.walk(fn):
        if isinstance(node, ast.Assign) and ast.unparse(node.targets[0]) == 'origin_offset' and isinstance(node.value, ast.ListComp):
            comp = node.value
    if comp is None or len(comp.generators) != 1 or ast.unparse(comp.generators[0].target) != 'p' \
            or ast.unparse(comp.generators[0].iter) != 'full_pad_width' or comp.generators[0].ifs:
        raise Unsupported('`origin_offset = [... for p in full_pad_width]` not found in _prepare_pad_width')
    rest = ''.join(ast.unparse(fn).split())
    for needle in ['new_affine=_translate_affine_matrix(self.affine,origin_offset)', 'return(new_affine,full_pad_width)']:
        if needle not in rest:
            raise Unsupported(f'_prepare_pad_width: expected `{needle}` not found')
    ren = _Rename({'p[0]': 'before', 'p[1]': 'after'})
    b1 = [ast.Return(value=ren.visit(ast.parse(ast.unparse(comp.elt), mode='eval').body))]
    fn2 = find_func(tree, 'VolumeGeometry.pad')
    comp2 = None
    for node in ast.walk(fn2):
        if isinstance(node, ast.Assign) and ast.unparse(node.targets[0]) == 'new_shape' and isinstance(node.value, ast.ListComp):
            comp2 = node.value
    if comp2 is None or len(comp2.generators) != 1 or ast.unparse(comp2.generators[0].target) != '(d, p)' \
            or ast.unparse(comp2.generators[0].iter) != 'zip(self.spatial_shape, full_pad_width)' or comp2.generators[0].ifs:
        raise Unsupported('`new_shape = [... for d, p in zip(self.spatial_shape, full_pad_width)]` not found in VolumeGeometry.pad')
    rest2 = ''.join(ast.unparse(fn2).split())
    if 'new_affine,full_pad_width=self._prepare_pad_width(pad_width)' not in rest2 or 'spatial_shape=new_shape,affine=new_affine' not in rest2:
        raise Unsupported('VolumeGeometry.pad no longer builds the result from _prepare_pad_width / new_shape')
    b2 = [ast.Return(value=_Rename({'p[0]': 'before', 'p[1]': 'after'}).visit(ast.parse(ast.unparse(comp2.elt), mode='eval').body))]
    for st in b1 + b2:
        ast.fix_missing_locations(st)
    t1 = translate_block(b1, 'padOriginOffset', [('before', 'int'), ('after', 'int')], {},
                         doc='`_prepare_pad_width`: element of `origin_offset` for an axis padded with (before, after); the new '
                             'origin is `_translate_affine_matrix(self.affine, origin_offset)` = affine at that index offset')
    t2 = translate_block(b2, 'padNewSize', [('d', 'int'), ('before', 'int'), ('after', 'int')], {},
                         doc='`VolumeGeometry.pad`: new size of an axis of size d padded with (before, after)')
    return t1 + '\n\n' + t2, span_sha(b1 + b2)


TARGETS['T9e'] = {'file': 'volume.py', 'build': build_T9e}


# ---------------------------------------------------------------------------------------------------------------------
# T9f / T9g: where the arrays of results come from, and what is written in place (allocation kinds under tie T)
#
# kinds:  fresh      a newly allocated array (`.copy()`, np.pad, np.zeros, arithmetic, np.vstack ... and views of those)
#         view       a view of the object's own array (`self._array[...]`, np.transpose(self._array, ...))
#         given      an array handed in by the caller (a parameter)
#         may_alias  numpy decides at run time whether it copies (np.ascontiguousarray, np.asarray, np.array(copy=False),
#                    astype(copy=False), np.require, reshape / ravel of a non-fresh array)
#         input      the object's own array / affine itself
#         unknown    anything the classifier does not recognise  (=> the theorems about the table fail)
FRESH_CALLS = {'np.pad', 'np.zeros', 'np.ones', 'np.empty', 'np.full', 'np.zeros_like', 'np.ones_like', 'np.empty_like',
               'np.stack', 'np.vstack', 'np.hstack', 'np.column_stack', 'np.concatenate', 'np.eye', 'np.diag', 'np.dot',
               'np.linalg.inv', 'np.cross', 'np.sqrt', 'np.abs', 'np.argsort', 'np.clip', 'np.exp', 'np.copy', 'np.around'}
VIEW_CALLS = {'np.transpose', 'np.squeeze', 'np.moveaxis', 'np.swapaxes', 'np.flip', 'np.expand_dims', 'np.broadcast_to'}
ALIAS_CALLS = {'np.ascontiguousarray', 'np.asarray', 'np.asanyarray', 'np.asfortranarray', 'np.require', 'np.atleast_3d',
               'np.atleast_1d', 'np.atleast_2d', 'np.reshape', 'np.ravel'}
VIEW_METHODS = {'transpose', 'squeeze', 'swapaxes', 'view', 'T'}
ALIAS_METHODS = {'reshape', 'ravel', '__array__'}
INPLACE_KW = {'out', 'overwrite_input', 'overwrite_x', 'overwrite_a'}
INPLACE_METHODS = {'sort', 'fill', 'put', 'resize', 'itemset', 'setfield', 'partition', 'byteswap'}
INPLACE_FUNCS = {'np.copyto', 'np.put', 'np.place', 'np.putmask', 'np.put_along_axis', 'np.fill_diagonal'}
OWN_ARRAYS = {'self._array': 'input', 'self.array': 'input', 'self._affine': 'input'}


def _has_kw(call, name, value=None):
    for k in call.keywords:
        if k.arg == name and (value is None or (isinstance(k.value, ast.Constant) and k.value.value is value)):
            return True
    return False


def _derived(kind):
    """kind of a view / possibly-aliasing derivative of an array of the given kind"""
    return {'fresh': 'fresh', 'input': 'view', 'view': 'view', 'given': 'given', 'may_alias': 'may_alias'}.get(kind, 'unknown')


class _Alloc:
    def __init__(self, fn, params, nested=None, props=None):
        self.fn = fn
        self.params = set(params)
        self.nested = nested or {}
        self.props = props or {}
        self.env = {}
        for node in ast.walk(fn):
            if isinstance(node, ast.FunctionDef) and node is not fn:
                self.nested[node.name] = node
        # flow-insensitive: a local name bound several times gets the join of its kinds
        for node in self._own_nodes():
            if isinstance(node, ast.Assign) and len(node.targets) == 1 and isinstance(node.targets[0], ast.Name):
                self.env.setdefault(node.targets[0].id, [])
            if isinstance(node, ast.AnnAssign) and node.value is not None and isinstance(node.target, ast.Name):
                self.env.setdefault(node.target.id, [])
        changed = True
        rounds = 0
        while changed and rounds < 6:
            changed = False
            rounds += 1
            for node in self._own_nodes():
                tgt = None
                if isinstance(node, ast.Assign) and len(node.targets) == 1 and isinstance(node.targets[0], ast.Name):
                    tgt = node.targets[0].id
                elif isinstance(node, ast.AnnAssign) and node.value is not None and isinstance(node.target, ast.Name):
                    tgt = node.target.id
                if tgt is not None:
                    k = self.kind(node.value)
                    lst = self.env[tgt]
                    if k not in lst:
                        lst.append(k)
                        changed = True

    def _own_nodes(self):
        skip = set()
        for n in ast.walk(self.fn):
            if isinstance(n, ast.FunctionDef) and n is not self.fn:
                for m in ast.walk(n):
                    if m is not n:
                        skip.add(id(m))
        return [n for n in ast.walk(self.fn) if id(n) not in skip]

    def name_kind(self, name):
        if name in self.env:
            ks = [k for k in self.env[name] if k != 'pending']
            if not ks:
                return 'pending'
            if len(set(ks)) == 1:
                return ks[0]
            if set(ks) <= {'fresh'}:
                return 'fresh'
            return 'may_alias' if 'unknown' not in ks else 'unknown'
        if name in self.params:
            return 'given'
        return 'unknown'

    def kind(self, e):
        txt = ast.unparse(e)
        if txt in OWN_ARRAYS:
            return OWN_ARRAYS[txt]
        if txt in self.props:
            return self.props[txt]
        if isinstance(e, ast.Name):
            return self.name_kind(e.id)
        if isinstance(e, ast.Subscript):
            return _derived(self.kind(e.value))
        if isinstance(e, ast.Attribute) and e.attr in VIEW_METHODS:
            return _derived(self.kind(e.value))
        if isinstance(e, (ast.BinOp, ast.UnaryOp, ast.Compare, ast.List, ast.ListComp, ast.Dict, ast.DictComp, ast.Tuple)):
            return 'fresh'      # arithmetic allocates; python containers built here are the method's own
        if isinstance(e, ast.IfExp):
            a, b = self.kind(e.body), self.kind(e.orelse)
            return a if a == b else ('unknown' if 'unknown' in (a, b) else 'may_alias')
        if isinstance(e, ast.Call):
            f = ast.unparse(e.func)
            if isinstance(e.func, ast.Attribute):
                m = e.func.attr
                if m == 'copy' and not e.args:
                    return 'fresh'
                if m == 'astype':
                    return _derived(self.kind(e.func.value)) if _has_kw(e, 'copy', False) else 'fresh'
                if m in ('min', 'max', 'mean', 'sum', 'std', 'tolist', 'item'):
                    return 'fresh'
                if m in VIEW_METHODS and not f.startswith('np.'):
                    return _derived(self.kind(e.func.value))
                if m in ALIAS_METHODS and not f.startswith('np.'):
                    k = self.kind(e.func.value)
                    return 'fresh' if k == 'fresh' else 'may_alias'
            if f in FRESH_CALLS or f in ('np.median', 'np.mean', 'np.min', 'np.max'):
                return 'fresh'
            if f == 'np.array':
                if _has_kw(e, 'copy', False) and e.args:
                    k = self.kind(e.args[0])
                    return 'fresh' if k == 'fresh' else 'may_alias'
                return 'fresh'
            if f in VIEW_CALLS and e.args:
                return _derived(self.kind(e.args[0]))
            if f in ALIAS_CALLS and e.args:
                k = self.kind(e.args[0])
                return 'fresh' if k == 'fresh' else 'may_alias'
            if f in self.nested:
                rets = [self.kind_in(self.nested[f], r.value) for r in ast.walk(self.nested[f])
                        if isinstance(r, ast.Return) and r.value is not None]
                if rets and len(set(rets)) == 1:
                    return rets[0]
                return 'unknown'
        return 'unknown'

    def kind_in(self, nested_fn, e):
        sub = _Alloc(nested_fn, [a.arg for a in nested_fn.args.args], props=self.props)
        sub.env.update({k: v for k, v in self.env.items() if k not in sub.env})
        return sub.kind(e)

    def writes(self, qual):
        """(function, written variable, kind of the written array) for every in-place store, and flagged in-place calls"""
        out, calls = [], []
        fns = [(qual, self)]
        for name, n in self.nested.items():
            sub = _Alloc(n, [a.arg for a in n.args.args], props=self.props)
            sub.env.update({k: v for k, v in self.env.items() if k not in sub.env})
            fns.append((f'{qual}.{name}', sub))
        for q, an in fns:
            for node in an._own_nodes():
                tgts = []
                if isinstance(node, ast.Assign):
                    tgts = [t for t in node.targets if isinstance(t, ast.Subscript)]
                elif isinstance(node, ast.AugAssign):
                    tgts = [node.target]
                for t in tgts:
                    base = t.value if isinstance(t, ast.Subscript) else t
                    # augmented assignment to a plain number is no array write: only names / attributes known as arrays count
                    k = an.kind(base)
                    if isinstance(node, ast.AugAssign) and isinstance(t, ast.Name) and k in ('unknown', 'given') \
                            and t.id not in an.env:
                        k = 'unknown'
                    out.append((q, ast.unparse(base), k))
                if isinstance(node, ast.Call):
                    f = ast.unparse(node.func)
                    kws = [k.arg for k in node.keywords if k.arg in INPLACE_KW and not (
                        isinstance(k.value, ast.Constant) and k.value.value in (False, None))]
                    if kws or f in INPLACE_FUNCS or (isinstance(node.func, ast.Attribute) and node.func.attr in INPLACE_METHODS
                                                     and not f.startswith('np.')):
                        tgt = node.func.value if isinstance(node.func, ast.Attribute) and not f.startswith('np.') else (
                            node.args[0] if node.args else None)
                        calls.append((q, ''.join(ast.unparse(node).split())[:80], an.kind(tgt) if tgt is not None else 'unknown'))
        return out, calls


def _ctor_kwarg(fn, kw):
    """expression passed as `kw=` in the constructor / with_array call the method returns"""
    found = []
    for r in ast.walk(fn):
        if isinstance(r, ast.Return) and isinstance(r.value, ast.Call):
            f = ast.unparse(r.value.func)
            if f in ('self.__class__', 'Volume', 'VolumeGeometry', 'self.with_array', 'cls'):
                for k in r.value.keywords:
                    if k.arg == kw:
                        found.append((f, k.value))
                if f == 'self.with_array' and kw == 'array' and r.value.args:
                    found.append((f, r.value.args[0]))
    return found


def _lean_str(x):
    return '"' + x.replace('\\', '\\\\').replace('"', '\\"') + '"'


ARRAY_METHODS = ['Volume.copy', 'Volume.with_array', 'Volume.__getitem__', 'Volume.permute_spatial_axes',
                 'Volume.permute_channel_axes_by_index', 'Volume.get_channel', 'Volume.pad']
AFFINE_METHODS = ['Volume.copy', 'Volume.with_array', 'VolumeGeometry.copy', 'VolumeGeometry.with_array', 'Volume.get_geometry']


def build_T9f(tree):
    """volume.py: how each operation produces the array / affine of its result, and what it writes in place"""
    from py2lean import lean_table
    # the `affine` property must hand out a copy (it is what `_prepare_pad_width` passes on)
    prop = find_func(tree, '_VolumeBase.affine')
    prets = [r.value for r in ast.walk(prop) if isinstance(r, ast.Return)]
    props = {}
    if len(prets) == 1:
        props['self.affine'] = _Alloc(prop, []).kind(prets[0])
    rows_arr, rows_aff, rows_w, rows_c, spans = [], [], [], [], []
    for qual in ARRAY_METHODS:
        fn = find_func(tree, qual)
        an = _Alloc(fn, [a.arg for a in fn.args.args if a.arg != 'self'], props=props)
        found = _ctor_kwarg(fn, 'array')
        if not found:
            raise Unsupported(f'{qual}: no returned constructor / with_array call with an array argument')
        kinds = sorted({an.kind(e) for _, e in found})
        rows_arr.append(f'({_lean_str(qual)}, {_lean_str("+".join(kinds))})')
        w, c = an.writes(qual)
        rows_w += [f'({_lean_str(q)}, {_lean_str(v)}, {_lean_str(k)})' for q, v, k in w]
        rows_c += [f'({_lean_str(q)}, {_lean_str(t)}, {_lean_str(k)})' for q, t, k in c]
        spans.append(fn)
    for qual in AFFINE_METHODS:
        fn = find_func(tree, qual)
        an = _Alloc(fn, [a.arg for a in fn.args.args if a.arg != 'self'], props=props)
        found = _ctor_kwarg(fn, 'affine')
        if not found:
            raise Unsupported(f'{qual}: no returned constructor call with an affine argument')
        kinds = sorted({an.kind(e) for _, e in found})
        rows_aff.append(f'({_lean_str(qual)}, {_lean_str("+".join(kinds))})')
        spans.append(fn)
    # helpers that build affines / indices in this file: in-place stores only
    for qual in ['_VolumeBase._prepare_getitem_index', '_VolumeBase._prepare_pad_width', '_VolumeBase._permute_affine',
                 '_VolumeBase.map_indices_to_reference', '_VolumeBase.__init__', 'Volume.__init__']:
        fn = find_func(tree, qual)
        an = _Alloc(fn, [a.arg for a in fn.args.args if a.arg != 'self'], props=props)
        w, c = an.writes(qual)
        rows_w += [f'({_lean_str(q)}, {_lean_str(v)}, {_lean_str(k)})' for q, v, k in w if not v.startswith('self.')]
        rows_c += [f'({_lean_str(q)}, {_lean_str(t)}, {_lean_str(k)})' for q, t, k in c]
        # attribute initialisation in __init__ (`self._x = ...`) is no array write; element stores into self.* are
        rows_w += [f'({_lean_str(q)}, {_lean_str(v)}, {_lean_str(k)})' for q, v, k in w if v.startswith('self.') and
                   v in OWN_ARRAYS]
        spans.append(fn)
    text = (lean_table('volumeArrayAlloc', 'List (String × String)', rows_arr,
                       'volume.py: kind of the array handed to the result (`array=` of the returned constructor / with_array call)')
            + '\n\n' + lean_table('volumeAffineAlloc', 'List (String × String)', rows_aff,
                                   'volume.py: kind of the affine handed to the result (`self.affine` = '
                                   + props.get('self.affine', '?') + ')')
            + '\n\n' + (lean_table('volumeArrayWrites', 'List (String × String × String)', rows_w,
                                    'volume.py: every in-place store (function, written array, its kind)') if rows_w else
                         '/-- volume.py: every in-place store (function, written array, its kind) -/\n'
                         'def volumeArrayWrites : List (String × String × String) := []')
            + '\n\n' + (lean_table('volumeInplaceCalls', 'List (String × String × String)', rows_c,
                                    'volume.py: calls that write into an existing array (out=, overwrite_input=, .sort() ...)')
                         if rows_c else '/-- volume.py: calls that write into an existing array (out=, overwrite_input=, .sort() ...) -/\n'
                         'def volumeInplaceCalls : List (String × String × String) := []')
            + '\n\n' + f'def volumeAffineProperty : String := {_lean_str(props.get("self.affine", "unknown"))}')
    return text, span_sha([st for fn in spans for st in fn.body])


def build_T9g(tree):
    """spatial.py: in-place stores of the affine helpers used by the volume operations"""
    from py2lean import lean_table
    rows_w, rows_c, rows_r, spans = [], [], [], []
    for qual in ['_translate_affine_matrix', '_transform_affine_matrix', '_stack_affine_matrix']:
        fn = find_func(tree, qual)
        an = _Alloc(fn, [a.arg for a in fn.args.args])
        w, c = an.writes(qual)
        rows_w += [f'({_lean_str(q)}, {_lean_str(v)}, {_lean_str(k)})' for q, v, k in w]
        rows_c += [f'({_lean_str(q)}, {_lean_str(t)}, {_lean_str(k)})' for q, t, k in c]
        rets = sorted({an.kind(r.value) for r in ast.walk(fn) if isinstance(r, ast.Return) and r.value is not None})
        rows_r.append(f'({_lean_str(qual)}, {_lean_str("+".join(rets))})')
        spans.append(fn)
    text = (lean_table('affineHelperWrites', 'List (String × String × String)', rows_w,
                       'spatial.py affine helpers: every in-place store (function, written array, its kind)') if rows_w else
            'def affineHelperWrites : List (String × String × String) := []')
    text += '\n\n' + (lean_table('affineHelperInplaceCalls', 'List (String × String × String)', rows_c, 'in-place calls')
                       if rows_c else 'def affineHelperInplaceCalls : List (String × String × String) := []')
    text += '\n\n' + lean_table('affineHelperReturns', 'List (String × String)', rows_r,
                                 'spatial.py affine helpers: kind of the returned matrix')
    return text, span_sha([st for fn in spans for st in fn.body])


TARGETS['T9f'] = {'file': 'volume.py', 'build': build_T9f}
TARGETS['T9g'] = {'file': 'spatial.py', 'build': build_T9g}


# ---------------------------------------------------------------------------------------------------------------------
# bridges for hand-written parts of the model (Proofs/VolumeTie.lean): the expressions of the current source
def build_T9h(tree):
    """`to_patient_orientation`: the body of the loop over the desired directions, and what happens after the loop"""
    fn = find_func(tree, '_VolumeBase.to_patient_orientation')
    loops = [n for n in fn.body if isinstance(n, ast.For)]
    if len(loops) != 1 or ast.unparse(loops[0].target) != 'd' or ast.unparse(loops[0].iter) != 'desired_orientation' or loops[0].orelse:
        raise Unsupported('to_patient_orientation: `for d in desired_orientation` not found')
    before = ''.join(ast.unparse(s) for s in fn.body if s.lineno < loops[0].lineno).replace(' ', '').replace('\n', '')
    for needle in ['current_orientation=self.get_closest_patient_orientation()', 'permute_indices=[]', 'flip_axes=[]',
                   'desired_orientation=_normalize_patient_orientation(patient_orientation)']:
        if needle not in before:
            raise Unsupported(f'to_patient_orientation: expected `{needle}` before the loop')
    after = [''.join(ast.unparse(s).split()) for s in fn.body if s.lineno > loops[0].lineno]
    if after != ['iflen(flip_axes)>0:result=self.flip_spatial(flip_axes)else:result=self',
                 'returnresult.permute_spatial_axes(permute_indices)']:
        raise Unsupported(f'to_patient_orientation: what follows the loop changed: {after}')
    body = [ast.parse(ast.unparse(s)).body[0] for s in loops[0].body]

    class R(ast.NodeTransformer):
        def visit_Compare(self, node):
            if ''.join(ast.unparse(node).split()) == 'dincurrent_orientation':
                return ast.Name(id='d_in_current', ctx=ast.Load())
            return self.generic_visit(node)

        def visit_Call(self, node):
            t = ''.join(ast.unparse(node).split())
            if t == 'current_orientation.index(d)':
                return ast.Name(id='index_of_d', ctx=ast.Load())
            if t == 'current_orientation.index(d_inv)':
                return ast.Name(id='index_of_opposite', ctx=ast.Load())
            return self.generic_visit(node)

        def visit_Assign(self, node):
            if ast.unparse(node.targets[0]) == 'd_inv':
                if ''.join(ast.unparse(node.value).split()) != 'PATIENT_ORIENTATION_OPPOSITES[d]':
                    raise Unsupported('d_inv is no longer PATIENT_ORIENTATION_OPPOSITES[d]')
                return ast.Pass()
            return self.generic_visit(node)

        def visit_Expr(self, node):
            v = node.value
            if isinstance(v, ast.Call) and ast.unparse(v.func) == 'flip_axes.append' and len(v.args) == 1:
                return [ast.parse('has_flip = True').body[0],
                        ast.Assign(targets=[ast.Name(id='flip_item', ctx=ast.Store())], value=self.visit(v.args[0]))]
            if isinstance(v, ast.Call) and ast.unparse(v.func) == 'permute_indices.append' and len(v.args) == 1:
                return ast.Assign(targets=[ast.Name(id='permute_item', ctx=ast.Store())], value=self.visit(v.args[0]))
            return node
    blk = [ast.parse('has_flip = False').body[0], ast.parse('flip_item = 0').body[0]]
    # the number of entries already in permute_indices is the position in the loop
    ren = _Rename({})
    for st in body:
        out = R().visit(st)
        blk += out if isinstance(out, list) else [out]
    for x in blk:
        ast.fix_missing_locations(x)
    txt = ''.join(ast.unparse(x) for x in blk)
    if 'permute_item' not in txt:
        raise Unsupported('loop body no longer appends to permute_indices')
    class L(ast.NodeTransformer):
        def visit_Call(self, node):
            if ''.join(ast.unparse(node).split()) == 'len(permute_indices)':
                return ast.Name(id='position', ctx=ast.Load())
            return self.generic_visit(node)
    blk = [L().visit(x) for x in blk]
    blk.append(ast.parse('return (permute_item, has_flip, flip_item)').body[0])
    for st in blk:
        ast.fix_missing_locations(st)
    text = translate_block(blk, 'orientStep', [('d_in_current', 'bool'), ('index_of_d', 'int'), ('index_of_opposite', 'int'),
                                              ('position', 'int')], {},
                           doc='`to_patient_orientation`, one desired direction d (the `position`-th): (entry of permute_indices, '
                               'whether flip_axes gets an entry, that entry); afterwards: flip_spatial(flip_axes) if any, then '
                               'permute_spatial_axes(permute_indices)')
    return text, span_sha(loops[0].body)


def build_T9i(tree):
    """spatial.py: PATIENT_ORIENTATION_OPPOSITES and the direction tables / sign test of get_closest_patient_orientation"""
    from py2lean import lean_table
    opp = None
    for st in tree.body:
        if isinstance(st, ast.Assign) and ast.unparse(st.targets[0]) == 'PATIENT_ORIENTATION_OPPOSITES' and isinstance(st.value, ast.Dict):
            opp = st.value

    def letter(e):
        t = ast.unparse(e)
        if not t.startswith('PatientOrientationValuesBiped.'):
            raise Unsupported(f'not a PatientOrientationValuesBiped member: {t}')
        return t.split('.', 1)[1]
    if opp is None:
        raise Unsupported('PATIENT_ORIENTATION_OPPOSITES dict literal not found')
    rows = [f'({_lean_str(letter(k))}, {_lean_str(letter(v))})' for k, v in zip(opp.keys, opp.values)]
    fn = find_func(tree, 'get_closest_patient_orientation')
    lists = {}
    for node in ast.walk(fn):
        if isinstance(node, ast.Assign) and ast.unparse(node.targets[0]) in ('pos_directions', 'neg_directions') \
                and isinstance(node.value, ast.List):
            lists[ast.unparse(node.targets[0])] = [letter(e) for e in node.value.elts]
    if set(lists) != {'pos_directions', 'neg_directions'}:
        raise Unsupported('pos_directions / neg_directions list literals not found')
    # the sign test: which table the direction is taken from
    iff = None
    for node in ast.walk(fn):
        if isinstance(node, ast.If) and 'alignments[i, d]' in ast.unparse(node.test):
            iff = node
    if iff is None:
        raise Unsupported('sign test on alignments[i, d] not found')
    ren = {'alignments[i, d]': 'a', 'pos_directions[i]': 'one', 'neg_directions[i]': 'zero'}
    st = _Rename(ren).visit(ast.parse(ast.unparse(iff)).body[0])

    class A(ast.NodeTransformer):
        def visit_Expr(self, node):
            v = node.value
            if isinstance(v, ast.Call) and ast.unparse(v.func) == 'result.append' and len(v.args) == 1:
                return ast.Return(value=v.args[0])
            return node
    st = A().visit(st)
    ast.fix_missing_locations(st)
    sign = translate_block([st], 'closestSign', [('a', 'rat')], {}, consts={'one': ('int', '(1 : Int)'), 'zero': ('int', '(0 : Int)')},
                           doc='`get_closest_patient_orientation`: 1 = direction taken from pos_directions, 0 = from neg_directions, '
                               'for alignment entry a')
    text = (lean_table('orientOpposites', 'List (String × String)', rows, '`spatial.PATIENT_ORIENTATION_OPPOSITES`')
            + '\n\n/-- `pos_directions` of get_closest_patient_orientation (by frame-of-reference axis) -/\n'
            + 'def closestPosDirs : List String := [' + ', '.join(_lean_str(x) for x in lists['pos_directions']) + ']'
            + '\n\n/-- `neg_directions` -/\ndef closestNegDirs : List String := ['
            + ', '.join(_lean_str(x) for x in lists['neg_directions']) + ']\n\n' + sign)
    return text, hashlib.sha256((repr(rows) + repr(lists) + ast.unparse(iff)).encode()).hexdigest()


def build_T9j(tree):
    """`Volume.pad.pad_array`: which value pads for which mode, and the mode handed to numpy.pad"""
    from py2lean import lean_table
    fn = find_func(tree, 'Volume.pad')
    pa = None
    for n in fn.body:
        if isinstance(n, ast.FunctionDef) and n.name == 'pad_array':
            pa = n
    if pa is None or [a.arg for a in pa.args.args] != ['array', 'cval']:
        raise Unsupported('nested pad_array(array, cval) not found in Volume.pad')
    body = strip_doc(pa.body)
    if len(body) != 2 or not isinstance(body[0], ast.If) or not isinstance(body[1], ast.Return):
        raise Unsupported('pad_array is no longer `if used_mode == CONSTANT: ... else: ...; return np.pad(...)`')
    top = body[0]
    if ''.join(ast.unparse(top.test).split()) != 'used_mode==PadModes.CONSTANT':
        raise Unsupported('pad_array: outer test is no longer `used_mode == PadModes.CONSTANT`')
    if [''.join(ast.unparse(x).split()) for x in top.orelse] != ['pad_kwargs={}']:
        raise Unsupported('pad_array: non-constant branch no longer passes no extra arguments')
    if ''.join(ast.unparse(top.body[-1]).split()) != "pad_kwargs={'constant_values':v}":
        raise Unsupported("pad_array: constant branch no longer ends in pad_kwargs = {'constant_values': v}")
    ret = ''.join(ast.unparse(body[1]).split())
    if ret != 'returnnp.pad(array,pad_width=full_pad_width,mode=used_mode.value.lower(),**pad_kwargs)':
        raise Unsupported(f'pad_array: the numpy.pad call changed: {ret}')
    rows = []
    node = top.body[0]
    if len(top.body) != 2 or not isinstance(node, ast.If):
        raise Unsupported('pad_array: constant branch is no longer an if-chain followed by pad_kwargs')
    red = {'array.min()': 'min', 'array.max()': 'max', 'array.mean()': 'mean', 'np.median(array)': 'median', 'cval': 'cval'}
    while node is not None:
        t = ''.join(ast.unparse(node.test).split())
        if not t.startswith('mode==PadModes.'):
            raise Unsupported(f'pad_array: unexpected test {t}')
        if len(node.body) != 1 or not isinstance(node.body[0], ast.Assign) or ast.unparse(node.body[0].targets[0]) != 'v':
            raise Unsupported('pad_array: branch is no longer a single `v = ...`')
        e = ''.join(ast.unparse(node.body[0].value).split())
        if e not in red:
            raise Unsupported(f'pad_array: unrecognised padding value expression {e}')
        rows.append(f'({_lean_str(t.split(".", 1)[1])}, {_lean_str(red[e])})')
        if len(node.orelse) == 1 and isinstance(node.orelse[0], ast.If):
            node = node.orelse[0]
        elif not node.orelse:
            node = None
        else:
            raise Unsupported('pad_array: if-chain has a plain else branch')
    text = lean_table('padValueTable', 'List (String × String)', rows,
                      '`Volume.pad.pad_array`: mode (enum member) ↦ what is handed to numpy.pad as constant_values '
                      '(min / max / mean / median of the array, or the caller\'s constant); modes not listed are padded by '
                      'numpy.pad(mode=used_mode.value.lower()) without constant')
    return text, span_sha(pa.body)


def _exec_block(stmts, ns):
    mod = ast.Module(body=[ast.parse(ast.unparse(s)).body[0] for s in stmts], type_ignores=[])
    ast.fix_missing_locations(mod)
    exec(compile(mod, '<source>', 'exec'), ns)   # noqa: S102  (the current source, on label data)
    return ns


PERMS = [[0, 1, 2], [0, 2, 1], [1, 0, 2], [1, 2, 0], [2, 0, 1], [2, 1, 0]]


def _perm_rows(rows):
    return ['([' + ', '.join(map(str, p)) + '], [' + ', '.join(map(str, r)) + '])' for p, r in rows]


def build_T9k(tree):
    """`permute_spatial_axes` of VolumeGeometry (new shape) and Volume (array): evaluated on label data for the six permutations"""
    import numpy as np
    from py2lean import lean_table
    gfn = find_func(tree, 'VolumeGeometry.permute_spatial_axes')
    vfn = find_func(tree, 'Volume.permute_spatial_axes')
    gb, vb = strip_doc(gfn.body), strip_doc(vfn.body)
    for b, q in ((gb, 'VolumeGeometry'), (vb, 'Volume')):
        if ''.join(ast.unparse(b[0]).split()) != 'new_affine=self._permute_affine(indices)' or not isinstance(b[-1], ast.Return):
            raise Unsupported(f'{q}.permute_spatial_axes: no longer `new_affine = self._permute_affine(indices)` ... return')
    gret, vret = ''.join(ast.unparse(gb[-1]).split()), ''.join(ast.unparse(vb[-1]).split())
    if 'spatial_shape=new_shape' not in gret or 'affine=new_affine' not in gret:
        raise Unsupported('VolumeGeometry.permute_spatial_axes: result no longer built from new_shape / new_affine')
    if 'array=new_array' not in vret or 'affine=new_affine' not in vret or 'channels=self._channels' not in vret:
        raise Unsupported('Volume.permute_spatial_axes: result no longer built from new_array / new_affine / self._channels')

    class Stub:
        pass
    grows, arows = [], []
    sizes = (2, 3, 5)
    for p in PERMS:
        try:
            st = Stub()
            st.spatial_shape = (0, 1, 2)          # labels: position k holds label k
            ns = _exec_block(gb[1:-1], {'self': st, 'indices': list(p), 'np': np})
            grows.append((p, [int(x) for x in ns['new_shape']]))
            st = Stub()
            st._array = np.zeros(sizes + (1,))
            st.array = st._array
            st.number_of_channel_dimensions = 1
            ns = _exec_block(vb[1:-1], {'self': st, 'indices': list(p), 'np': np})
            shp = tuple(ns['new_array'].shape)
            if len(shp) != 4 or shp[3] != 1 or sorted(shp[:3]) != sorted(sizes):
                raise Unsupported(f'Volume.permute_spatial_axes on label data gives shape {shp}')
            arows.append((p, [sizes.index(x) for x in shp[:3]]))
        except Unsupported:
            raise
        except Exception as e:  # noqa: BLE001
            raise Unsupported(f'permute_spatial_axes could not be evaluated on label data: {type(e).__name__}: {e}')
    text = (lean_table('permGeomShape', 'List (List Nat × List Nat)', _perm_rows(grows),
                       '`VolumeGeometry.permute_spatial_axes`: indices ↦ for each new axis the old axis whose size it gets '
                       '(the statements computing new_shape, evaluated on labels)')
            + '\n\n' + lean_table('permArrayAxes', 'List (List Nat × List Nat)', _perm_rows(arows),
                                   '`Volume.permute_spatial_axes`: indices ↦ for each new axis of the array the old axis it is '
                                   '(the statements computing new_array, evaluated on an array with sizes 2, 3, 5)'))
    return text, span_sha(gb + vb)


def build_T9l(tree):
    """spatial.py `_transform_affine_matrix(permute_indices=p)`: evaluated on a label matrix for the six permutations"""
    import numpy as np
    from py2lean import lean_table
    fn = find_func(tree, '_transform_affine_matrix')
    src = ast.Module(body=[ast.parse(ast.unparse(fn)).body[0]], type_ignores=[])
    ast.fix_missing_locations(src)
    ns = {'np': np, 'Sequence': list}
    try:
        exec(compile(src, '<spatial.py>', 'exec'), ns)   # noqa: S102
    except Exception as e:  # noqa: BLE001
        raise Unsupported(f'_transform_affine_matrix could not be compiled: {e}')
    rows = []
    for p in PERMS:
        a = np.eye(4)
        for d in range(3):
            a[:3, d] = [10 * (d + 1), 0, 0]      # column d carries the label 10 (d + 1)
        a[:3, 3] = [7, 8, 9]
        try:
            out = ns['_transform_affine_matrix'](affine=a.copy(), shape=(2, 3, 5), permute_indices=list(p))
        except Exception as e:  # noqa: BLE001
            raise Unsupported(f'_transform_affine_matrix could not be evaluated on label data: {type(e).__name__}: {e}')
        cols = [int(round(out[0, k] / 10)) - 1 for k in range(3)]
        if sorted(cols) != [0, 1, 2] or list(out[:3, 3]) != [7, 8, 9] or list(out[3]) != [0, 0, 0, 1]:
            raise Unsupported(f'_transform_affine_matrix(permute_indices={p}) no longer permutes columns only: {out.tolist()}')
        rows.append((p, cols))
    text = lean_table('permAffineCols', 'List (List Nat × List Nat)', _perm_rows(rows),
                      '`_transform_affine_matrix(permute_indices=p)`: p ↦ for each new column the old column it is '
                      '(evaluated on a label matrix; translation and last row are left alone)')
    return text, span_sha(fn.body)


TARGETS['T9h'] = {'file': 'volume.py', 'build': build_T9h}
TARGETS['T9i'] = {'file': 'spatial.py', 'build': build_T9i}
TARGETS['T9j'] = {'file': 'volume.py', 'build': build_T9j}
TARGETS['T9k'] = {'file': 'volume.py', 'build': build_T9k}
TARGETS['T9l'] = {'file': 'spatial.py', 'build': build_T9l}


# ---------------------------------------------------------------------------------------------------------------------
# round 2: the randomised conveniences (T9m) and the accessors (T9n)
def _norm(s):
    return ''.join(ast.unparse(s).split()) if not isinstance(s, str) else ''.join(s.split())


def build_T9m(tree):
    """`random_spatial_crop` (loop body with the draw as a parameter, bounds of the draw), `random_flip_spatial` (loop body:
    which slice is appended for (d in axes, draw)), `random_permute_spatial_axes` (what happens to the drawn permutation:
    evaluated on every drawn pair / triple), and the shared validation of `axes` (evaluated on every list over -1..3 of
    length 0..4)"""
    import numpy as np
    from py2lean import lean_table
    # ---- random_spatial_crop
    fn = find_func(tree, '_VolumeBase.random_spatial_crop')
    loops = [n for n in strip_doc(fn.body) if isinstance(n, ast.For)]
    if len(loops) != 1 or _norm(loops[0].target) != '(c,d)' or _norm(loops[0].iter) != 'zip(spatial_shape,self.spatial_shape)' \
            or loops[0].orelse:
        raise Unsupported('random_spatial_crop: `for c, d in zip(spatial_shape, self.spatial_shape)` not found')
    rest = [_norm(s) for s in strip_doc(fn.body) if not isinstance(s, ast.For)]
    if rest != ['spatial_shape=[operator.index(s)forsinspatial_shape]', 'crop_slices=[]', 'returnself[tuple(crop_slices)]']:
        raise Unsupported(f'random_spatial_crop: statements around the loop changed: {rest}')
    body = []
    draw_seen = False
    for s in loops[0].body:
        if isinstance(s, ast.Assign) and _norm(s.targets[0]) == 'start':
            c = s.value
            if not (isinstance(c, ast.Call) and _norm(c.func) == 'np.random.randint' and len(c.args) == 2 and not c.keywords):
                raise Unsupported('random_spatial_crop: `start = np.random.randint(lo, hi)` not found')
            body.append(ast.parse(f'draw_lo = {ast.unparse(c.args[0])}').body[0])
            body.append(ast.parse(f'draw_hi = {ast.unparse(c.args[1])}').body[0])
            draw_seen = True
        else:
            body.append(ast.parse(ast.unparse(s)).body[0])
    if not draw_seen:
        raise Unsupported('random_spatial_crop: the draw of `start` not found')
    tr = _Appends(['crop_slices'])
    body = [tr.visit(s) for s in body]
    if tr.count['crop_slices'] != 1:
        raise Unsupported('random_spatial_crop: loop body does not append exactly once to crop_slices')
    last = body[-1]
    if not (isinstance(last, ast.Assign) and isinstance(last.value, ast.Call) and _norm(last.value.func) == 'slice'
            and len(last.value.args) == 2):
        raise Unsupported('random_spatial_crop: appended item is no longer `slice(a, b)`')
    a0, a1 = (ast.unparse(x) for x in last.value.args)
    body[-1] = ast.parse(f'return (draw_lo, draw_hi, {a0}, {a1})').body[0]
    for s in body:
        ast.fix_missing_locations(s)
    t1 = translate_block(body, 'randomCropAxis', [('c', 'int'), ('d', 'int'), ('start', 'int')], {},
                         doc='`random_spatial_crop`, one axis (requested size c, axis size d, `start` = the value drawn): '
                             '(low, high) of `np.random.randint(low, high)` and (start, stop) of the slice appended')
    # ---- random_flip_spatial
    fn2 = find_func(tree, '_VolumeBase.random_flip_spatial')
    b2 = strip_doc(fn2.body)
    loops2 = [n for n in b2 if isinstance(n, ast.For)]
    if len(loops2) != 1 or _norm(loops2[0].target) != 'd' or _norm(loops2[0].iter) != 'range(3)' or loops2[0].orelse:
        raise Unsupported('random_flip_spatial: `for d in range(3)` not found')
    tail2 = [_norm(s) for s in b2 if getattr(s, 'lineno', 0) > loops2[0].lineno]
    if tail2 != ['returnself[tuple(slices)]'] or 'slices=[]' not in [_norm(s) for s in b2]:
        raise Unsupported(f'random_flip_spatial: statements around the loop changed: {tail2}')

    class F(ast.NodeTransformer):
        draws = 0

        def visit_Compare(self, node):
            if _norm(node) == 'dinaxes':
                return ast.Name(id='in_axes', ctx=ast.Load())
            return self.generic_visit(node)

        def visit_Call(self, node):
            if _norm(node) == 'np.random.randint(2)':
                F.draws += 1
                return ast.Name(id='draw', ctx=ast.Load())
            return self.generic_visit(node)

        def visit_Expr(self, node):
            t = _norm(node)
            if t == 'slices.append(slice(None,None,-1))':
                return ast.parse('return True').body[0]
            if t == 'slices.append(slice(None))':
                return ast.parse('return False').body[0]
            raise Unsupported(f'random_flip_spatial: unexpected statement in the loop: {t}')
    F.draws = 0
    blk = [F().visit(ast.parse(ast.unparse(s)).body[0]) for s in loops2[0].body]
    if F.draws != 1:
        raise Unsupported('random_flip_spatial: the loop body no longer draws exactly once (`np.random.randint(2)`)')
    for s in blk:
        ast.fix_missing_locations(s)
    t2 = translate_block(blk, 'randomFlipAxis', [('in_axes', 'bool'), ('draw', 'int')], {},
                         doc='`random_flip_spatial`, one axis: true = `slice(None, None, -1)` is appended, false = `slice(None)` '
                             '(`in_axes` = `d in axes`, `draw` = `np.random.randint(2)`)')
    # ---- validation of `axes` (shared text) evaluated on every list over -1..3 of length 0..4
    fn3 = find_func(tree, '_VolumeBase.random_permute_spatial_axes')
    b3 = strip_doc(fn3.body)
    k3 = next((k for k, s in enumerate(b3) if isinstance(s, ast.Assign) and _norm(s.targets[0]) == 'indices'), None)
    if k3 is None or _norm(b3[k3]) != 'indices=np.random.permutation(axes).tolist()':
        raise Unsupported('random_permute_spatial_axes: `indices = np.random.permutation(axes).tolist()` not found')
    if _norm(b3[-1]) != 'returnself.permute_spatial_axes(indices)':
        raise Unsupported('random_permute_spatial_axes: no longer ends with `return self.permute_spatial_axes(indices)`')
    valid3 = b3[:k3]
    valid2 = [s for s in b2 if getattr(s, 'lineno', 0) < loops2[0].lineno and _norm(s) != 'slices=[]']
    if [_norm(s) for s in valid2] != [_norm(s) for s in valid3]:
        raise Unsupported('validation of `axes` differs between random_flip_spatial and random_permute_spatial_axes')
    if not all(isinstance(s, ast.If) for s in valid3):
        raise Unsupported('validation of `axes` is no longer a sequence of if-raise statements')
    import itertools
    accepted = []
    for ln in range(0, 5):
        for axes in itertools.product(range(-1, 4), repeat=ln):
            try:
                _exec_block(valid3, {'axes': tuple(axes)})
                accepted.append(list(axes))
            except ValueError:
                pass
            except Exception as e:  # noqa: BLE001
                raise Unsupported(f'validation of axes={axes} raised {type(e).__name__}: {e}')
    rows = ['[' + ', '.join(map(str, a)) + ']' for a in accepted]
    t3 = lean_table('randomAxesAccepted', 'List (List Int)', rows,
                    'the `axes` arguments (lists over -1..3 of length 0..4) that pass the validation shared by '
                    '`random_flip_spatial` and `random_permute_spatial_axes` (the if-raise statements, evaluated)')
    # ---- what happens to the drawn permutation
    post = b3[k3 + 1:-1]
    prow = []
    for ln in (2, 3):
        for drawn in itertools.permutations(range(3), ln):
            try:
                ns = _exec_block(post, {'indices': list(drawn), 'np': np})
                res = [int(x) for x in ns['indices']]
            except Exception as e:  # noqa: BLE001
                raise Unsupported(f'random_permute_spatial_axes after the draw {drawn}: {type(e).__name__}: {e}')
            prow.append('([' + ', '.join(map(str, drawn)) + '], [' + ', '.join(map(str, res)) + '])')
    t4 = lean_table('randomPermuteFill', 'List (List Int × List Int)', prow,
                    '`random_permute_spatial_axes`: the drawn permutation of `axes` ↦ the indices handed to '
                    '`permute_spatial_axes` (statements after the draw, evaluated on every ordered pair / triple of 0, 1, 2)')
    return '\n\n'.join([t1, t2, t3, t4]), span_sha(strip_doc(fn.body) + b2 + b3)


class _Sym:
    """symbolic rational expression: entries of the affine, entries of the shape, one unary `sqrt`"""

    trace = []
    answer = False

    def __init__(self, e):
        self.e = e

    @staticmethod
    def w(o):
        import numpy as np
        if isinstance(o, _Sym):
            return o
        if isinstance(o, bool):
            raise Unsupported('boolean in arithmetic')
        if isinstance(o, (int, np.integer)):
            return _Sym(('int', int(o)))
        if isinstance(o, (float, np.floating)):
            from fractions import Fraction
            f = Fraction(float(o))
            return _Sym(('int', f.numerator)) if f.denominator == 1 else _Sym(('rat', f.numerator, f.denominator))
        raise Unsupported(f'operand of type {type(o).__name__} in an accessor')

    def __add__(self, o): return _Sym(('add', self.e, _Sym.w(o).e))
    def __radd__(self, o): return _Sym(('add', _Sym.w(o).e, self.e))
    def __sub__(self, o): return _Sym(('sub', self.e, _Sym.w(o).e))
    def __rsub__(self, o): return _Sym(('sub', _Sym.w(o).e, self.e))
    def __mul__(self, o): return _Sym(('mul', self.e, _Sym.w(o).e))
    def __rmul__(self, o): return _Sym(('mul', _Sym.w(o).e, self.e))
    def __truediv__(self, o): return _Sym(('div', self.e, _Sym.w(o).e))
    def __rtruediv__(self, o): return _Sym(('div', _Sym.w(o).e, self.e))
    def __floordiv__(self, o): return _Sym(('fdiv', self.e, _Sym.w(o).e))
    def __neg__(self): return _Sym(('neg', self.e))

    def __pow__(self, k):
        if k != 2:
            raise Unsupported(f'power {k} in an accessor')
        return _Sym(('mul', self.e, self.e))

    def sqrt(self): return _Sym(('sqrt', self.e))
    def item(self): return self
    def tolist(self): return self

    def __lt__(self, o):
        _Sym.trace.append(('lt', self.e, _Sym.w(o).e))
        return _Sym.answer

    def __bool__(self):
        raise Unsupported('an accessor branches on a value')


def _sym_lean(e, mode):
    k = e[0]
    if k == 'a':
        if mode == 'int':
            raise Unsupported('affine entry in an integer-valued accessor')
        return f'(a {e[1]} {e[2]})'
    if k == 'n':
        return f'(n {e[1]})' if mode == 'int' else f'((n {e[1]} : Int) : Rat)'
    if k == 'int':
        return f'({e[1]} : Int)' if mode == 'int' else f'({e[1]} : Rat)'
    if k == 'rat':
        if mode == 'int':
            raise Unsupported('fraction in an integer-valued accessor')
        return f'(({e[1]} : Rat) / {e[2]})'
    if k in ('add', 'sub', 'mul'):
        sym = {'add': '+', 'sub': '-', 'mul': '*'}[k]
        return f'({_sym_lean(e[1], mode)} {sym} {_sym_lean(e[2], mode)})'
    if k == 'div':
        if mode == 'int':
            raise Unsupported('true division in an integer-valued accessor')
        return f'({_sym_lean(e[1], mode)} / {_sym_lean(e[2], mode)})'
    if k == 'fdiv':
        if mode != 'int':
            raise Unsupported('floor division in a rational-valued accessor')
        return f'(Int.fdiv {_sym_lean(e[1], mode)} {_sym_lean(e[2], mode)})'
    if k == 'neg':
        return f'(-{_sym_lean(e[1], mode)})'
    if k == 'sqrt':
        if mode == 'int':
            raise Unsupported('sqrt in an integer-valued accessor')
        return f'(sq {_sym_lean(e[1], mode)})'
    raise Unsupported(f'symbolic node {k}')


_ACCESSORS = [  # (python name, lean name, kind, result mode)
    ('position', 'accPosition', 'property', 'rat'),
    ('spacing', 'accSpacing', 'property', 'rat'),
    ('pixel_spacing', 'accPixelSpacing', 'property', 'rat'),
    ('spacing_between_slices', 'accSpacingBetweenSlices', 'property', 'rat'),
    ('direction_cosines', 'accDirectionCosines', 'property', 'rat'),
    ('direction', 'accDirection', 'property', 'rat'),
    ('spacing_vectors', 'accSpacingVectors', 'method', 'rat'),
    ('unit_vectors', 'accUnitVectors', 'method', 'rat'),
    ('voxel_volume', 'accVoxelVolume', 'property', 'rat'),
    ('physical_extent', 'accPhysicalExtent', 'property', 'rat'),
    ('physical_volume', 'accPhysicalVolume', 'property', 'rat'),
    ('center_indices', 'accCenterIndices', 'property', 'rat'),
    ('nearest_center_indices', 'accNearestCenterIndices', 'property', 'int'),
    ('affine', 'accAffine', 'property', 'rat'),
    ('center_position', 'accCenterPosition', 'property', 'rat'),
]


def build_T9n(tree):
    """The geometric accessors of `_VolumeBase`, run symbolically: the current source of each property is compiled and
    evaluated on an affine whose entries are symbols `a i j`, a shape of symbols `n d` and a symbolic `sqrt`; what comes
    back is emitted as Lean expressions.  `handedness`: the compared expression and which member each outcome returns."""
    import numpy as np
    cls = find_func(tree, '_VolumeBase')
    names = [a[0] for a in _ACCESSORS] + ['handedness', 'map_indices_to_reference']
    fns = {}
    for n in cls.body:
        if isinstance(n, ast.FunctionDef) and n.name in names:
            decs = [_norm(d) for d in n.decorator_list]
            if decs not in ([], ['property']):
                continue        # setters and the like
            f = ast.parse(ast.unparse(n)).body[0]
            f.returns = None
            for arg in f.args.args:
                arg.annotation = None
            fns[n.name] = f
    missing = [n for n in names if n not in fns]
    if missing:
        raise Unsupported(f'accessors not found in _VolumeBase: {missing}')
    for name, _, kind, _ in _ACCESSORS:
        if (kind == 'property') != bool(fns[name].decorator_list):
            raise Unsupported(f'{name} changed between property and method')
    cdef = ast.ClassDef(name='Acc', bases=[], keywords=[], body=[fns[n] for n in names], decorator_list=[])
    mod = ast.Module(body=[cdef], type_ignores=[])
    ast.fix_missing_locations(mod)

    class _H:
        LEFT_HANDED = 'LEFT_HANDED'
        RIGHT_HANDED = 'RIGHT_HANDED'
    # `astype(float)` / `dtype=float` inside map_indices_to_reference must not collapse the symbols: in this run `float` is `object`
    ns = {'np': np, 'AxisHandedness': _H, 'float': object}
    try:
        exec(compile(mod, '<volume.py accessors>', 'exec'), ns)   # noqa: S102  (the current source, on symbols)
    except Exception as e:  # noqa: BLE001
        raise Unsupported(f'accessors could not be compiled: {type(e).__name__}: {e}')

    def fresh():
        obj = ns['Acc'].__new__(ns['Acc'])
        a = np.empty((4, 4), dtype=object)
        for i in range(3):
            for j in range(4):
                a[i, j] = _Sym(('a', i, j))
        a[3] = [_Sym(('int', 0)), _Sym(('int', 0)), _Sym(('int', 0)), _Sym(('int', 1))]
        obj._affine = a
        obj.spatial_shape = (_Sym(('n', 0)), _Sym(('n', 1)), _Sym(('n', 2)))
        return obj

    def flat(x):
        if isinstance(x, _Sym):
            return [x]
        if isinstance(x, np.ndarray):
            return [y for row in x.tolist() for y in (flat(row))] if x.ndim > 0 else flat(x.item())
        if isinstance(x, (list, tuple)):
            return [y for el in x for y in flat(el)]
        return [_Sym.w(x)]
    parts = []
    for name, lean, kind, mode in _ACCESSORS:
        try:
            obj = fresh()
            val = getattr(obj, name)
            if kind == 'method':
                val = val()
            items = flat(val)
        except Unsupported:
            raise
        except Exception as e:  # noqa: BLE001
            raise Unsupported(f'accessor {name} could not be evaluated on symbols: {type(e).__name__}: {e}')
        if name == 'affine':
            items = items[:12]       # the last row is the constant 0 0 0 1
        typ = 'Int' if mode == 'int' else 'Rat'
        exprs = ',\n   '.join(_sym_lean(s.e, mode) for s in items)
        parts.append(f'/-- `_VolumeBase.{name}` evaluated on a symbolic affine `a i j`, shape `n d` and square root `sq` '
                     f'({len(items)} values, flattened row-major) -/\n'
                     f'def {lean} (sq : Rat → Rat) (a : Nat → Nat → Rat) (n : Nat → Int) : List {typ} :=\n  [{exprs}]')
    # handedness: compared expression and the member returned for each outcome
    outcomes = {}
    for ans in (True, False):
        _Sym.trace, _Sym.answer = [], ans
        try:
            outcomes[ans] = fresh().handedness
        except Unsupported:
            raise
        except Exception as e:  # noqa: BLE001
            raise Unsupported(f'handedness could not be evaluated on symbols: {type(e).__name__}: {e}')
        if len(_Sym.trace) != 1 or _Sym.trace[0][0] != 'lt' or _Sym.trace[0][2] != ('int', 0):
            raise Unsupported(f'handedness no longer decides by one comparison `<expr> < 0`: {_Sym.trace}')
        expr = _Sym.trace[0][1]
    _Sym.trace, _Sym.answer = [], False
    if outcomes[True] not in ('LEFT_HANDED', 'RIGHT_HANDED') or outcomes[False] not in ('LEFT_HANDED', 'RIGHT_HANDED'):
        raise Unsupported(f'handedness returns {outcomes}')
    parts.append('/-- `_VolumeBase.handedness`: the expression compared with `< 0.0` -/\n'
                 f'def accHandednessTest (a : Nat → Nat → Rat) : Rat :=\n  {_sym_lean(expr, "rat")}')
    parts.append('/-- `_VolumeBase.handedness`: (member returned when the test is negative, member returned otherwise) -/\n'
                 f'def accHandednessMembers : String × String := ("{outcomes[True]}", "{outcomes[False]}")')
    return '\n\n'.join(parts), span_sha([fns[n] for n in names])


TARGETS['T9m'] = {'file': 'volume.py', 'build': build_T9m}
TARGETS['T9n'] = {'file': 'volume.py', 'build': build_T9n}


# ---------------------------------------------------------------------------------------------------------------------
# round 2: argument handling of swap / flip / permute / pad, evaluated on enumerated small domains (T9o)
def _compile_method(tree, qual, extra_ns):
    fn = ast.parse(ast.unparse(find_func(tree, qual))).body[0]
    fn.returns = None
    fn.decorator_list = []
    for arg in fn.args.args + fn.args.kwonlyargs:
        arg.annotation = None
    mod = ast.Module(body=[fn], type_ignores=[])
    ast.fix_missing_locations(mod)
    ns = dict(extra_ns)
    exec(compile(mod, f'<{qual}>', 'exec'), ns)   # noqa: S102  (the current source, on enumerated arguments)
    return ns[fn.name], find_func(tree, qual)


def _ek(e):
    return {'ValueError': 'value', 'TypeError': 'type', 'IndexError': 'index', 'RuntimeError': 'runtime'}.get(type(e).__name__, 'other')


def _il(xs):
    return '[' + ', '.join(str(int(x)) for x in xs) + ']'


def _chunked_table(name, typ, rows, doc, size=40):
    """a long literal list as the concatenation of short ones (Lean elaborates list literals super-linearly)"""
    from py2lean import lean_table
    parts, names = [], []
    for k in range(0, max(len(rows), 1), size):
        nm = f'{name}{k // size}'
        names.append(nm)
        parts.append(lean_table(nm, typ, rows[k:k + size]))
    parts.append((f'/-- {doc} -/\n' if doc else '') + f'def {name} : {typ} :=\n  ' + ' ++ '.join(names))
    return '\n\n'.join(parts)


def build_T9o(tree):
    """`swap_spatial_axes`, `flip_spatial`, `_permute_affine` (validation) and `_prepare_pad_width`: the current source run
    on every argument of a small enumerated domain; what it hands on (or the kind of error) as Lean tables."""
    import itertools
    from collections.abc import Sequence
    import operator
    import numpy as np
    from py2lean import lean_table

    class Stub:
        def __init__(self):
            self.got = None
            self.affine = 'AFFINE'
            self._affine = 'AFFINE'
            self.spatial_shape = (2, 3, 5)

        def permute_spatial_axes(self, p):
            self.got = ('permute', list(p))
            return 'RESULT'

        def __getitem__(self, idx):
            self.got = ('getitem', idx)
            return 'RESULT'
    # ---- swap_spatial_axes
    swap, swap_src = _compile_method(tree, '_VolumeBase.swap_spatial_axes', {})
    rows = []
    for a in range(-1, 4):
        for b in range(-1, 4):
            st = Stub()
            try:
                res = swap(st, a, b)
                if res != 'RESULT' or st.got is None or st.got[0] != 'permute':
                    raise Unsupported(f'swap_spatial_axes({a}, {b}) no longer returns self.permute_spatial_axes(...)')
                rows.append(f'(({a}, {b}), .ok {_il(st.got[1])})')
            except Unsupported:
                raise
            except Exception as e:  # noqa: BLE001
                rows.append(f'(({a}, {b}), .error .{_ek(e)})')
    t1 = lean_table('swapTable', 'List ((Int × Int) × Except ErrKind (List Int))', rows,
                    '`swap_spatial_axes(a, b)` for a, b in -1..3: the permutation handed to `permute_spatial_axes`, or the error')
    # ---- flip_spatial
    flip, flip_src = _compile_method(tree, '_VolumeBase.flip_spatial', {})
    rows = []
    dom = [[]] + [list(t) for ln in (1, 2, 3) for t in itertools.product(range(-1, 4), repeat=ln)] + \
        [[0, 1, 2, 0], [0, 0, 1, 2], [2, 1, 0, 1], [0, 1, 2, 3], [1, 1, 1, 1]]
    for axes in dom:
        st = Stub()
        try:
            res = flip(st, list(axes))
            if res != 'RESULT' or st.got is None or st.got[0] != 'getitem' or not isinstance(st.got[1], tuple) or len(st.got[1]) != 3:
                raise Unsupported(f'flip_spatial({axes}) no longer returns self[<3 items>]')
            flags = []
            for it in st.got[1]:
                if it == slice(-1, None, -1):
                    flags.append('true')
                elif it == slice(None):
                    flags.append('false')
                else:
                    raise Unsupported(f'flip_spatial({axes}) indexes with {it}')
            rows.append(f'({_il(axes)}, .ok [{", ".join(flags)}])')
        except Unsupported:
            raise
        except Exception as e:  # noqa: BLE001
            rows.append(f'({_il(axes)}, .error .{_ek(e)})')
    # a bare int is the one-element list
    for k in range(-1, 4):
        a, b = Stub(), Stub()
        ra = rb = None
        try:
            flip(a, k)
            ra = a.got
        except Exception as e:  # noqa: BLE001
            ra = _ek(e)
        try:
            flip(b, [k])
            rb = b.got
        except Exception as e:  # noqa: BLE001
            rb = _ek(e)
        if ra != rb:
            raise Unsupported(f'flip_spatial({k}) differs from flip_spatial([{k}])')
    t2 = _chunked_table('flipTable', 'List (List Int × Except ErrKind (List Bool))', rows,
                    '`flip_spatial(axes)` for every list over -1..3 of length 0..3 and some of length 4 (a bare int behaves as the one-element list, '
                    'checked): per axis whether `slice(-1, None, -1)` (true) or `slice(None)` (false) is used, or the error')
    # ---- _permute_affine: validation
    perm, perm_src = _compile_method(tree, '_VolumeBase._permute_affine',
                                     {'_transform_affine_matrix': lambda affine, shape, permute_indices: ('T', affine, tuple(shape), list(permute_indices))})
    rows = []
    for p in dom:
        st = Stub()
        try:
            res = perm(st, list(p))
            if res != ('T', 'AFFINE', (2, 3, 5), list(p)):
                raise Unsupported(f'_permute_affine({p}) no longer forwards (self._affine, self.spatial_shape, indices) unchanged')
            rows.append(_il(p))
        except Unsupported:
            raise
        except ValueError:
            pass
        except Exception as e:  # noqa: BLE001
            raise Unsupported(f'_permute_affine({p}) raised {type(e).__name__}: {e}')
    t3 = lean_table('permuteAccepted', 'List (List Int)', rows,
                    '`_permute_affine(indices)`: the lists over -1..3 of length 0..3 (and some of length 4) that pass the validation (the others raise '
                    'ValueError); accepted ones are forwarded unchanged to `_transform_affine_matrix`')
    # ---- _prepare_pad_width
    ppw, ppw_src = _compile_method(tree, '_VolumeBase._prepare_pad_width',
                                   {'np': np, 'operator': operator, 'Sequence': Sequence,
                                    '_translate_affine_matrix': lambda aff, off: ('TR', aff, [int(x) for x in off])})
    rows = []

    def run(form, arg):
        st = Stub()
        try:
            res = ppw(st, arg)
            (tag, aff, off), full = res
            if tag != 'TR' or aff != 'AFFINE' or len(full) != 3 or any(len(p) != 2 for p in full):
                raise Unsupported(f'_prepare_pad_width({arg}) no longer returns (_translate_affine_matrix(self.affine, offset), 3 pairs)')
            flat = [int(x) for p in full for x in p]
            rows.append(f'({form}, .ok ({_il(flat)}, {_il(off)}))')
        except Unsupported:
            raise
        except Exception as e:  # noqa: BLE001
            rows.append(f'({form}, .error .{_ek(e)})')
    for k in range(-2, 4):
        run(f'PadW.int {k}' if k >= 0 else f'PadW.int ({k})', k)
    for ln in range(0, 4):
        for t in itertools.product([-1, 0, 1, 2], repeat=ln):
            run(f'PadW.flat {_il(t)}', list(t))
    pool = [[], [1], [-1], [0, 2]]
    nested = [list(t) for ln in range(1, 5) for t in itertools.product(pool, repeat=ln)]
    nested += [[[1, -1], [0, 0], [0, 0]], [[0, 0], [0, 0], [2, -1]], [[0, 1, 2], [0, 1, 2], [0, 1, 2]], [[1, 2], [3, 0], [0, 1]],
               [[2], [0], [3]], [[0, 2], [1], [0, 2]], [[1], [0, 2], [0, 2]], [[0], [0], [-2]]]
    run('PadW.nested []', [])
    for t in nested:
        run('PadW.nested [' + ', '.join(_il(x) for x in t) + ']', [list(x) for x in t])
    t4 = ('/-- the forms of `pad_width` (mirror of the model\'s `PadWidth`, which is defined later) -/\n'
          'inductive PadW\n  | int (w : Int)\n  | flat (ws : List Int)\n  | nested (ws : List (List Int))\nderiving DecidableEq, Repr\n\n'
          + _chunked_table('padWidthTable', 'List (PadW × Except ErrKind (List Int × List Int))', rows,
                       '`_prepare_pad_width(pad_width)` on ints -2..3, flat lists over -1..2 of length 0..3 and nested lists of 0..4 '
                       'sublists from a pool (+ some more): ([before0, after0, before1, after1, before2, after2], origin offset handed to '
                       '`_translate_affine_matrix`) or the error'))
    return '\n\n'.join([t1, t2, t3, t4]), span_sha([swap_src, flip_src, perm_src, ppw_src])


TARGETS['T9o'] = {'file': 'volume.py', 'build': build_T9o}


# ---------------------------------------------------------------------------------------------------------------------
# get_affine(output_convention): spatial._transform_affine_to_convention run on a symbolic affine for the 48 conventions (T9p)
def build_T9p(tree):
    """spatial.py `_transform_affine_to_convention` (with `_transform_affine_matrix`, `_normalize_patient_orientation`,
    `PATIENT_ORIENTATION_OPPOSITES` of the current source) from the convention L, P, H to each of the 48 conventions, on a
    symbolic affine: the 12 entries of the result as Lean expressions."""
    import itertools
    import numpy as np
    from collections.abc import Sequence
    try:
        from highdicom.enum import PatientOrientationValuesBiped
    except Exception as e:  # noqa: BLE001
        raise Unsupported(f'highdicom.enum not importable: {e}')
    wanted = ['_normalize_patient_orientation', '_transform_affine_matrix', '_transform_affine_to_convention']
    body = []
    for node in tree.body:
        if isinstance(node, ast.FunctionDef) and node.name in wanted:
            f = ast.parse(ast.unparse(node)).body[0]
            f.returns = None
            for arg in f.args.args + f.args.kwonlyargs:
                arg.annotation = None
            body.append(f)
        elif isinstance(node, ast.Assign) and any(ast.unparse(t) == 'PATIENT_ORIENTATION_OPPOSITES' for t in node.targets):
            body.append(ast.parse(ast.unparse(node)).body[0])
    found = {n.name for n in body if isinstance(n, ast.FunctionDef)}
    if found != set(wanted) or len(body) != 4:
        raise Unsupported(f'spatial.py: expected {wanted} and PATIENT_ORIENTATION_OPPOSITES, found {sorted(found)}')
    mod = ast.Module(body=body, type_ignores=[])
    ast.fix_missing_locations(mod)
    ns = {'np': np, 'Sequence': Sequence, 'PatientOrientationValuesBiped': PatientOrientationValuesBiped}
    try:
        exec(compile(mod, '<spatial.py conventions>', 'exec'), ns)   # noqa: S102
    except Exception as e:  # noqa: BLE001
        raise Unsupported(f'convention helpers could not be compiled: {type(e).__name__}: {e}')
    arms = []
    letters = [('L', 'R'), ('P', 'A'), ('H', 'F')]
    convs = [''.join(p[s] for p, s in zip(perm, signs)) for perm in itertools.permutations(letters)
             for signs in itertools.product([0, 1], repeat=3)]
    P = PatientOrientationValuesBiped
    for conv in convs:
        a = np.empty((4, 4), dtype=object)
        for i in range(3):
            for j in range(4):
                a[i, j] = _Sym(('a', i, j))
        a[3] = [_Sym(('int', 0)), _Sym(('int', 0)), _Sym(('int', 0)), _Sym(('int', 1))]
        try:
            out = ns['_transform_affine_to_convention'](a, (2, 3, 5), from_reference_convention=(P.L, P.P, P.H),
                                                        to_reference_convention=conv)
        except Unsupported:
            raise
        except Exception as e:  # noqa: BLE001
            raise Unsupported(f'_transform_affine_to_convention(LPH -> {conv}) on symbols: {type(e).__name__}: {e}')
        out = np.asarray(out, dtype=object)
        if out.shape != (4, 4):
            raise Unsupported(f'_transform_affine_to_convention returns shape {out.shape}')
        items = [_Sym.w(out[i, j]) for i in range(3) for j in range(4)]
        code = ', '.join(str('LRPAHF'.index(ch)) for ch in conv)
        arms.append(f'  if (c0, c1, c2) = ({code}) then some   -- {conv}\n    [' + ',\n     '.join(_sym_lean(x.e, 'rat') for x in items) + ']\n  else')
    # get_affine in volume.py hands over self.affine, the shape and the fixed source convention (checked by T9n's sibling below)
    text = ('/-- `_transform_affine_to_convention(affine, shape, (L, P, H), conv)` of the current source on a symbolic affine `a i j`: '
            'the 12 entries of the three upper rows, row-major; the convention is given by the codes of its three letters '
            '(L R P A H F = 0 .. 5); `none` for a triple that is not one of the 48 conventions -/\n'
            'def convAffine (c0 c1 c2 : Nat) (a : Nat → Nat → Rat) : Option (List Rat) :=\n' + '\n'.join(arms) + ' none')
    return text, span_sha(body)


def build_T9q(tree):
    """volume.py `get_affine`: hands `self.affine`, `self.spatial_shape`, the convention (L, P, H) and the requested convention to
    `_transform_affine_to_convention`; `None` returns the affine itself (textual pin)."""
    fn = find_func(tree, '_VolumeBase.get_affine')
    got = [_norm(x) for x in strip_doc(fn.body)]
    want = ['affine=self.affine',
            'ifoutput_conventionisnotNone:affine=_transform_affine_to_convention(affine,self.spatial_shape,'
            'from_reference_convention=(PatientOrientationValuesBiped.L,PatientOrientationValuesBiped.P,PatientOrientationValuesBiped.H),'
            'to_reference_convention=output_convention)',
            'returnaffine']
    if got != want:
        raise Unsupported(f'get_affine changed: {got}')
    return ('/-- `get_affine(output_convention)`: (source convention handed to `_transform_affine_to_convention`, what `None` returns) -/\n'
            'def getAffineForwards : String × String := ("LPH", "self.affine")'), span_sha(fn.body)


TARGETS['T9p'] = {'file': 'spatial.py', 'build': build_T9p}
TARGETS['T9q'] = {'file': 'volume.py', 'build': build_T9q}
