"""Translation targets owned by C01: the native branch of the frame loop of `Segmentation.__init__`
(seg/sop.py) -- the guard that decides whether leftover bits are carried from one frame to the next, the
number of pixels taken per iteration, the final flush and the trailing pad byte -- and the admission test
on `max_fractional_value`.

The non-arithmetic statements around the translated expressions (what is concatenated, which slices are
taken, what is appended) are checked *textually*: they are the use of the translated quantities, and the
hand-written fold in Model/SegEncode.lean mirrors exactly these statements.  If one of them changes shape
the target is TRANSLATION-BROKEN.
"""
from __future__ import annotations

import ast
import os

from py2lean import Unsupported, find_func, span_sha, translate_block


def _norm(node):
    return ''.join(ast.unparse(node).split())


def _enum_value(cls_name, member):
    """Literal value of `cls_name.member` in seg/enum.py of the tree being translated."""
    repo = os.environ.get('HD_REPO', '/repo')
    path = os.path.join(repo, 'src', 'highdicom', 'seg', 'enum.py')
    tree = ast.parse(open(path).read())
    for n in tree.body:
        if isinstance(n, ast.ClassDef) and n.name == cls_name:
            for s in n.body:
                if isinstance(s, ast.Assign) and isinstance(s.targets[0], ast.Name) and s.targets[0].id == member \
                        and isinstance(s.value, ast.Constant) and isinstance(s.value.value, str):
                    return s.value.value
    raise Unsupported(f'{cls_name}.{member} not found as a string literal in seg/enum.py')


class _EnumLit(ast.NodeTransformer):
    """`SegmentationTypeValues.X.value` -> the string literal from seg/enum.py"""
    def visit_Attribute(self, node):
        txt = ast.unparse(node)
        if txt.startswith('SegmentationTypeValues.') and txt.endswith('.value'):
            member = txt.split('.')[1]
            return ast.copy_location(ast.Constant(value=_enum_value('SegmentationTypeValues', member)), node)
        return self.generic_visit(node)


def _ret(expr_src):
    return ast.parse('return ' + expr_src).body[0]


def build_T20(tree):
    fn = find_func(tree, 'Segmentation.__init__')
    # ---- the statement `flat_array = segment_array.flatten()` opens the native branch
    native = None
    for node in ast.walk(fn):
        if isinstance(node, ast.If) and _norm(node.test) == 'is_encaps' and node.orelse:
            if any(isinstance(s, ast.Assign) and _norm(s) == 'flat_array=segment_array.flatten()' for s in node.orelse):
                native = node.orelse
    if native is None:
        raise Unsupported('native branch of the frame loop (flat_array = segment_array.flatten()) not found')
    if len(native) != 3:
        raise Unsupported('native branch of the frame loop no longer has the shape flatten / if guard / append')
    flat, guard_if, append = native
    if _norm(append) != 'frames.append(self._encode_pixels_native(to_encode))':
        raise Unsupported('native branch no longer ends in frames.append(self._encode_pixels_native(to_encode))')
    if not isinstance(guard_if, ast.If):
        raise Unsupported('carry guard of the frame loop not found')
    body = guard_if.body
    if len(body) != 4:
        raise Unsupported('carry branch of the frame loop changed shape: ' + ' ; '.join(_norm(s) for s in body))
    take = body[1]
    if not (isinstance(take, ast.Assign) and len(take.targets) == 1 and isinstance(take.targets[0], ast.Name)):
        raise Unsupported('second statement of the carry branch is no longer `<n> = <expression>`')
    nvar = take.targets[0].id           # the name of the local does not matter
    want = ['full_array=np.concatenate([remainder_pixels,flat_array])', None,
            f'to_encode=full_array[:{nvar}]', f'remainder_pixels=full_array[{nvar}:]']
    if any(w is not None and _norm(s) != w for s, w in zip(body, want)):
        raise Unsupported('carry branch of the frame loop changed shape: ' + ' ; '.join(_norm(s) for s in body))
    if [_norm(s) for s in guard_if.orelse] != ['to_encode=flat_array']:
        raise Unsupported('per-frame branch of the frame loop is no longer `to_encode = flat_array`')
    # ---- (1) the guard
    test = _EnumLit().visit(ast.parse(ast.unparse(guard_if.test), mode='eval').body)
    g = ast.Return(value=test)
    ast.fix_missing_locations(g)
    attrs = {'self.SegmentationType': ('str', 'segmentationType'), 'self.Rows': ('int', 'rows'),
             'self.Columns': ('int', 'columns')}
    t1 = translate_block([g], 'segPackGuard', [], attrs,
                         doc='frame loop of `Segmentation.__init__`, native branch: the test deciding whether leftover '
                             'pixels are carried over to the next frame (True) or every frame is packed on its own (False)')
    # ---- (2) pixels taken per iteration
    blk = [ast.parse(ast.unparse(take)).body[0], _ret(nvar)]
    for s in blk:
        ast.fix_missing_locations(s)
    t2 = translate_block(blk, 'segCarryTake', [], {'len(full_array)': ('int', 'fullLen')},
                         doc='carry branch: `n_pixels_to_take` as a function of `len(full_array)`; '
                             '`to_encode = full_array[:n]`, `remainder_pixels = full_array[n:]`')
    # ---- (3) flush of the remainder and assembly of PixelData
    flush = None
    for node in ast.walk(fn):
        if isinstance(node, ast.If) and 'len(remainder_pixels)' in _norm(node.test):
            flush = node
    if flush is None:
        raise Unsupported('final flush of remainder_pixels not found')
    if [_norm(s) for s in flush.body] != ['frames.append(self._encode_pixels_native(remainder_pixels))'] or flush.orelse:
        raise Unsupported('final flush no longer appends the packed remainder')
    joined = [n for n in ast.walk(fn) if isinstance(n, ast.Assign) and _norm(n) == "self.PixelData=b''.join(frames)"]
    if len(joined) != 1:
        raise Unsupported("self.PixelData = b''.join(frames) not found")
    # results of a worker pool are gathered by position (submission order), not in completion order
    gathered = [n for n in ast.walk(fn) if isinstance(n, ast.Assign)
                and _norm(n) == 'frames=[fut.result()forfutinframe_futures]']
    submits = [n for n in ast.walk(fn) if isinstance(n, ast.Expr) and _norm(n) == 'frame_futures.append(future)']
    if len(gathered) != 1 or len(submits) != 1:
        raise Unsupported('frames = [fut.result() for fut in frame_futures] / frame_futures.append(future) not found')
    f = ast.Return(value=flush.test)
    ast.fix_missing_locations(f)
    t3 = translate_block([f], 'segFlushGuard', [], {'len(remainder_pixels)': ('int', 'remainderLen')},
                         doc='after the loop: test under which the packed remainder is appended as a last chunk')
    # ---- (4) trailing pad byte
    pad = None
    for node in ast.walk(fn):
        if isinstance(node, ast.If) and 'len(self.PixelData)' in _norm(node.test):
            pad = node
    if pad is None or len(pad.body) != 1 or pad.orelse:
        raise Unsupported('trailing pad of PixelData not found')
    st = pad.body[0]
    if not (isinstance(st, ast.AugAssign) and isinstance(st.op, ast.Add) and _norm(st.target) == 'self.PixelData'
            and isinstance(st.value, ast.Constant) and isinstance(st.value.value, bytes) and len(st.value.value) == 1):
        raise Unsupported('trailing pad is no longer `self.PixelData += <one byte>`')
    p = ast.Return(value=pad.test)
    ast.fix_missing_locations(p)
    t4 = translate_block([p], 'segPadGuard', [], {'len(self.PixelData)': ('int', 'pixelDataLen')},
                         doc='test under which one trailing byte is appended to PixelData')
    t5 = ('/-- the trailing byte appended when `segPadGuard` holds (as written in the source) -/\n'
          f'def segPadByte : Nat := {st.value.value[0]}')
    # ---- (5) admission of max_fractional_value
    mf = None
    for node in ast.walk(fn):
        if isinstance(node, ast.If) and 'max_fractional_value' in _norm(node.test) and len(node.body) == 1 \
                and isinstance(node.body[0], ast.Raise):
            mf = node
    if mf is None or mf.orelse:
        raise Unsupported('admission test on max_fractional_value not found')
    blk5 = [ast.parse(ast.unparse(mf)).body[0], _ret('max_fractional_value')]
    for s in blk5:
        ast.fix_missing_locations(s)
    t6 = translate_block(blk5, 'segMfvGuard', [('max_fractional_value', 'int')], {},
                         doc='FRACTIONAL: admission test on `max_fractional_value` (result = accepted value)')
    sha = span_sha([flat, guard_if, append, flush, pad, mf])
    return '\n\n'.join([t1, t2, t3, t4, t5, t6]), sha


def _lean_str(x):
    return '"' + x.replace('\\', '\\\\').replace('"', '\\"') + '"'


def build_T21(tree):
    """Cast sites: every statement of `_check_and_cast_pixel_array`, `_combine_segments` and
    `_get_segment_pixel_array` that narrows / rounds / scales pixel values (`astype`, `np.around`, a product with
    `max_fractional_value`, `argmax`/`max` with an `out=` array), in source order, each with the chain of `if` tests
    it sits under.  The hand-written model has a `wrap` exactly at these sites and in this order relative to the
    comparison with the segment number; the list is a literal table the property file pins (`cast_sites_pinned`)."""
    entries = []
    spans = []

    def interesting(node):
        for n in ast.walk(node):
            if isinstance(n, ast.Call):
                f = ast.unparse(n.func)
                if f.endswith('.astype') or f in ('np.around', 'numpy.around', 'np.round', 'np.rint', 'np.floor', 'np.ceil') \
                        or any(k.arg == 'out' for k in n.keywords):
                    return True
            if isinstance(n, ast.BinOp) and isinstance(n.op, ast.Mult) and 'max_fractional_value' in ast.unparse(n):
                return True
            if isinstance(n, ast.AugAssign) and 'max_fractional_value' in ast.unparse(n):
                return True
        return False

    def walk(stmts, ctx, name):
        for st in stmts:
            if isinstance(st, ast.If):
                t = _norm(st.test)
                walk(st.body, ctx + [t], name)
                walk(st.orelse, ctx + ['not(' + t + ')'], name)
            elif isinstance(st, (ast.For, ast.While, ast.With, ast.Try)):
                raise Unsupported(f'{name}: compound statement {type(st).__name__} in a cast-carrying function')
            elif isinstance(st, (ast.Assign, ast.AugAssign, ast.AnnAssign, ast.Return, ast.Expr)):
                if isinstance(st, ast.Expr) and isinstance(st.value, ast.Constant):
                    continue
                if interesting(st):
                    entries.append(f'{name} | {" & ".join(ctx) or "-"} | {_norm(st)}')
            elif isinstance(st, (ast.Raise, ast.Pass)):
                continue
            else:
                raise Unsupported(f'{name}: statement {type(st).__name__} not understood')

    for qual in ('Segmentation._check_and_cast_pixel_array', 'Segmentation._combine_segments',
                 'Segmentation._get_segment_pixel_array'):
        fn = find_func(tree, qual)
        walk(fn.body, [], qual.split('.')[-1])
        spans.append(fn)
    text = ('/-- statements of the cast-carrying functions of seg/sop.py that narrow, round or scale pixel values, in source\n'
            '    order: "function | enclosing if-tests | statement" -/\n'
            'def segCastSites : List String :=\n  [' + ',\n   '.join(_lean_str(e) for e in entries) + ']')
    return text, span_sha(spans)


TARGETS = {
    'T20': {'file': 'seg/sop.py', 'build': build_T20},
    'T21': {'file': 'seg/sop.py', 'build': build_T21},
}


# ------------------------------------------------------------------------------------------------------------
# Tie pass: the decisions of hand-written model functions, expression by expression (bridged in Proofs/SegTie.lean)
# ------------------------------------------------------------------------------------------------------------
def _one(nodes, what):
    if len(nodes) != 1:
        raise Unsupported(f'expected exactly one {what}, found {len(nodes)}')
    return nodes[0]


def _ret_expr(node):
    r = ast.Return(value=node)
    ast.fix_missing_locations(r)
    return r


_OVERLAP_CODE = {'NO': 0, 'YES': 1, 'UNDEFINED': 2}


class _OverlapToReturn(ast.NodeTransformer):
    """`segments_overlap = SegmentsOverlapValues.X` -> `return <code>`; `sum_over_segments = pixel_array.sum(axis=-1)` dropped"""
    def visit_Assign(self, node):
        t = ast.unparse(node.targets[0])
        if t == 'segments_overlap':
            v = ast.unparse(node.value)
            if not v.startswith('SegmentsOverlapValues.'):
                raise Unsupported('segments_overlap assigned something unexpected: ' + v)
            return ast.copy_location(ast.Return(value=ast.Constant(value=_OVERLAP_CODE[v.split('.')[1]])), node)
        if t == 'sum_over_segments':
            if _norm(node.value) != 'pixel_array.sum(axis=-1)':
                raise Unsupported('sum_over_segments is no longer pixel_array.sum(axis=-1)')
            return None
        return node


def build_T22(tree):
    """Value guards of `_check_and_cast_pixel_array`, integer and float branches: the fast test for undescribed labels,
    the refusal of non-binary stacks, the overlap decision for integer stacks, the range test and the "non-boolean"
    test for floats."""
    fn = find_func(tree, 'Segmentation._check_and_cast_pixel_array')
    texts = []
    # (1) has_undescribed_segments = pixel_array.max() > number_of_segments
    fast = _one([n for n in ast.walk(fn) if isinstance(n, ast.Assign) and ast.unparse(n.targets[0]) == 'has_undescribed_segments'
                 and 'pixel_array.max()' in ast.unparse(n.value)], 'fast undescribed-label test')
    texts.append(translate_block([_ret_expr(fast.value)], 'castUndescribedFast', [('number_of_segments', 'int')],
                                 {'pixel_array.max()': ('int', 'maxPixel')},
                                 doc='label-map input, described numbers 1..n: is a label undescribed?'))
    # (2) if max_pixel > 1: raise ValueError
    stk = _one([n for n in ast.walk(fn) if isinstance(n, ast.If) and 'max_pixel' in ast.unparse(n.test)
                and len(n.body) == 1 and isinstance(n.body[0], ast.Raise)], 'non-binary stack refusal')
    blk = [ast.parse(ast.unparse(stk)).body[0], ast.parse('return max_pixel').body[0]]
    texts.append(translate_block(blk, 'castStackMaxGuard', [('max_pixel', 'int')], {},
                                 doc='stacked integer input: refusal on the largest pixel value (result = accepted maximum)'))
    # (3) overlap decision of the integer stack branch
    ov = _one([n for n in ast.walk(fn) if isinstance(n, ast.If) and _norm(n.test) == 'max_pixel==0'], 'overlap decision (max_pixel == 0 ...)')
    ov2 = _OverlapToReturn().visit(ast.parse(ast.unparse(ov)).body[0])
    ast.fix_missing_locations(ov2)
    texts.append(translate_block([ov2], 'castOverlapInt', [('max_pixel', 'int')],
                                 {'pixel_array.shape[-1]': ('int', 'lastDim'), 'np.any(sum_over_segments > 1)': ('bool', 'anyOver')},
                                 doc='stacked integer input: SegmentsOverlap (0 = NO, 1 = YES, 2 = UNDEFINED); `anyOver` = some '
                                     'pixel has `castOverlapSum`'))
    anyc = _one([n for n in ast.walk(ov) if isinstance(n, ast.Call) and ast.unparse(n.func) == 'np.any'], 'np.any(sum_over_segments > ...)')
    texts.append(translate_block([_ret_expr(anyc.args[0])], 'castOverlapSum', [('sum_over_segments', 'int')], {},
                                 doc='per pixel: do the segments overlap there (sum over the channel axis)'))
    # (4) floats: range
    rng = _one([n for n in ast.walk(fn) if isinstance(n, ast.If) and 'np.min(unique_values)' in ast.unparse(n.test)
                and len(n.body) == 1 and isinstance(n.body[0], ast.Raise)], 'float range refusal')
    blk = [ast.parse(ast.unparse(rng)).body[0], ast.parse('return 0').body[0]]
    texts.append(translate_block(blk, 'castFloatRange', [],
                                 {'np.min(unique_values)': ('rat', 'minValue'), 'np.max(unique_values)': ('rat', 'maxValue')},
                                 doc='float input: refusal on the smallest / largest value'))
    # (5) floats: non-boolean values for BINARY / LABELMAP
    nb = _one([n for n in ast.walk(fn) if isinstance(n, ast.Assign) and ast.unparse(n.targets[0]) == 'non_boolean_values'],
              'non_boolean_values')
    if not (isinstance(nb.value, ast.Call) and ast.unparse(nb.value.func) == 'np.logical_and' and len(nb.value.args) == 2):
        raise Unsupported('non_boolean_values is no longer np.logical_and(a, b)')
    conj = ast.BoolOp(op=ast.And(), values=list(nb.value.args))
    texts.append(translate_block([_ret_expr(conj)], 'castFloatNonBoolean', [('unique_values', 'rat')], {},
                                 doc='float input for BINARY / LABELMAP, per value: is it a genuine fraction (refused)?'))
    # (6) floats for BINARY / LABELMAP: a binary 2-D/3-D mask is label 1, which must be described (fix f08a76b)
    lab = _one([n for n in ast.walk(fn) if isinstance(n, ast.If) and 'unique_values[-1]' in ast.unparse(n.test)
                and len(n.body) == 1 and isinstance(n.body[0], ast.Raise)], 'float label-1 refusal')
    blk = [ast.parse(ast.unparse(lab)).body[0], ast.parse('return 0').body[0]]
    texts.append(translate_block(blk, 'castFloatLabelGuard', [],
                                 {'pixel_array.ndim': ('int', 'ndim'), 'unique_values[-1]': ('rat', 'lastValue'),
                                  '1 not in segment_numbers': ('bool', 'oneUndescribed')},
                                 doc='float 0/1 input for BINARY / LABELMAP: refusal of a label-map style mask holding the '
                                     'undescribed label 1 (`lastValue` = the largest value)'))
    # (7) fractions: a 2-D/3-D array is a single segment (fix d437594)
    sev = _one([n for n in ast.walk(fn) if isinstance(n, ast.If) and _norm(n.test).startswith('pixel_array.ndim==3and')
                and 'number_of_segments' in ast.unparse(n.test) and len(n.body) == 1 and isinstance(n.body[0], ast.Raise)],
               'several-fractional-segments refusal')
    blk = [ast.parse(ast.unparse(sev)).body[0], ast.parse('return 0').body[0]]
    texts.append(translate_block(blk, 'castFloatFractionGuard', [('number_of_segments', 'int')],
                                 {'pixel_array.ndim': ('int', 'ndim')},
                                 doc='float input for FRACTIONAL: refusal of a 2-D/3-D array with several described segments'))
    # ... and where the two sit: (6) after the cast of the BINARY/LABELMAP arm, (7) first statement of the FRACTIONAL arm
    arm = _one([n for n in ast.walk(fn) if isinstance(n, ast.If) and _norm(n.test).startswith('segmentation_typein(')
                and any(s is lab for s in n.body)], 'BINARY/LABELMAP arm of the float branch')
    pos = [i for i, s in enumerate(arm.body) if s is lab][0]
    if pos == 0 or _norm(arm.body[pos - 1]) != 'pixel_array=pixel_array.astype(dtype)' or not arm.orelse or arm.orelse[0] is not sev:
        raise Unsupported('float branch: the label-1 refusal no longer follows the cast / the fraction refusal no longer '
                          'opens the FRACTIONAL arm')
    return '\n\n'.join(texts), span_sha([fast, stk, ov, rng, nb, lab, sev])


def build_T23(tree):
    """Decisions of the frame loop and of `_get_segment_pixel_array`: when a single-segment frame is skipped, which
    channel of a stack is segment s, when and how binary values are stretched, the product that is rounded."""
    init = find_func(tree, 'Segmentation.__init__')
    skip = _one([n for n in ast.walk(init) if isinstance(n, ast.If) and 'np.any(segment_array)' in ast.unparse(n.test)],
                'empty-frame skip test')
    if not any(isinstance(s, ast.Continue) for s in skip.body):
        raise Unsupported('the empty-frame test no longer skips with `continue`')
    outer = [n for n in ast.walk(init) if isinstance(n, ast.If) and skip in n.body]
    if len(outer) != 1 or _norm(outer[0].test) != 'segment_numberisnotNone':
        raise Unsupported('the empty-frame skip is no longer guarded by `segment_number is not None`')
    texts = [translate_block([_ret_expr(skip.test)], 'loopSkipGuard', [('omit_empty_frames', 'bool')],
                             {'np.any(segment_array)': ('bool', 'anySet')},
                             doc='frame loop, single-segment frames: is this frame skipped?')]
    fn = find_func(tree, 'Segmentation._get_segment_pixel_array')
    subs = [n for n in ast.walk(fn) if isinstance(n, ast.Subscript) and ast.unparse(n.value) == 'pixel_array'
            and isinstance(n.slice, ast.Tuple) and len(n.slice.elts) == 3]
    idx = {_norm(n.slice.elts[2]) for n in subs}
    if len(subs) != 2 or len(idx) != 1 or any(_norm(e) != ':' for n in subs for e in n.slice.elts[:2]):
        raise Unsupported('channel selection pixel_array[:, :, <index>] changed: ' + ' ; '.join(ast.unparse(n) for n in subs))
    texts.append(translate_block([_ret_expr(subs[0].slice.elts[2])], 'segChannelIndex', [('segment_number', 'int')], {},
                                 doc='stacked input: the channel holding segment `segment_number`'))
    st = _one([n for n in ast.walk(fn) if isinstance(n, ast.If) and _norm(n.test).startswith('int(max_fractional_value)')],
              'stretch guard')
    texts.append(translate_block([_ret_expr(st.test)], 'segStretchGuard', [('max_fractional_value', 'int')], {},
                                 doc='FRACTIONAL from binary values: are they multiplied at all?'))
    if len(st.body) != 1 or not isinstance(st.body[0], ast.Assign) or ast.unparse(st.body[0].targets[0]) != 'segment_array':
        raise Unsupported('stretch statement is no longer `segment_array = <expression>`')
    texts.append(translate_block([_ret_expr(st.body[0].value)], 'segStretchValue',
                                 [('segment_array', 'int'), ('max_fractional_value', 'int')], {},
                                 doc='... and the value a binary pixel is replaced by'))
    ar = _one([n for n in ast.walk(fn) if isinstance(n, ast.Call) and ast.unparse(n.func) == 'np.around'], 'np.around(...)')
    texts.append(translate_block([_ret_expr(ar.args[0])], 'segFractionProduct',
                                 [('segment_array', 'rat'), ('max_fractional_value', 'int')], {},
                                 doc='FRACTIONAL from fractions: the product handed to np.around (round half to even)'))
    return '\n\n'.join(texts), span_sha([skip, st]) + span_sha([ast.Expr(value=subs[0]), ast.Expr(value=ar)])[:8]


def build_T24(tree):
    """Source-frame numbering: the frame number `_get_pffg_item` records for source plane `source_image_index`, and
    the tests `get_pixels_by_source_frame` applies to requested numbers (positive; not above the highest referenced)."""
    fn = find_func(tree, 'Segmentation._get_pffg_item')
    de = _one([n for n in ast.walk(fn) if isinstance(n, ast.Call) and ast.unparse(n.func) == 'DataElement'
               and n.args and isinstance(n.args[0], ast.Constant) and n.args[0].value == 0x00081160], 'ReferencedFrameNumber element')
    texts = [translate_block([_ret_expr(de.args[2])], 'pffgFrameNumber', [('source_image_index', 'int')], {},
                             doc='`_get_pffg_item`: ReferencedFrameNumber of source plane `source_image_index` (multi-frame source)')]
    rd = find_func(tree, 'Segmentation.get_pixels_by_source_frame')
    pos = _one([n for n in ast.walk(rd) if isinstance(n, ast.GeneratorExp) and _norm(n.generators[0].iter) == 'source_frame_numbers'
                and isinstance(n.elt, ast.Compare)], 'all(f > 0 for f in source_frame_numbers)')
    texts.append(translate_block([_ret_expr(pos.elt)], 'srcFramePositive', [(pos.generators[0].target.id, 'int')], {},
                                 doc='`get_pixels_by_source_frame`: a requested frame number is admissible'))
    loop = _one([n for n in ast.walk(rd) if isinstance(n, ast.For) and _norm(n.iter) == 'source_frame_numbers'], 'loop over requested numbers')
    g = _one([n for n in loop.body if isinstance(n, ast.If)], 'missing-frame test')
    if not any(isinstance(s, ast.Raise) and 'ValueError' in ast.unparse(s) for s in g.body):
        raise Unsupported('the missing-frame test no longer raises ValueError')
    enclosing = [n for n in ast.walk(rd) if isinstance(n, ast.If) and loop in n.body]
    if len(enclosing) != 1 or _norm(enclosing[0].test) != 'notassert_missing_frames_are_empty':
        raise Unsupported('the missing-frame loop is no longer under `if not assert_missing_frames_are_empty`')
    texts.append(translate_block([_ret_expr(g.test)], 'srcFrameMissing',
                                 [(loop.target.id, 'int'), ('max_frame_number', 'int')], {},
                                 doc='... is refused as missing (ValueError) unless the caller asserts that missing frames are empty'))
    return '\n\n'.join(texts), span_sha([g]) + span_sha([ast.Expr(value=de), ast.Expr(value=pos)])[:8]


TARGETS['T22'] = {'file': 'seg/sop.py', 'build': build_T22}
TARGETS['T23'] = {'file': 'seg/sop.py', 'build': build_T23}
TARGETS['T24'] = {'file': 'seg/sop.py', 'build': build_T24}


def build_T25(tree):
    """Per-frame functional groups vs frame content order: the frame loop numbers the visited planes with
    `enumerate(plane_sort_index, <start>)`, hands `[plane_dim_ind]` (stacks of planes) to `_get_pffg_item`, which puts the
    segment number in front of it; which plane / source index / segment travel with a frame.  The start value is
    regenerated as a constant the model's `dimIndexValues` uses; the statements are a literal table the property file pins
    (`pffg_sites_pinned`, a change detector like `cast_sites_pinned`)."""
    init = find_func(tree, 'Segmentation.__init__')
    loop = _one([n for n in ast.walk(init) if isinstance(n, ast.For) and _norm(n.iter).startswith('enumerate(plane_sort_index')],
                'loop over enumerate(plane_sort_index, ...)')
    if not (isinstance(loop.iter, ast.Call) and len(loop.iter.args) == 2 and isinstance(loop.iter.args[1], ast.Constant)
            and isinstance(loop.iter.args[1].value, int) and loop.iter.args[1].value >= 0):
        raise Unsupported('the plane loop is no longer enumerate(plane_sort_index, <non-negative integer literal>)')
    start = loop.iter.args[1].value
    outer = [n for n in ast.walk(init) if isinstance(n, ast.For) and loop in n.body]
    if len(outer) != 1 or _norm(outer[0].iter) != 'segments_iterable' or _norm(outer[0].target) != 'segment_number':
        raise Unsupported('the plane loop is no longer nested directly in `for segment_number in segments_iterable`')
    entries = [f'loop | for {_norm(outer[0].target)} in {_norm(outer[0].iter)}', f'loop | for {_norm(loop.target)} in {_norm(loop.iter)}']
    # every assignment to dimension_index_values with the chain of `if` tests it sits under (audit 2, C01-2); the slide
    # arm (a comprehension over np.where(unique_dimension_values ...), inside a try) is named, not spelled out: its
    # index vectors are not in the model (oracle of the `tiled` stream)
    n_comp = [0]

    def walk(stmts, ctx):
        for st in stmts:
            if isinstance(st, ast.If):
                t = _norm(st.test)
                walk(st.body, ctx + [t])
                walk(st.orelse, ctx + ['not(' + t + ')'])
            elif isinstance(st, ast.Try):
                walk(st.body, ctx)
            elif isinstance(st, (ast.For, ast.While, ast.With)):
                walk(st.body, ctx)
            elif isinstance(st, ast.Assign) and ast.unparse(st.targets[0]) == 'dimension_index_values':
                if isinstance(st.value, ast.ListComp):
                    n_comp[0] += 1
                    entries.append(f'loop | {" & ".join(ctx) or "-"} | dimension_index_values=<one index per slide coordinate>')
                else:
                    entries.append(f'loop | {" & ".join(ctx) or "-"} | {_norm(st)}')
    walk(loop.body, [])
    if n_comp[0] != 1:
        raise Unsupported('expected exactly one list comprehension (slide coordinates) assigned to dimension_index_values')
    call = _one([n for n in ast.walk(loop) if isinstance(n, ast.Call) and ast.unparse(n.func) == 'self._get_pffg_item'],
                'call of _get_pffg_item in the frame loop')
    if call.args:
        raise Unsupported('_get_pffg_item is no longer called with keyword arguments only')
    for k in call.keywords:
        if k.arg in ('segment_number', 'dimension_index_values', 'plane_position', 'source_image_index',
                     'are_spatial_locations_preserved'):
            entries.append(f'call | {k.arg}={_norm(k.value)}')
    item = find_func(tree, 'Segmentation._get_pffg_item')
    aiv = [n for n in ast.walk(item) if isinstance(n, ast.Assign) and ast.unparse(n.targets[0]) == 'all_index_values']
    top = _one([n for n in item.body if isinstance(n, ast.If) and any(a in ast.walk(n) for a in aiv)], 'if deciding all_index_values')
    if len(aiv) != 2 or len(top.body) != 1 or len(top.orelse) != 1:
        raise Unsupported('all_index_values is no longer assigned once per arm of one if')
    entries.append(f'_get_pffg_item | {_norm(top.test)} | {_norm(top.body[0])}')
    entries.append(f'_get_pffg_item | not({_norm(top.test)}) | {_norm(top.orelse[0])}')
    for n in ast.walk(item):
        if isinstance(n, ast.Call) and ast.unparse(n.func) == 'DataElement' and n.args and isinstance(n.args[0], ast.Constant) \
                and n.args[0].value in (0x00209157, 0x0062000B, 0x00081160):
            entries.append('_get_pffg_item | DataElement | ' + ','.join(_norm(a) for a in n.args))
    text = ('/-- first value `enumerate(plane_sort_index, ·)` gives the position index of a visited plane -/\n'
            f'def segDimIndexStart : Nat := {start}\n\n'
            '/-- the statements that decide which segment / plane / position index / source index a stored frame is recorded\n'
            '    with (frame loop of `Segmentation.__init__` and `_get_pffg_item`) -/\n'
            'def segPffgSites : List String :=\n  [' + ',\n   '.join(_lean_str(e) for e in entries) + ']')
    return text, span_sha([loop.iter, call, top])


TARGETS['T25'] = {'file': 'seg/sop.py', 'build': build_T25}


def build_T26(tree):
    """`omit_empty_frames`: which planes are visited.  The statements of the block in `Segmentation.__init__` (what is judged --
    the array itself or the quantised fractions --, the "all empty => keep all" fall-back that also switches the per-segment
    skipping off, the re-filtering of `plane_sort_index`) and of `_get_nonempty_plane_indices` as a literal table the property
    file pins (`omit_sites_pinned`); the model's `planOrder` / `planeNonEmpty` were written against exactly these."""
    init = find_func(tree, 'Segmentation.__init__')
    blk = _one([n for n in ast.walk(init) if isinstance(n, ast.If) and _norm(n.test) == 'omit_empty_frames'
                and any(isinstance(x, ast.Assign) and 'occupied_array' in ast.unparse(x) for x in ast.walk(n))],
               'the omit_empty_frames block')
    entries = []

    def walk(stmts, ctx, name):
        for st in stmts:
            if isinstance(st, ast.If):
                t = _norm(st.test)
                walk(st.body, ctx + [t], name)
                walk(st.orelse, ctx + ['not(' + t + ')'], name)
            elif isinstance(st, (ast.Assign, ast.Return)):
                entries.append(f'{name} | {" & ".join(ctx) or "-"} | {_norm(st)}')
            elif isinstance(st, ast.Expr):
                if isinstance(st.value, ast.Constant) or 'logger.' in ast.unparse(st):
                    continue
                entries.append(f'{name} | {" & ".join(ctx) or "-"} | {_norm(st)}')
            else:
                raise Unsupported(f'{name}: statement {type(st).__name__} not understood')
    walk([blk], [], '__init__')
    fn = find_func(tree, 'Segmentation._get_nonempty_plane_indices')
    walk(fn.body, [], '_get_nonempty_plane_indices')
    text = ('/-- the statements that decide which planes the frame loop visits when `omit_empty_frames` is set -/\n'
            'def segOmitSites : List String :=\n  [' + ',\n   '.join(_lean_str(e) for e in entries) + ']')
    return text, span_sha([blk, fn])


TARGETS['T26'] = {'file': 'seg/sop.py', 'build': build_T26}
