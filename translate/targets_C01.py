"""Translation targets owned by C01: the native branch of the frame loop of `Segmentation.__init__`
(seg/sop.py) -- the guard that decides whether leftover bits are carried from one frame to the next, the
number of pixels taken per iteration, the final flush and the trailing pad byte -- and the admission test
on `max_fractional_value`.

The non-arithmetic statements around the translated expressions (what is concatenated, which slices are
taken, what is appended) are checked *textually*: they are the use of the translated quantities, and the
hand-written fold in Model/SegEncode.lean mirrors exactly these statements.  If one of them changes shape
the target is TRANSLATION-BROKEN.
"""
from __future__ import annotations

import ast
import os

from py2lean import Unsupported, find_func, span_sha, translate_block


def _norm(node):
    return ''.join(ast.unparse(node).split())


def _enum_value(cls_name, member):
    """Literal value of `cls_name.member` in seg/enum.py of the tree being translated."""
    repo = os.environ.get('HD_REPO', '/repo')
    path = os.path.join(repo, 'src', 'highdicom', 'seg', 'enum.py')
    tree = ast.parse(open(path).read())
    for n in tree.body:
        if isinstance(n, ast.ClassDef) and n.name == cls_name:
            for s in n.body:
                if isinstance(s, ast.Assign) and isinstance(s.targets[0], ast.Name) and s.targets[0].id == member \
                        and isinstance(s.value, ast.Constant) and isinstance(s.value.value, str):
                    return s.value.value
    raise Unsupported(f'{cls_name}.{member} not found as a string literal in seg/enum.py')


class _EnumLit(ast.NodeTransformer):
    """`SegmentationTypeValues.X.value` -> the string literal from seg/enum.py"""
    def visit_Attribute(self, node):
        txt = ast.unparse(node)
        if txt.startswith('SegmentationTypeValues.') and txt.endswith('.value'):
            member = txt.split('.')[1]
            return ast.copy_location(ast.Constant(value=_enum_value('SegmentationTypeValues', member)), node)
        return self.generic_visit(node)


def _ret(expr_src):
    return ast.parse('return ' + expr_src).body[0]


def build_T20(tree):
    fn = find_func(tree, 'Segmentation.__init__')
    # ---- the statement `flat_array = segment_array.flatten()` opens the native branch
    native = None
    for node in ast.walk(fn):
        if isinstance(node, ast.If) and _norm(node.test) == 'is_encaps' and node.orelse:
            if any(isinstance(s, ast.Assign) and _norm(s) == 'flat_array=segment_array.flatten()' for s in node.orelse):
                native = node.orelse
    if native is None:
        raise Unsupported('native branch of the frame loop (flat_array = segment_array.flatten()) not found')
    if len(native) != 3:
        raise Unsupported('native branch of the frame loop no longer has the shape flatten / if guard / append')
    flat, guard_if, append = native
    if _norm(append) != 'frames.append(self._encode_pixels_native(to_encode))':
        raise Unsupported('native branch no longer ends in frames.append(self._encode_pixels_native(to_encode))')
    if not isinstance(guard_if, ast.If):
        raise Unsupported('carry guard of the frame loop not found')
    body = guard_if.body
    if len(body) != 4:
        raise Unsupported('carry branch of the frame loop changed shape: ' + ' ; '.join(_norm(s) for s in body))
    take = body[1]
    if not (isinstance(take, ast.Assign) and len(take.targets) == 1 and isinstance(take.targets[0], ast.Name)):
        raise Unsupported('second statement of the carry branch is no longer `<n> = <expression>`')
    nvar = take.targets[0].id           # the name of the local does not matter
    want = ['full_array=np.concatenate([remainder_pixels,flat_array])', None,
            f'to_encode=full_array[:{nvar}]', f'remainder_pixels=full_array[{nvar}:]']
    if any(w is not None and _norm(s) != w for s, w in zip(body, want)):
        raise Unsupported('carry branch of the frame loop changed shape: ' + ' ; '.join(_norm(s) for s in body))
    if [_norm(s) for s in guard_if.orelse] != ['to_encode=flat_array']:
        raise Unsupported('per-frame branch of the frame loop is no longer `to_encode = flat_array`')
    # ---- (1) the guard
    test = _EnumLit().visit(ast.parse(ast.unparse(guard_if.test), mode='eval').body)
    g = ast.Return(value=test)
    ast.fix_missing_locations(g)
    attrs = {'self.SegmentationType': ('str', 'segmentationType'), 'self.Rows': ('int', 'rows'),
             'self.Columns': ('int', 'columns')}
    t1 = translate_block([g], 'segPackGuard', [], attrs,
                         doc='frame loop of `Segmentation.__init__`, native branch: the test deciding whether leftover '
                             'pixels are carried over to the next frame (True) or every frame is packed on its own (False)')
    # ---- (2) pixels taken per iteration
    blk = [ast.parse(ast.unparse(take)).body[0], _ret(nvar)]
    for s in blk:
        ast.fix_missing_locations(s)
    t2 = translate_block(blk, 'segCarryTake', [], {'len(full_array)': ('int', 'fullLen')},
                         doc='carry branch: `n_pixels_to_take` as a function of `len(full_array)`; '
                             '`to_encode = full_array[:n]`, `remainder_pixels = full_array[n:]`')
    # ---- (3) flush of the remainder and assembly of PixelData
    flush = None
    for node in ast.walk(fn):
        if isinstance(node, ast.If) and 'len(remainder_pixels)' in _norm(node.test):
            flush = node
    if flush is None:
        raise Unsupported('final flush of remainder_pixels not found')
    if [_norm(s) for s in flush.body] != ['frames.append(self._encode_pixels_native(remainder_pixels))'] or flush.orelse:
        raise Unsupported('final flush no longer appends the packed remainder')
    joined = [n for n in ast.walk(fn) if isinstance(n, ast.Assign) and _norm(n) == "self.PixelData=b''.join(frames)"]
    if len(joined) != 1:
        raise Unsupported("self.PixelData = b''.join(frames) not found")
    # results of a worker pool are gathered by position (submission order), not in completion order
    gathered = [n for n in ast.walk(fn) if isinstance(n, ast.Assign)
                and _norm(n) == 'frames=[fut.result()forfutinframe_futures]']
    submits = [n for n in ast.walk(fn) if isinstance(n, ast.Expr) and _norm(n) == 'frame_futures.append(future)']
    if len(gathered) != 1 or len(submits) != 1:
        raise Unsupported('frames = [fut.result() for fut in frame_futures] / frame_futures.append(future) not found')
    f = ast.Return(value=flush.test)
    ast.fix_missing_locations(f)
    t3 = translate_block([f], 'segFlushGuard', [], {'len(remainder_pixels)': ('int', 'remainderLen')},
                         doc='after the loop: test under which the packed remainder is appended as a last chunk')
    # ---- (4) trailing pad byte
    pad = None
    for node in ast.walk(fn):
        if isinstance(node, ast.If) and 'len(self.PixelData)' in _norm(node.test):
            pad = node
    if pad is None or len(pad.body) != 1 or pad.orelse:
        raise Unsupported('trailing pad of PixelData not found')
    st = pad.body[0]
    if not (isinstance(st, ast.AugAssign) and isinstance(st.op, ast.Add) and _norm(st.target) == 'self.PixelData'
            and isinstance(st.value, ast.Constant) and isinstance(st.value.value, bytes) and len(st.value.value) == 1):
        raise Unsupported('trailing pad is no longer `self.PixelData += <one byte>`')
    p = ast.Return(value=pad.test)
    ast.fix_missing_locations(p)
    t4 = translate_block([p], 'segPadGuard', [], {'len(self.PixelData)': ('int', 'pixelDataLen')},
                         doc='test under which one trailing byte is appended to PixelData')
    t5 = ('/-- the trailing byte appended when `segPadGuard` holds (as written in the source) -/\n'
          f'def segPadByte : Nat := {st.value.value[0]}')
    # ---- (5) admission of max_fractional_value
    mf = None
    for node in ast.walk(fn):
        if isinstance(node, ast.If) and 'max_fractional_value' in _norm(node.test) and len(node.body) == 1 \
                and isinstance(node.body[0], ast.Raise):
            mf = node
    if mf is None or mf.orelse:
        raise Unsupported('admission test on max_fractional_value not found')
    blk5 = [ast.parse(ast.unparse(mf)).body[0], _ret('max_fractional_value')]
    for s in blk5:
        ast.fix_missing_locations(s)
    t6 = translate_block(blk5, 'segMfvGuard', [('max_fractional_value', 'int')], {},
                         doc='FRACTIONAL: admission test on `max_fractional_value` (result = accepted value)')
    sha = span_sha([flat, guard_if, append, flush, pad, mf])
    return '\n\n'.join([t1, t2, t3, t4, t5, t6]), sha


def _lean_str(x):
    return '"' + x.replace('\\', '\\\\').replace('"', '\\"') + '"'


def build_T21(tree):
    """Cast sites: every statement of `_check_and_cast_pixel_array`, `_combine_segments` and
    `_get_segment_pixel_array` that narrows / rounds / scales pixel values (`astype`, `np.around`, a product with
    `max_fractional_value`, `argmax`/`max` with an `out=` array), in source order, each with the chain of `if` tests
    it sits under.  The hand-written model has a `wrap` exactly at these sites and in this order relative to the
    comparison with the segment number; the list is a literal table the property file pins (`cast_sites_pinned`)."""
    entries = []
    spans = []

    def interesting(node):
        for n in ast.walk(node):
            if isinstance(n, ast.Call):
                f = ast.unparse(n.func)
                if f.endswith('.astype') or f in ('np.around', 'numpy.around', 'np.round', 'np.rint', 'np.floor', 'np.ceil') \
                        or any(k.arg == 'out' for k in n.keywords):
                    return True
            if isinstance(n, ast.BinOp) and isinstance(n.op, ast.Mult) and 'max_fractional_value' in ast.unparse(n):
                return True
            if isinstance(n, ast.AugAssign) and 'max_fractional_value' in ast.unparse(n):
                return True
        return False

    def walk(stmts, ctx, name):
        for st in stmts:
            if isinstance(st, ast.If):
                t = _norm(st.test)
                walk(st.body, ctx + [t], name)
                walk(st.orelse, ctx + ['not(' + t + ')'], name)
            elif isinstance(st, (ast.For, ast.While, ast.With, ast.Try)):
                raise Unsupported(f'{name}: compound statement {type(st).__name__} in a cast-carrying function')
            elif isinstance(st, (ast.Assign, ast.AugAssign, ast.AnnAssign, ast.Return, ast.Expr)):
                if isinstance(st, ast.Expr) and isinstance(st.value, ast.Constant):
                    continue
                if interesting(st):
                    entries.append(f'{name} | {" & ".join(ctx) or "-"} | {_norm(st)}')
            elif isinstance(st, (ast.Raise, ast.Pass)):
                continue
            else:
                raise Unsupported(f'{name}: statement {type(st).__name__} not understood')

    for qual in ('Segmentation._check_and_cast_pixel_array', 'Segmentation._combine_segments',
                 'Segmentation._get_segment_pixel_array'):
        fn = find_func(tree, qual)
        walk(fn.body, [], qual.split('.')[-1])
        spans.append(fn)
    text = ('/-- statements of the cast-carrying functions of seg/sop.py that narrow, round or scale pixel values, in source\n'
            '    order: "function | enclosing if-tests | statement" -/\n'
            'def segCastSites : List String :=\n  [' + ',\n   '.join(_lean_str(e) for e in entries) + ']')
    return text, span_sha(spans)


TARGETS = {
    'T20': {'file': 'seg/sop.py', 'build': build_T20},
    'T21': {'file': 'seg/sop.py', 'build': build_T21},
}
