"""Translation targets of C15 (tie T): the refusal guards of the SR document constructors in sr/sop.py.

T15a  -> Gen.srVerifiedGuard                 the `if is_verified:` guard of `_SR.__init__` (details demanded)
         Gen.srScoord3dGuardEnhanced         `EnhancedSR.__init__`: refusal on SCOORD3D items found
         Gen.srScoord3dGuardComprehensive    `ComprehensiveSR.__init__`: the same
         Gen.srScoord3dGuardComprehensive3D  `Comprehensive3DSR.__init__`: no such guard (accepts any count)

The search call feeding the SCOORD3D guards is part of the translated span: it must still be
`find_content_items(<content>, value_type=ValueTypeValues.SCOORD3D, recursive=True)` (checked textually),
otherwise the target is TRANSLATION-BROKEN.
"""
from __future__ import annotations

import ast
import hashlib

from py2lean import Unsupported, find_func, lean_table, strip_doc, translate_block


def _leading_raises(body):
    """the leading `if <x> is None: raise …` statements of a block"""
    out = []
    for st in body:
        if isinstance(st, ast.If) and not st.orelse and len(st.body) == 1 and isinstance(st.body[0], ast.Raise):
            out.append(st)
        else:
            break
    return out


def _verified_guard(tree):
    fn = find_func(tree, '_SR.__init__')
    target = None
    for node in strip_doc(fn.body):
        if isinstance(node, ast.If) and ast.unparse(node.test) == 'is_verified':
            target = node
    if target is None:
        raise Unsupported('`if is_verified:` not found in _SR.__init__')
    raises = _leading_raises(target.body)
    # what follows the guards must set the flag and record the observer (shape check only)
    rest = ast.unparse(ast.Module(body=target.body[len(raises):], type_ignores=[]))
    for needle in ("self.VerificationFlag = 'VERIFIED'", 'VerifyingObserverName = verifying_observer_name',
                   'VerifyingOrganization = verifying_organization', 'self.VerifyingObserverSequence = [observer_item]'):
        if needle not in rest:
            raise Unsupported(f'verified branch of _SR.__init__ no longer contains `{needle}`')
    if "self.VerificationFlag = 'UNVERIFIED'" not in ast.unparse(ast.Module(body=target.orelse, type_ignores=[])):
        raise Unsupported('unverified branch of _SR.__init__ changed')

    class R(ast.NodeTransformer):
        def visit_Compare(self, node):
            if len(node.ops) == 1 and isinstance(node.ops[0], ast.Is) and isinstance(node.comparators[0], ast.Constant) \
                    and node.comparators[0].value is None and isinstance(node.left, ast.Name):
                nm = {'verifying_observer_name': 'observer_is_none', 'verifying_organization': 'organization_is_none'}.get(node.left.id)
                if nm is None:
                    raise Unsupported(f'guard tests unexpected name {node.left.id}')
                return ast.copy_location(ast.Name(id=nm, ctx=ast.Load()), node)
            return node
    guards = [R().visit(ast.parse(ast.unparse(s)).body[0]) for s in raises]
    block = [ast.If(test=ast.Name(id='is_verified', ctx=ast.Load()), body=guards or [ast.Pass()], orelse=[]),
             ast.parse('return True').body[0]]
    for s in block:
        ast.fix_missing_locations(s)
    text = translate_block(block, 'srVerifiedGuard',
                           [('is_verified', 'bool'), ('observer_is_none', 'bool'), ('organization_is_none', 'bool')], {},
                           doc='`_SR.__init__`: the guards at the head of `if is_verified:` (result `true` = accepted)')
    return text, hashlib.sha256(ast.unparse(target).encode()).hexdigest()


def _scoord3d_guard(tree, cls, lean_name):
    fn = find_func(tree, f'{cls}.__init__')
    body = strip_doc(fn.body)
    assigns = [s for s in body if isinstance(s, ast.Assign) and ast.unparse(s.targets[0]) == 'unsupported_content']
    ifs = [s for s in body if isinstance(s, ast.If) and 'unsupported_content' in ast.unparse(s.test)]
    if not assigns and not ifs:
        block = [ast.parse('return True').body[0]]
        text = translate_block(block, lean_name, [('n_unsupported', 'int')], {},
                               doc=f'`{cls}.__init__`: no SCOORD3D guard in the source')
        return text, hashlib.sha256(b'none').hexdigest()
    if len(assigns) != 1 or len(ifs) != 1:
        raise Unsupported(f'SCOORD3D guard of {cls}.__init__ not found in the expected shape')
    call = assigns[0].value
    if not (isinstance(call, ast.Call) and ast.unparse(call.func) == 'find_content_items'):
        raise Unsupported('unsupported_content is no longer the result of find_content_items')
    kws = {k.arg: ast.unparse(k.value) for k in call.keywords}
    if kws.get('value_type') != 'ValueTypeValues.SCOORD3D' or kws.get('recursive') != 'True' or \
            set(kws) - {'value_type', 'recursive'}:
        raise Unsupported(f'search feeding the SCOORD3D guard changed: {kws}')
    if len(call.args) != 1 or 'content' not in ast.unparse(call.args[0]):
        raise Unsupported('search feeding the SCOORD3D guard no longer searches `content`')
    # the guard must come after the search and the super().__init__ call does not matter for refusal
    block = [ifs[0], ast.parse('return True').body[0]]
    for s in block:
        ast.fix_missing_locations(s)
    text = translate_block(block, lean_name, [], {'len(unsupported_content)': ('int', 'n_unsupported')},
                           doc=f'`{cls}.__init__`: guard on the SCOORD3D items found at any depth (result `true` = accepted)')
    return text, hashlib.sha256((ast.unparse(assigns[0]) + ast.unparse(ifs[0])).encode()).hexdigest()


def build_T15a(tree):
    parts, shas = [], []
    t, s = _verified_guard(tree)
    parts.append(t)
    shas.append(s)
    for cls, nm in (('EnhancedSR', 'srScoord3dGuardEnhanced'), ('ComprehensiveSR', 'srScoord3dGuardComprehensive'),
                    ('Comprehensive3DSR', 'srScoord3dGuardComprehensive3D')):
        t, s = _scoord3d_guard(tree, cls, nm)
        parts.append(t)
        shas.append(s)
    return '\n\n'.join(parts), hashlib.sha256(''.join(shas).encode()).hexdigest()


# ---------------------------------------------------------------- T15b: collect_evidence
def build_T15b(tree):
    """sr/utils.py::collect_evidence: the body of `for evd in evidence:` as a decision over
    (already seen, referenced) and the guard after the loop.

    Gen.evidenceStep (seen referenced : Bool) : (action, mark_seen)   action 0 = skipped, 1 = appended to the
        referenced group, 2 = appended to the unreferenced group; mark_seen = the UID is added to `evd_uids`
    Gen.evidenceGuard (all_referenced_supplied : Bool)                  the `issubset` guard after the loop

    Shape checks (textual, part of the translated span): the membership tests are on `evd.SOPInstanceUID`, the item
    carries class and instance UID of the evidence data set, the key is (StudyInstanceUID, SeriesInstanceUID), both
    groups are turned into items by `_create_references`, and the search collects IMAGE and COMPOSITE items recursively."""
    fn = find_func(tree, 'collect_evidence')
    body = strip_doc(fn.body)
    src = ast.unparse(ast.Module(body=body, type_ignores=[]))
    loops = [s for s in body if isinstance(s, ast.For)]
    if len(loops) != 1 or ast.unparse(loops[0].target) != 'evd' or ast.unparse(loops[0].iter) != 'evidence':
        raise Unsupported('collect_evidence: `for evd in evidence:` not found')
    loop = loops[0]
    for needle in ('evd_item.ReferencedSOPClassUID = evd.SOPClassUID', 'evd_item.ReferencedSOPInstanceUID = evd.SOPInstanceUID',
                   'key = (evd.StudyInstanceUID, evd.SeriesInstanceUID)', 'ref_items = _create_references(ref_group)',
                   'unref_items = _create_references(unref_group)', 'return (ref_items, unref_items)',
                   'evd_uids = set()'):
        if needle not in src:
            raise Unsupported(f'collect_evidence no longer contains `{needle}`')
    searches = [n for n in ast.walk(fn) if isinstance(n, ast.Call) and ast.unparse(n.func) == 'find_content_items']
    kinds = sorted(ast.unparse(k.value) for c in searches for k in c.keywords if k.arg == 'value_type')
    recs = [ast.unparse(k.value) for c in searches for k in c.keywords if k.arg == 'recursive']
    if kinds != ['ValueTypeValues.COMPOSITE', 'ValueTypeValues.IMAGE'] or recs != ['True', 'True'] or \
            any(ast.unparse(c.args[0]) != 'content' for c in searches):
        raise Unsupported(f'collect_evidence: reference search changed ({kinds}, recursive={recs})')
    if 'ref.ReferencedSOPSequence[0].ReferencedSOPInstanceUID' not in src:
        raise Unsupported('collect_evidence: ref_uids is no longer built from ReferencedSOPSequence[0].ReferencedSOPInstanceUID')

    class R(ast.NodeTransformer):
        def visit_Compare(self, node):
            if len(node.ops) == 1 and isinstance(node.ops[0], (ast.In, ast.NotIn)) and ast.unparse(node.left) == 'evd.SOPInstanceUID':
                nm = {'evd_uids': 'seen', 'ref_uids': 'referenced'}.get(ast.unparse(node.comparators[0]))
                if nm is None:
                    raise Unsupported(f'membership test in {ast.unparse(node.comparators[0])}')
                t = ast.Name(id=nm, ctx=ast.Load())
                return ast.UnaryOp(op=ast.Not(), operand=t) if isinstance(node.ops[0], ast.NotIn) else t
            return node

        def visit_Continue(self, node):
            return ast.parse('return (0, False)').body[0]

        def visit_Expr(self, node):
            t = ast.unparse(node)
            if t == 'ref_group[key].append(evd_item)':
                return ast.parse('action = 1').body[0]
            if t == 'unref_group[key].append(evd_item)':
                return ast.parse('action = 2').body[0]
            if t == 'evd_uids.add(evd.SOPInstanceUID)':
                return ast.parse('mark = True').body[0]
            return node

        def visit_Assign(self, node):
            t = ast.unparse(node.targets[0])
            if t in ('evd_item', 'key') or t.startswith('evd_item.'):
                return None
            return node
    stmts = []
    for st in loop.body:
        r = R().visit(ast.parse(ast.unparse(st)).body[0])
        if r is not None:
            stmts.append(r)
    block = [ast.parse('action = 0').body[0], ast.parse('mark = False').body[0]] + stmts + [ast.parse('return (action, mark)').body[0]]
    for s_ in block:
        ast.fix_missing_locations(s_)
    t1 = translate_block(block, 'evidenceStep', [('seen', 'bool'), ('referenced', 'bool')], {},
                         doc='`collect_evidence`: body of `for evd in evidence` -> (action, mark_seen); action 0 skip, 1 referenced '
                             'group, 2 unreferenced group')
    after = body[body.index(loop) + 1:]
    guards = [s_ for s_ in after if isinstance(s_, ast.If)]
    if len(guards) != 1 or ast.unparse(guards[0].test) != 'not ref_uids.issubset(evd_uids)':
        raise Unsupported('collect_evidence: guard `if not ref_uids.issubset(evd_uids)` after the loop not found')
    g = ast.parse(ast.unparse(guards[0])).body[0]
    g.test = ast.UnaryOp(op=ast.Not(), operand=ast.Name(id='all_referenced_supplied', ctx=ast.Load()))
    g.body = [s_ for s_ in g.body if isinstance(s_, ast.Raise)]
    if len(g.body) != 1:
        raise Unsupported('collect_evidence: guard body no longer raises')
    gb = [g, ast.parse('return True').body[0]]
    for s_ in gb:
        ast.fix_missing_locations(s_)
    t2 = translate_block(gb, 'evidenceGuard', [('all_referenced_supplied', 'bool')], {},
                         doc='`collect_evidence`: the guard after the loop (every referenced UID was supplied)')
    return t1 + '\n\n' + t2, hashlib.sha256(ast.unparse(fn).encode()).hexdigest()


# ---------------------------------------------------------------- T15c: the three tests of find_content_items
def build_T15c(tree):
    """sr/utils.py::find_content_items: the nested predicates `has_name`, `has_value_type`, `has_relationship_type`
    and the conjunction applied to every item.
      Gen.findHasName (given equal : Bool)                  `name is None` / `item.name == name`
      Gen.findHasValueType (given equal : Bool)
      Gen.findHasRelationshipType (given item_has equal : Bool)
    plus shape checks: the item is appended iff all three hold; children are searched iff the item has a ContentSequence and
    `recursive`; matches are appended before the children's matches (document order)."""
    outer = find_func(tree, 'find_content_items')
    parts, shas = [], []

    def pred(qual, lean_name, arg, params, extra=None):
        fn = find_func(tree, f'find_content_items.{qual}')
        body = strip_doc(fn.body)

        class R(ast.NodeTransformer):
            def visit_Compare(self, node):
                t = ast.unparse(node)
                if t == f'{arg} is None':
                    return ast.UnaryOp(op=ast.Not(), operand=ast.Name(id='given', ctx=ast.Load()))
                if t in (f'item.{arg} == {arg}', 'item.name == name'):
                    return ast.Name(id='equal', ctx=ast.Load())
                if extra and t == extra[0]:
                    return ast.Name(id=extra[1], ctx=ast.Load())
                return node

            def visit_Assign(self, node):
                # `value_type = ValueTypeValues(value_type)`: normalisation of the query argument
                if isinstance(node.value, ast.Call) and ast.unparse(node.targets[0]) == arg and ast.unparse(node.value.args[0]) == arg:
                    return None
                return node
        stmts = [x for x in (R().visit(ast.parse(ast.unparse(st)).body[0]) for st in body) if x is not None]
        for x in stmts:
            ast.fix_missing_locations(x)
        parts.append(translate_block(stmts, lean_name, params, {}, doc=f'`find_content_items.{qual}`'))
        shas.append(ast.unparse(fn))
    pred('has_name', 'findHasName', 'name', [('given', 'bool'), ('equal', 'bool')])
    pred('has_value_type', 'findHasValueType', 'value_type', [('given', 'bool'), ('equal', 'bool')])
    pred('has_relationship_type', 'findHasRelationshipType', 'relationship_type',
         [('given', 'bool'), ('item_has_none', 'bool'), ('equal', 'bool')],
         extra=("getattr(item, 'relationship_type', None) is None", 'item_has_none'))
    st = find_func(tree, 'find_content_items.search_tree')
    src = ast.unparse(st)
    norm = ' '.join(src.split())
    for needle in ('for content_item in node.ContentSequence:',
                   'if has_name(item, name) and has_value_type(item, value_type) and has_relationship_type(item, relationship_type): '
                   'matched_content_items.append(content_item)',
                   "if hasattr(content_item, 'ContentSequence') and recursive: matched_content_items += search_tree(",
                   'return matched_content_items'):
        if needle not in norm:
            raise Unsupported(f'find_content_items.search_tree no longer contains `{needle}`')
    if norm.index('matched_content_items.append(content_item)') > norm.index('matched_content_items += search_tree('):
        raise Unsupported('search_tree: children are collected before the item itself')
    if "if not hasattr(dataset, 'ContentSequence'): raise AttributeError(" not in ' '.join(ast.unparse(outer).split()):
        raise Unsupported('find_content_items: guard on the ContentSequence attribute changed')
    # an item without concept name: the value types that may lack one and the name that stands in (module constants)
    if ("if not hasattr(content_item, 'ConceptNameCodeSequence') and content_item.ValueType in _VALUE_TYPES_WITH_OPTIONAL_NAME: "
            "name_code = _DEFAULT_NAME else: name_code = content_item.ConceptNameCodeSequence[0]") not in norm:
        raise Unsupported('find_content_items.search_tree: the handling of an item without concept name changed')
    consts = {}
    for st_ in tree.body:
        if isinstance(st_, ast.Assign) and len(st_.targets) == 1 and isinstance(st_.targets[0], ast.Name):
            consts[st_.targets[0].id] = st_.value
    vts = consts.get('_VALUE_TYPES_WITH_OPTIONAL_NAME')
    dn = consts.get('_DEFAULT_NAME')
    if not (isinstance(vts, ast.Tuple) and all(isinstance(e, ast.Constant) and isinstance(e.value, str) for e in vts.elts)):
        raise Unsupported('sr/utils.py: _VALUE_TYPES_WITH_OPTIONAL_NAME is no longer a tuple of value types')
    kw = {k.arg: k.value.value for k in dn.keywords if isinstance(k.value, ast.Constant)} if isinstance(dn, ast.Call) else {}
    if not isinstance(dn, ast.Call) or ast.unparse(dn.func) != 'CodedConcept' or set(kw) != {'value', 'scheme_designator', 'meaning'}:
        raise Unsupported('sr/utils.py: _DEFAULT_NAME is no longer CodedConcept(value=..., scheme_designator=..., meaning=...)')
    parts.append(lean_table('findOptionalNameValueTypes', 'List String', ['"' + e.value + '"' for e in vts.elts],
                            doc='`find_content_items`: value types whose items may lack a concept name (the default name stands in)'))
    parts.append('/-- `find_content_items`: the name that stands in for a missing concept name (value|scheme|meaning) -/\n'
                 f'def findDefaultName : String := "{kw["value"]}|{kw["scheme_designator"]}|{kw["meaning"]}"')
    shas.append(src + ast.unparse(vts) + ast.unparse(dn))
    return '\n\n'.join(parts), hashlib.sha256(''.join(shas).encode()).hexdigest()


# ---------------------------------------------------------------- T15d: attributes of the parsed root item
def build_T15d(tree):
    """sr/sop.py::_SR.from_dataset: which attributes of the document are put on the root content item that `.content`
    exposes, and from which object they are taken.
      Gen.srParsedRootAttributes : List (String × Bool)   (keyword, copied only when present)
      Gen.srParsedRootSource : String                     the object every one of them is read from
    Shape checks: the template identification is copied before (outside) the test for TID 1500; all three parser calls
    get `[root_item]` and `copy=False`."""
    from py2lean import lean_table
    fn = find_func(tree, '_SR.from_dataset')
    body = strip_doc(fn.body)
    rows, sources = [], set()

    def take(st, conditional):
        if isinstance(st, ast.Assign) and isinstance(st.targets[0], ast.Attribute) and ast.unparse(st.targets[0].value) == 'root_item' \
                and isinstance(st.value, ast.Attribute) and st.value.attr == st.targets[0].attr:
            rows.append((st.targets[0].attr, conditional))
            sources.add(ast.unparse(st.value.value))
            return True
        return False
    for st in body:
        if take(st, False):
            continue
        if isinstance(st, ast.For) and isinstance(st.iter, (ast.Tuple, ast.List)) and ast.unparse(st.target) == 'keyword':
            txt = ' '.join(ast.unparse(st).split())
            m = None
            for src_name in ('sop_instance', 'dataset'):
                if f'if keyword in {src_name}: setattr(root_item, keyword, {src_name}[keyword].value)' in txt:
                    m = src_name
            if m is None:
                raise Unsupported('from_dataset: keyword loop changed')
            sources.add(m)
            for e in st.iter.elts:
                rows.append((e.value, True))
        if isinstance(st, ast.Try):
            first = st.body[0]
            if not take(first, True) or rows[-1][0] != 'ContentTemplateSequence':
                raise Unsupported('from_dataset: the try block no longer starts by copying ContentTemplateSequence onto the root item')
            txt = ' '.join(ast.unparse(st).split())
            if txt.count('[root_item]') != 3 or txt.count('copy=False') != 3:
                raise Unsupported('from_dataset: parser calls changed')
            if "tid_item.TemplateIdentifier == '1500'" not in txt or 'except AttributeError' not in txt:
                raise Unsupported('from_dataset: TID 1500 dispatch changed')
    if len(sources) != 1:
        raise Unsupported(f'from_dataset: root attributes are read from several objects: {sorted(sources)}')
    t1 = lean_table('srParsedRootAttributes', 'List (String × Bool)',
                    [f'("{k}", {"true" if c else "false"})' for k, c in rows],
                    doc='`_SR.from_dataset`: attributes put on the parsed root content item (keyword, only when present)')
    t2 = f'/-- `_SR.from_dataset`: the object the root attributes are read from -/\ndef srParsedRootSource : String := "{sources.pop()}"'
    return t1 + '\n\n' + t2, hashlib.sha256(ast.unparse(fn).encode()).hexdigest()


# ---------------------------------------------------------------- T15e: enumerations of sr/enum.py used by C15/C16
def _enum_values(tree, cls):
    for st in tree.body:
        if isinstance(st, ast.ClassDef) and st.name == cls:
            out = []
            for x in st.body:
                if isinstance(x, ast.Assign) and isinstance(x.value, ast.Constant) and isinstance(x.value.value, str) \
                        and isinstance(x.targets[0], ast.Name):
                    out.append(x.value.value)
            if not out:
                raise Unsupported(f'{cls} has no string members')
            return out
    raise Unsupported(f'enumeration {cls} not found')


def build_T15e(tree):
    """sr/enum.py: the values of ValueTypeValues, RelationshipTypeValues, GraphicTypeValues, GraphicTypeValues3D
    (what `ValueTypeValues(x)` etc. accept)."""
    from py2lean import lean_table
    parts, vals = [], []
    for cls, nm in (('ValueTypeValues', 'srValueTypes'), ('RelationshipTypeValues', 'srRelationshipTypes'),
                    ('GraphicTypeValues', 'srGraphicTypes2D'), ('GraphicTypeValues3D', 'srGraphicTypes3D')):
        v = _enum_values(tree, cls)
        vals.append(v)
        parts.append(lean_table(nm, 'List String', ['"' + x + '"' for x in v], doc=f'`sr/enum.py::{cls}`: the values'))
    return '\n\n'.join(parts), hashlib.sha256(repr(vals).encode()).hexdigest()


# ---------------------------------------------------------------- T15f / T15g / T15h: bridges for hand-written definitions
def _norm(node):
    return ' '.join(ast.unparse(node).split())


def _one(seq, pred, what):
    hits = [x for x in seq if pred(x)]
    if len(hits) != 1:
        raise Unsupported(f'expected exactly one {what}, found {len(hits)}')
    return hits[0]


def _parse(text):
    body = ast.parse(text).body
    for st in body:
        ast.fix_missing_locations(st)
    return body


def _range_guard(loop, var, what):
    """`if <var> < 1 or <var> > <n>: raise …` followed by `<index> = <var> - 1` at the head of a loop body:
    (guard statement, index expression)"""
    g = loop.body[0]
    if not (isinstance(g, ast.If) and not g.orelse and len(g.body) == 1 and isinstance(g.body[0], ast.Raise) and var in _norm(g.test)):
        raise Unsupported(f'{what}: the loop over the named frames no longer starts with the range guard')
    idx = loop.body[1]
    if not (isinstance(idx, ast.Assign) and isinstance(idx.targets[0], ast.Name) and var in _norm(idx.value)):
        raise Unsupported(f'{what}: the 0-based index is no longer computed right after the range guard')
    item = loop.body[2]
    if not (isinstance(item, ast.Assign) and _norm(item.value) == f'segmentation.PerFrameFunctionalGroupsSequence[{idx.targets[0].id}]'):
        raise Unsupported(f'{what}: the frame item is no longer PerFrameFunctionalGroupsSequence[{idx.targets[0].id}]')
    return g, idx


def build_T15f(tree):
    """sr/content.py::ReferencedSegmentationFrame.from_segmentation, expression by expression (bridge for the hand-written
    segFrameNumbers / segFrameLoop / segFrameSource / segFrameSegment of Model/SREvidence.lean, Proofs/SegRefTie.lean):
      Gen.segFrameOwnGuard (n_frames tiled)        the frames of the segment found when no frame number is given: refusals
      Gen.segFrameIndex (frame_number number_of_frames)   range guard of the loop over the named frames and the 0-based index
      Gen.segFrameStep (has_drv n_drv has_src n_src uids_none uids_differ has_frames) -> (set source uids, union frame numbers,
                                                    whole image): the loop body after the segment number was recorded
      Gen.segFrameNameFrames (n_source_frames whole)      whether the source image is named with frame numbers
      Gen.segFrameFallback (has_refseries has_refinstances n_instances)  the referenced-series fallback (true = its single instance)
      Gen.segFrameSegmentCheck (n_segments requested differs)            the checks on the collected segment numbers"""
    fn = find_func(tree, 'ReferencedSegmentationFrame.from_segmentation')
    body = strip_doc(fn.body)
    texts = []
    # ---- frame numbers of the segment when none are given
    first = _one(body, lambda s: isinstance(s, ast.If) and _norm(s.test) == 'frame_number is None', '`if frame_number is None`')
    own = _one(first.body, lambda s: isinstance(s, ast.If) and 'len(frame_numbers)' in _norm(s.test), 'test on the frames of the segment')
    comp = _one(first.body, lambda s: isinstance(s, ast.Assign) and _norm(s.targets[0]) == 'frame_numbers', 'assignment of frame_numbers')
    want = ('[i + 1 for i, item in enumerate(segmentation.PerFrameFunctionalGroupsSequence) if segment_number == '
            'item.SegmentIdentificationSequence[0].ReferencedSegmentNumber]')
    if _norm(comp.value) != want:
        raise Unsupported('from_segmentation: the frames of the segment are no longer the 1-based positions of the items naming it')
    texts.append(translate_block([own] + _parse('return True'), 'segFrameOwnGuard', [],
                                 {'len(frame_numbers)': ('int', 'n_frames'), "hasattr(segmentation, 'TotalPixelMatrixRows')": ('bool', 'tiled')},
                                 doc='`ReferencedSegmentationFrame.from_segmentation`: refusals on the frames found for the segment'))
    # ---- the loop over the named frames
    loop = _one(body, lambda s: isinstance(s, ast.For) and _norm(s.iter) == 'frame_numbers', '`for frame_number in frame_numbers`')
    var = _norm(loop.target)
    nof = _one(body, lambda s: isinstance(s, ast.Assign) and _norm(s.targets[0]) == 'number_of_frames', 'assignment of number_of_frames')
    if _norm(nof.value) != 'int(segmentation.NumberOfFrames)':
        raise Unsupported('from_segmentation: number_of_frames is no longer int(segmentation.NumberOfFrames)')
    g, idx = _range_guard(loop, var, 'ReferencedSegmentationFrame.from_segmentation')
    texts.append(translate_block([g, ast.fix_missing_locations(ast.Return(value=idx.value))], 'segFrameIndex',
                                 [(var, 'int'), ('number_of_frames', 'int')], {},
                                 doc='`ReferencedSegmentationFrame.from_segmentation`: range guard on a named frame number, then the 0-based index'))
    if _norm(loop.body[3]) != 'segment_numbers.append(item.SegmentIdentificationSequence[0].ReferencedSegmentNumber)':
        raise Unsupported('from_segmentation: the segment number of every named frame is no longer recorded first')
    if len(loop.body) != 5:
        raise Unsupported('from_segmentation: the loop body changed shape')
    drv = loop.body[4]
    if not (isinstance(drv, ast.If) and _norm(drv.test) == "hasattr(item, 'DerivationImageSequence')" and not drv.orelse):
        raise Unsupported('from_segmentation: `if hasattr(item, "DerivationImageSequence")` not found')

    class R(ast.NodeTransformer):
        """state updates -> flags; reads of the data set -> dropped (their values are the parameters)"""
        def visit_Assign(self, node):
            t, v = _norm(node.targets[0]), _norm(node.value)
            if (t, v) in (('drv_image', 'item.DerivationImageSequence[0]'), ('src', 'drv_image.SourceImageSequence[0]'),
                          ('src_uids', '(src.ReferencedSOPClassUID, src.ReferencedSOPInstanceUID)'),
                          ('src_frame_numbers', "getattr(src, 'ReferencedFrameNumber', None)")):
                return None
            if (t, v) == ('source_image_uids', 'src_uids'):
                return _parse('set_uids = True')[0]
            if (t, v) == ('source_is_whole_image', 'True'):
                return _parse('whole = True')[0]
            raise Unsupported(f'from_segmentation: unexpected assignment `{t} = {v}` in the loop')

        def visit_If(self, node):
            if _norm(node.test) == "src['ReferencedFrameNumber'].VM == 1":
                if _norm(node) != "if src['ReferencedFrameNumber'].VM == 1: src_frame_numbers = [src_frame_numbers]" or node.orelse:
                    raise Unsupported('from_segmentation: normalisation of a single source frame number changed')
                return None
            self.generic_visit(node)
            return node

        def visit_For(self, node):
            # order-preserving union: an insertion-ordered dict keyed by the frame numbers (was: a list with a membership test)
            if _norm(node) != 'for f in src_frame_numbers: source_frame_numbers.setdefault(f, None)':
                raise Unsupported('from_segmentation: the union of the source frame numbers changed')
            return _parse('union = True')[0]
    step = R().visit(ast.parse(ast.unparse(drv)).body[0])
    blk = _parse('set_uids = False\nunion = False\nwhole = False') + [ast.fix_missing_locations(step)] + _parse('return (set_uids, union, whole)')
    texts.append(translate_block(blk, 'segFrameStep', [],
                                 {"hasattr(item, 'DerivationImageSequence')": ('bool', 'has_drv'),
                                  'len(item.DerivationImageSequence)': ('int', 'n_drv'),
                                  "hasattr(drv_image, 'SourceImageSequence')": ('bool', 'has_src'),
                                  'len(drv_image.SourceImageSequence)': ('int', 'n_src'),
                                  'source_image_uids is None': ('bool', 'uids_none'),
                                  'src_uids != source_image_uids': ('bool', 'uids_differ'),
                                  'src_frame_numbers is not None': ('bool', 'has_frames')},
                                 doc='`ReferencedSegmentationFrame.from_segmentation`: the loop body on the derivation of one named frame -> '
                                     '(source uids are set, its frame numbers are united into the list, derived from the whole image)'))
    # ---- how the source image is named
    after = body[body.index(loop) + 1:]
    mk = _one(after, lambda s: isinstance(s, ast.If) and _norm(s.test) == 'source_image_uids is not None', '`if source_image_uids is not None`')
    call = mk.body[0].value if len(mk.body) == 1 and isinstance(mk.body[0], ast.Assign) else None
    if not (isinstance(call, ast.Call) and _norm(call.func) == 'SourceImageForSegmentation' and len(call.args) == 3
            and [_norm(a) for a in call.args[:2]] == ['source_image_uids[0]', 'source_image_uids[1]'] and isinstance(call.args[2], ast.IfExp)):
        raise Unsupported('from_segmentation: construction of the source image changed')
    ife = call.args[2]
    if _norm(ife.body) != 'list(source_frame_numbers)' or _norm(ife.orelse) != 'None':
        raise Unsupported('from_segmentation: the source frame numbers handed to SourceImageForSegmentation changed')
    acc = _one(body, lambda s: isinstance(s, ast.AnnAssign) and _norm(s.target) == 'source_frame_numbers', 'initialisation of source_frame_numbers')
    if _norm(acc.value) != '{}':
        raise Unsupported('from_segmentation: source_frame_numbers no longer starts as an empty (insertion-ordered) dict')

    class L(ast.NodeTransformer):
        def visit_Name(self, node):
            if node.id == 'source_frame_numbers':
                return ast.parse('n_source_frames > 0', mode='eval').body
            return node
    test = L().visit(ast.parse(ast.unparse(ife.test), mode='eval').body)
    texts.append(translate_block([ast.fix_missing_locations(ast.If(test=test, body=_parse('return True'), orelse=_parse('return False')))],
                                 'segFrameNameFrames', [('n_source_frames', 'int'), ('source_is_whole_image', 'bool')], {},
                                 doc='`ReferencedSegmentationFrame.from_segmentation`: true = the source image is named with the collected frame '
                                     'numbers, false = as a whole'))
    # ---- fallback and segment checks
    fb = _one(after, lambda s: isinstance(s, ast.If) and _norm(s.test) == 'not found_source_image', '`if not found_source_image`')
    fnd = _one(after, lambda s: isinstance(s, ast.Assign) and _norm(s.targets[0]) == 'found_source_image', 'assignment of found_source_image')
    if _norm(fnd.value) != 'source_image_uids is not None':
        raise Unsupported('from_segmentation: found_source_image changed')

    class F(ast.NodeTransformer):
        def visit_Assign(self, node):
            t, v = _norm(node.targets[0]), _norm(node.value)
            if (t, v) in (('ref_series', 'segmentation.ReferencedSeriesSequence[0]'), ('src', 'ref_series.ReferencedInstanceSequence[0]')):
                return None
            if (t, v) == ('source_image', 'SourceImageForSegmentation(src.ReferencedSOPClassUID, src.ReferencedSOPInstanceUID)'):
                return _parse('return True')[0]
            raise Unsupported(f'from_segmentation: unexpected assignment `{t} = {v}` in the fallback')
    fbb = [F().visit(ast.parse(ast.unparse(st)).body[0]) for st in fb.body]
    texts.append(translate_block([ast.fix_missing_locations(x) for x in fbb if x is not None], 'segFrameFallback', [],
                                 {"hasattr(segmentation, 'ReferencedSeriesSequence')": ('bool', 'has_refseries'),
                                  "hasattr(ref_series, 'ReferencedInstanceSequence')": ('bool', 'has_refinstances'),
                                  'len(ref_series.ReferencedInstanceSequence)': ('int', 'n_instances')},
                                 doc='`ReferencedSegmentationFrame.from_segmentation`: no source image in the named frames -> the single '
                                     'instance of the referenced series (true) or a refusal'))
    dd = _one(after, lambda s: isinstance(s, ast.Assign) and _norm(s.targets[0]) == 'segment_numbers', 'deduplication of segment_numbers')
    if _norm(dd.value) != 'list(set(segment_numbers))':
        raise Unsupported('from_segmentation: segment numbers are no longer deduplicated')
    checks = [s for s in after[after.index(dd) + 1:] if isinstance(s, ast.If)]
    if len(checks) != 2:
        raise Unsupported('from_segmentation: the two checks on the segment numbers not found')
    texts.append(translate_block(checks + _parse('return True'), 'segFrameSegmentCheck', [],
                                 {'len(segment_numbers)': ('int', 'n_segments'), 'segment_number is not None': ('bool', 'requested'),
                                  'segment_numbers[0] != segment_number': ('bool', 'differs')},
                                 doc='`ReferencedSegmentationFrame.from_segmentation`: the checks on the distinct segment numbers of the named frames'))
    ret = after[-1]
    rt = _norm(ret)
    for needle in ('frame_number=frame_numbers if len(frame_numbers) > 1 else frame_numbers[0]', 'segment_number=segment_numbers[0]',
                   'source_image=source_image', 'sop_instance_uid=segmentation.SOPInstanceUID'):
        if needle not in rt:
            raise Unsupported(f'from_segmentation: the reference is no longer built with `{needle}`')
    return '\n\n'.join(texts), hashlib.sha256(ast.unparse(fn).encode()).hexdigest()


def build_T15g(tree):
    """sr/content.py::ReferencedSegment.from_segmentation (bridge for namedFrames / mergeSrc / mergeFrames / refSegment):
      Gen.segRefIndex (f number_of_frames)          range guard on a named frame number and the 0-based index
      Gen.segRefSegmentGuard (ref_segment segment_number)   the named frame must belong to the segment
      Gen.segRefOwnGuard (n_frames)                 no frame number given: the segment must have frames
      Gen.segRefMerge (known known_none ref_none)   per source image: 0 = first mention (entry [class, frames]), 1 = the whole
                                                    instance from now on, 2 = union of the frame numbers
      Gen.segRefFallback (n_sources has_refseries has_refinstances has_series_uid)  0 = sources of the frames, 1 = instances of
                                                    the referenced series, 2 = the referenced series itself"""
    fn = find_func(tree, 'ReferencedSegment.from_segmentation')
    body = strip_doc(fn.body)
    texts = []
    sel = _one(body, lambda s: isinstance(s, ast.If) and _norm(s.test) == 'frame_numbers is not None', '`if frame_numbers is not None`')
    loop = _one(sel.body, lambda s: isinstance(s, ast.For), 'loop over the named frames')
    if _norm(loop.iter) != 'frame_numbers':
        raise Unsupported('ReferencedSegment.from_segmentation: the loop no longer runs over frame_numbers')
    var = _norm(loop.target)
    g, idx = _range_guard(loop, var, 'ReferencedSegment.from_segmentation')
    texts.append(translate_block([g, ast.fix_missing_locations(ast.Return(value=idx.value))], 'segRefIndex', [(var, 'int')],
                                 {'segmentation.NumberOfFrames': ('int', 'number_of_frames')},
                                 doc='`ReferencedSegment.from_segmentation`: range guard on a named frame number, then the 0-based index'))
    rest = loop.body[3:]
    if [_norm(x) for x in rest[::2]] != ['ref_segment = frame_info.SegmentIdentificationSequence[0].ReferencedSegmentNumber',
                                         'referenced_frame_info.append(frame_info)'] or len(rest) != 3:
        raise Unsupported('ReferencedSegment.from_segmentation: the body of the loop over the named frames changed shape')
    texts.append(translate_block([rest[1]] + _parse('return True'), 'segRefSegmentGuard', [('ref_segment', 'int'), ('segment_number', 'int')], {},
                                 doc='`ReferencedSegment.from_segmentation`: a named frame of another segment is refused'))
    comp = _one(sel.orelse, lambda s: isinstance(s, ast.Assign) and _norm(s.targets[0]) == 'referenced_frame_info', 'frames of the segment')
    if _norm(comp.value) != ('[frame_info for frame_info in segmentation.PerFrameFunctionalGroupsSequence if '
                             'frame_info.SegmentIdentificationSequence[0].ReferencedSegmentNumber == segment_number]'):
        raise Unsupported('ReferencedSegment.from_segmentation: the frames of the segment are no longer the items naming it')
    own = _one(sel.orelse, lambda s: isinstance(s, ast.If), 'test on the frames of the segment')
    texts.append(translate_block([own] + _parse('return True'), 'segRefOwnGuard', [], {'len(referenced_frame_info)': ('int', 'n_frames')},
                                 doc='`ReferencedSegment.from_segmentation`: a segment without frames is refused'))
    # ---- the per-instance table
    gather = _one(body, lambda s: isinstance(s, ast.For) and _norm(s.iter) == 'referenced_frame_info', 'loop over the referenced frames')
    l2 = gather.body[0] if len(gather.body) == 1 else None
    if not (isinstance(l2, ast.For) and _norm(l2.iter) == "getattr(frame_info, 'DerivationImageSequence', [])" and len(l2.body) == 1
            and isinstance(l2.body[0], ast.For) and _norm(l2.body[0].iter) == "getattr(drv_image, 'SourceImageSequence', [])"):
        raise Unsupported('ReferencedSegment.from_segmentation: every source image of every derivation item is no longer visited')
    inner = l2.body[0].body
    heads = [_norm(x) for x in inner[:3]]
    if heads != ['ins_uid = src_image.ReferencedSOPInstanceUID', 'cls_uid = src_image.ReferencedSOPClassUID',
                 "ref_frames = getattr(src_image, 'ReferencedFrameNumber', None)"] or len(inner) != 5:
        raise Unsupported('ReferencedSegment.from_segmentation: the reads of a source image changed')
    if _norm(inner[3]) != ("if ref_frames is not None: if src_image['ReferencedFrameNumber'].VM == 1: ref_frames = [ref_frames] "
                           'else: ref_frames = list(ref_frames)'):
        raise Unsupported('ReferencedSegment.from_segmentation: normalisation of the source frame numbers changed')

    class M(ast.NodeTransformer):
        def visit_Assign(self, node):
            t, v = _norm(node.targets[0]), _norm(node.value)
            if (t, v) == ('source_info[ins_uid]', '[cls_uid, ref_frames, set(ref_frames) if ref_frames is not None else None]'):
                return _parse('return 0')[0]
            if (t, v) in (('known_frames', 'source_info[ins_uid][1]'), ('seen_frames', 'source_info[ins_uid][2]')):
                return None
            if (t, v) == ('source_info[ins_uid][1]', 'None'):
                return _parse('return 1')[0]
            raise Unsupported(f'ReferencedSegment.from_segmentation: unexpected assignment `{t} = {v}` in the merge')

        def visit_For(self, node):
            # order-preserving union: the list of the entry, with the set of the entry for the membership test
            if _norm(node) != 'for f in ref_frames: if f not in seen_frames: seen_frames.add(f) known_frames.append(f)':
                raise Unsupported('ReferencedSegment.from_segmentation: the union of the source frame numbers changed')
            return _parse('return 2')[0]
    merge = M().visit(ast.parse(ast.unparse(inner[4])).body[0])
    texts.append(translate_block([ast.fix_missing_locations(merge)], 'segRefMerge', [],
                                 {'ins_uid not in source_info': ('bool', 'is_new'), 'known_frames is None': ('bool', 'known_none'),
                                  'ref_frames is None': ('bool', 'ref_none')},
                                 doc='`ReferencedSegment.from_segmentation`: a source image meets the per-instance table: 0 = new entry, 1 = whole '
                                     'instance from now on, 2 = union of the frame numbers'))
    emit = _one(body, lambda s: isinstance(s, ast.For) and _norm(s.iter) == 'source_info.items()', 'loop over source_info')
    if _norm(emit) != ('for ins_uid, (cls_uid, ref_frames, _) in source_info.items(): source_images.append(SourceImageForSegmentation('
                       'referenced_sop_class_uid=cls_uid, referenced_sop_instance_uid=ins_uid, referenced_frame_numbers=ref_frames))'):
        raise Unsupported('ReferencedSegment.from_segmentation: the source images are no longer the entries of source_info in order')
    # ---- fallback
    fb = _one(body, lambda s: isinstance(s, ast.If) and _norm(s.test) == 'len(source_images) == 0', '`if len(source_images) == 0`')

    class F(ast.NodeTransformer):
        def visit_Assign(self, node):
            t, v = _norm(node.targets[0]), _norm(node.value)
            if (t, v) == ('ref_series', 'segmentation.ReferencedSeriesSequence[0]'):
                return None
            if t == 'source_images' and v == ('[SourceImageForSegmentation(s.ReferencedSOPClassUID, s.ReferencedSOPInstanceUID) for s in '
                                             'ref_series.ReferencedInstanceSequence]'):
                return _parse('return 1')[0]
            if (t, v) == ('source_series', 'SourceSeriesForSegmentation(ref_series.SeriesInstanceUID)'):
                return _parse('return 2')[0]
            raise Unsupported(f'ReferencedSegment.from_segmentation: unexpected assignment `{t} = {v}` in the fallback')
    fbn = F().visit(ast.parse(ast.unparse(fb)).body[0])
    texts.append(translate_block([ast.fix_missing_locations(fbn)] + _parse('return 0'), 'segRefFallback', [],
                                 {'len(source_images)': ('int', 'n_sources'), "hasattr(segmentation, 'ReferencedSeriesSequence')": ('bool', 'has_refseries'),
                                  "hasattr(ref_series, 'ReferencedInstanceSequence')": ('bool', 'has_refinstances'),
                                  "hasattr(ref_series, 'SeriesInstanceUID')": ('bool', 'has_series_uid')},
                                 doc='`ReferencedSegment.from_segmentation`: 0 = the sources found in the frames, 1 = the instances of the referenced '
                                     'series, 2 = the referenced series'))
    rt = _norm(body[-1])
    for needle in ('segment_number=segment_number', 'frame_numbers=frame_numbers', 'source_images=source_images if source_images else None',
                   'source_series=source_series', 'sop_instance_uid=segmentation.SOPInstanceUID'):
        if needle not in rt:
            raise Unsupported(f'ReferencedSegment.from_segmentation: the reference is no longer built with `{needle}`')
    return '\n\n'.join(texts), hashlib.sha256(ast.unparse(fn).encode()).hexdigest()


def build_T15h(tree):
    """sr/sop.py::_SR.__init__ (bridge for the hand-written buildSR): the guards that are not part of T15a and what is recorded.
      Gen.srEvidenceGuard (n_evidence)                     `if len(evidence) == 0`
      Gen.srContentGuard (is_sequence n_content)           a sequence must hold exactly one root
      Gen.srRecordCurrent (n_ref_items)                    whether CurrentRequestedProcedureEvidenceSequence is set
      Gen.srRecordOther (n_unref_items record_evidence)    whether PertinentOtherEvidenceSequence is set
      Gen.srRecordPredecessors (has_previous)              whether PredecessorDocumentsSequence is set
    plus the order of these steps and what the attributes are set to (shape checks)."""
    fn = find_func(tree, '_SR.__init__')
    body = strip_doc(fn.body)
    texts = []
    ev = _one(body, lambda s: isinstance(s, ast.If) and 'len(evidence)' in _norm(s.test), 'guard on the evidence list')
    texts.append(translate_block([ev] + _parse('return True'), 'srEvidenceGuard', [], {'len(evidence)': ('int', 'n_evidence')},
                                 doc='`_SR.__init__`: an empty evidence list is refused'))
    cs = _one(body, lambda s: isinstance(s, ast.If) and _norm(s.test) == 'isinstance(content, DataElementSequence)', 'test for a sequence')
    if _norm(cs.body[-1]) != 'content = content[0]' or cs.orelse or len(cs.body) != 2:
        raise Unsupported('_SR.__init__: a sequence is no longer replaced by its first item after the length check')
    texts.append(translate_block([cs.body[0]] + _parse('return True'), 'srContentGuard', [], {'len(content)': ('int', 'n_content')},
                                 doc='`_SR.__init__`: number of root items of a content sequence'))
    col = _one(body, lambda s: isinstance(s, ast.Assign) and 'collect_evidence' in _norm(s.value), 'call of collect_evidence')
    if _norm(col) != 'ref_items, unref_items = collect_evidence(evidence, content)':
        raise Unsupported('_SR.__init__: collect_evidence is no longer called with (evidence, content) / unpacked as (referenced, unreferenced)')
    k = body.index(col)
    cur, oth = body[k + 1], body[k + 2]
    if not (isinstance(cur, ast.If) and _norm(cur.body[0]) == 'self.CurrentRequestedProcedureEvidenceSequence = ref_items' and not cur.orelse
            and len(cur.body) == 1):
        raise Unsupported('_SR.__init__: recording of the current-procedure evidence changed')
    if not (isinstance(oth, ast.If) and _norm(oth.body[0]) == 'self.PertinentOtherEvidenceSequence = unref_items' and not oth.orelse
            and len(oth.body) == 1):
        raise Unsupported('_SR.__init__: recording of the other evidence changed')
    texts.append(translate_block([ast.If(test=cur.test, body=_parse('return True'), orelse=_parse('return False'))], 'srRecordCurrent', [],
                                 {'len(ref_items)': ('int', 'n_ref_items')},
                                 doc='`_SR.__init__`: CurrentRequestedProcedureEvidenceSequence is set to the referenced groups'))
    texts.append(translate_block([ast.If(test=oth.test, body=_parse('return True'), orelse=_parse('return False'))], 'srRecordOther',
                                 [('record_evidence', 'bool')], {'len(unref_items)': ('int', 'n_unref_items')},
                                 doc='`_SR.__init__`: PertinentOtherEvidenceSequence is set to the unreferenced groups'))
    pre = _one(body, lambda s: isinstance(s, ast.If) and 'previous_versions' in _norm(s.test), 'test on previous_versions')
    if [_norm(x) for x in pre.body] != ['pre_items = self._collect_predecessors(previous_versions)', 'self.PredecessorDocumentsSequence = pre_items'] \
            or pre.orelse:
        raise Unsupported('_SR.__init__: recording of the predecessor documents changed')
    texts.append(translate_block([ast.If(test=pre.test, body=_parse('return True'), orelse=_parse('return False'))], 'srRecordPredecessors', [],
                                 {'previous_versions is not None': ('bool', 'has_previous')},
                                 doc='`_SR.__init__`: PredecessorDocumentsSequence is set'))
    ver = _one(body, lambda s: isinstance(s, ast.If) and _norm(s.test) == 'is_verified', '`if is_verified`')
    order = [body.index(x) for x in (ev, ver, cs, col, pre)]
    if order != sorted(order):
        raise Unsupported('_SR.__init__: the order evidence guard < verification < content < evidence collection < predecessors changed')
    conv = [_norm(s) for s in body[body.index(cs) + 1:k]]
    for needle in ('content_copy = deepcopy(content)', 'content_item = ContentItem._from_dataset_derived(content_copy)',
                   'self._content = ContentSequence([content_item], is_root=True)'):
        if needle not in conv:
            raise Unsupported(f'_SR.__init__: `{needle}` no longer between the content guard and the evidence collection')
    for st in texts:
        pass
    span = [ev, cs, col, cur, oth, pre]
    return '\n\n'.join(texts), hashlib.sha256(''.join(ast.unparse(x) for x in span).encode()).hexdigest()


# ---------------------------------------------------------------- T15i: option handling of _SR.__init__ and the forwarding subclasses
def _lean_str(x):
    return '"' + x.replace('\\', '\\\\').replace('"', '\\"') + '"'


def _effects(stmts, cond, out):
    """(kind, target, path condition, value) of every assignment / augmented assignment / deletion in a block, in program
    order; the path condition is the conjunction of the enclosing `if` tests (negated in else branches), loops and try blocks
    are named in it.  kind: 'name' (a local or parameter is bound) | 'attr' (an attribute is stored) | 'item' (a subscript is
    stored)."""
    def tgt(t, value):
        if isinstance(t, (ast.Tuple, ast.List)):
            for e in t.elts:
                tgt(e, value)
        elif isinstance(t, ast.Name):
            out.append(('name', t.id, ' and '.join(cond) or 'True', value))
        elif isinstance(t, ast.Attribute):
            out.append(('attr', _norm(t), ' and '.join(cond) or 'True', value))
        elif isinstance(t, ast.Subscript):
            out.append(('item', _norm(t), ' and '.join(cond) or 'True', value))
        elif isinstance(t, ast.Starred):
            tgt(t.value, value)
        else:
            raise Unsupported(f'assignment target {type(t).__name__}')
    for st in stmts:
        if isinstance(st, ast.Assign):
            for t in st.targets:
                tgt(t, _norm(st.value))
        elif isinstance(st, ast.AnnAssign):
            if st.value is not None:
                tgt(st.target, _norm(st.value))
        elif isinstance(st, ast.AugAssign):
            tgt(st.target, _norm(st.target) + ' ' + type(st.op).__name__ + ' ' + _norm(st.value))
        elif isinstance(st, ast.Delete):
            for t in st.targets:
                tgt(t, '<deleted>')
        elif isinstance(st, ast.If):
            _effects(st.body, cond + (_norm(st.test),), out)
            _effects(st.orelse, cond + ('not (' + _norm(st.test) + ')',), out)
        elif isinstance(st, (ast.For, ast.While)):
            head = ('for ' + _norm(st.target) + ' in ' + _norm(st.iter)) if isinstance(st, ast.For) else 'while ' + _norm(st.test)
            if isinstance(st, ast.For):
                tgt(st.target, '<loop variable of ' + _norm(st.iter) + '>')
            _effects(st.body, cond + (head,), out)
            _effects(st.orelse, cond + ('else of ' + head,), out)
        elif isinstance(st, ast.Try):
            _effects(st.body, cond + ('try',), out)
            for h in st.handlers:
                if h.name:
                    out.append(('name', h.name, ' and '.join(cond + ('except',)), '<exception>'))
                _effects(h.body, cond + ('except ' + (_norm(h.type) if h.type is not None else ''),), out)
            _effects(st.orelse, cond + ('try-else',), out)
            _effects(st.finalbody, cond + ('finally',), out)
        elif isinstance(st, ast.With):
            for it in st.items:
                if it.optional_vars is not None:
                    tgt(it.optional_vars, _norm(it.context_expr))
            _effects(st.body, cond, out)
        elif isinstance(st, (ast.Expr, ast.Raise, ast.Return, ast.Pass, ast.Assert, ast.Import, ast.ImportFrom, ast.Continue, ast.Break)):
            for node in ast.walk(st):
                if isinstance(node, ast.NamedExpr):
                    tgt(node.target, _norm(node.value))
        elif isinstance(st, (ast.FunctionDef, ast.ClassDef)):
            out.append(('name', st.name, ' and '.join(cond) or 'True', '<definition>'))
        else:
            raise Unsupported(f'statement {type(st).__name__} in a constructor')
    return out


def _param_names(fn):
    a = fn.args
    names = [x.arg for x in a.posonlyargs + a.args + a.kwonlyargs]
    if a.vararg:
        names.append(a.vararg.arg)
    if a.kwarg:
        names.append(a.kwarg.arg)
    return names


def _flag_fn(body, attr, param, lean_name, doc):
    """the `if <param>: self.<attr> = A else: self.<attr> = B` statement as a function param -> String"""
    st = _one(body, lambda s: isinstance(s, ast.If) and _norm(s.test) == param and
              any(_norm(x).startswith(f'self.{attr} = ') for x in s.body), f'`if {param}:` setting {attr}')

    def val(block):
        hits = [x for x in block if isinstance(x, ast.Assign) and _norm(x.targets[0]) == f'self.{attr}']
        if len(hits) != 1 or not (isinstance(hits[0].value, ast.Constant) and isinstance(hits[0].value.value, str)):
            raise Unsupported(f'_SR.__init__: {attr} is no longer set to a string constant in both branches of `if {param}`')
        return hits[0].value.value
    a, b = val(st.body), val(st.orelse)
    blk = _parse(f'if {param}:\n    return {a!r}\nelse:\n    return {b!r}')
    return translate_block(blk, lean_name, [(param, 'bool')], {}, doc=doc), st


def build_T15i(tree):
    """sr/sop.py: what the document constructors do with their OPTIONS.
      Gen.srInitRebound        (class, parameter, condition, value): every place a constructor re-binds one of its own parameters
      Gen.srInitAttrWrites     (target, condition, value): every attribute store of `_SR.__init__`, in program order
      Gen.srForwarded          (class, keyword, expression): the keyword arguments of the one `super().__init__(...)` call of the
                               three public document classes
      Gen.srOptionNames        the parameters of `_SR.__init__` (without self / **kwargs)
      Gen.srCompletionFlag / srPreliminaryFlag / srVerificationFlag   option -> stored flag value
      Gen.srSupportedTransferSyntaxes   the UIDs of `supported_transfer_syntaxes` (names resolved with pydicom.uid)"""
    texts, shas = [], []
    rebound_rows, fwd_rows = [], []
    for cls in ('_SR', 'EnhancedSR', 'ComprehensiveSR', 'Comprehensive3DSR'):
        fn = find_func(tree, f'{cls}.__init__')
        body = strip_doc(fn.body)
        params = _param_names(fn)
        eff = _effects(body, (), [])
        for kind, t, c, v in eff:
            if kind == 'name' and t in params:
                rebound_rows.append((cls, t, c, v))
        if cls == '_SR':
            sr_fn, sr_body, sr_eff, sr_params = fn, body, eff, params
            continue
        calls = [n for st in body for n in ast.walk(st) if isinstance(n, ast.Call) and _norm(n.func) == 'super().__init__']
        if len(calls) != 1:
            raise Unsupported(f'{cls}.__init__: expected exactly one super().__init__ call, found {len(calls)}')
        call = calls[0]
        if call.args:
            raise Unsupported(f'{cls}.__init__: super().__init__ is called with positional arguments')
        if body.index(next(st for st in body if call in ast.walk(st))) != 0:
            raise Unsupported(f'{cls}.__init__: statements run before super().__init__')
        for kw in call.keywords:
            fwd_rows.append((cls, kw.arg if kw.arg is not None else '**', _norm(kw.value)))
        shas.append(_norm(call))
    q = _lean_str
    texts.append(lean_table('srInitRebound', 'List (String × String × String × String)',
                            ['(' + ', '.join(q(x) for x in row) + ')' for row in rebound_rows],
                            doc='document constructors of sr/sop.py: (class, parameter, path condition, new value) wherever a constructor '
                                're-binds one of its own parameters'))
    writes = [(t, c, v) for kind, t, c, v in sr_eff if kind == 'attr']
    texts.append(lean_table('srInitAttrWrites', 'List (String × String × String)',
                            ['(' + ', '.join(q(x) for x in row) + ')' for row in writes],
                            doc='`_SR.__init__`: (target, path condition, value) of every attribute store, in program order'))
    texts.append(lean_table('srForwarded', 'List (String × String × String)',
                            ['(' + ', '.join(q(x) for x in row) + ')' for row in fwd_rows],
                            doc='(class, keyword, expression) of the `super().__init__(...)` call of the three public document classes'))
    items_w = [(t, c, v) for kind, t, c, v in sr_eff if kind == 'item']
    texts.append(lean_table('srInitItemWrites', 'List (String × String × String)',
                            ['(' + ', '.join(q(x) for x in row) + ')' for row in items_w],
                            doc='`_SR.__init__`: (target, path condition, value) of every item store (`self[tag] = …`)'))
    locals_w = [(t, c, v) for kind, t, c, v in sr_eff if kind == 'name' and t in ('content_copy', 'content_item', 'tag', 'value')]
    texts.append(lean_table('srInitContentLocals', 'List (String × String × String)',
                            ['(' + ', '.join(q(x) for x in row) + ')' for row in locals_w],
                            doc='`_SR.__init__`: where the locals that carry the content tree get their values'))
    opts = [p for p in sr_params if p not in ('self', 'kwargs')]
    texts.append(lean_table('srOptionNames', 'List String', [q(x) for x in opts], doc='parameters of `_SR.__init__`'))
    for attr, param, nm in (('CompletionFlag', 'is_complete', 'srCompletionFlag'), ('PreliminaryFlag', 'is_final', 'srPreliminaryFlag')):
        t, st = _flag_fn(sr_body, attr, param, nm, f'`_SR.__init__`: {attr} as a function of `{param}`')
        texts.append(t)
        shas.append(_norm(st))
    t, st = _flag_fn(sr_body, 'VerificationFlag', 'is_verified', 'srVerificationFlag',
                     '`_SR.__init__`: VerificationFlag as a function of `is_verified` (the guards of the verified branch are T15a)')
    texts.append(t)
    # supported transfer syntaxes: a set literal of names imported from pydicom.uid
    ts = _one(sr_body, lambda s: isinstance(s, ast.Assign) and _norm(s.targets[0]) == 'supported_transfer_syntaxes', 'supported_transfer_syntaxes')
    if not isinstance(ts.value, ast.Set) or not all(isinstance(e, ast.Name) for e in ts.value.elts):
        raise Unsupported('_SR.__init__: supported_transfer_syntaxes is no longer a set literal of names')
    import pydicom.uid as _pu
    uids = []
    for e in ts.value.elts:
        if not hasattr(_pu, e.id):
            raise Unsupported(f'_SR.__init__: transfer syntax name {e.id} is not a pydicom.uid constant')
        uids.append(str(getattr(_pu, e.id)))
    g = _one(sr_body, lambda s: isinstance(s, ast.If) and 'supported_transfer_syntaxes' in _norm(s.test), 'transfer syntax guard')
    if _norm(g.test) != 'transfer_syntax_uid not in supported_transfer_syntaxes' or not isinstance(g.body[0], ast.Raise) or g.orelse:
        raise Unsupported('_SR.__init__: the transfer syntax guard changed')
    texts.append(lean_table('srSupportedTransferSyntaxes', 'List String', [q(u) for u in uids],
                            doc='`_SR.__init__`: transfer syntaxes accepted (anything else: ValueError)'))
    # the institution block: department only together with an institution
    inst = _one(sr_body, lambda s: isinstance(s, ast.If) and _norm(s.test) == 'institution_name is not None', '`if institution_name is not None`')
    blk = _parse('if institution_name is not None:\n    if institutional_department_name is not None:\n        return (True, True)\n'
                 '    return (True, False)\nreturn (False, False)')
    want = ['self.InstitutionName = institution_name',
            'if institutional_department_name is not None: self.InstitutionalDepartmentName = institutional_department_name']
    if [' '.join(_norm(x).split()) for x in inst.body] != want or inst.orelse:
        raise Unsupported('_SR.__init__: the institution block no longer only stores InstitutionName / InstitutionalDepartmentName')

    class R(ast.NodeTransformer):
        def visit_Compare(self, node):
            txt = _norm(node)
            if txt == 'institution_name is not None':
                return ast.Name(id='has_institution', ctx=ast.Load())
            if txt == 'institutional_department_name is not None':
                return ast.Name(id='has_department', ctx=ast.Load())
            return node
    blk = [ast.fix_missing_locations(R().visit(x)) for x in blk]
    texts.append(translate_block(blk, 'srInstitutionStored', [('has_institution', 'bool'), ('has_department', 'bool')], {},
                                 doc='`_SR.__init__`: (InstitutionName stored, InstitutionalDepartmentName stored)'))
    shas.append(_norm(inst))
    shas.append(repr(rebound_rows) + repr(writes))
    return '\n\n'.join(texts), hashlib.sha256(''.join(shas).encode()).hexdigest()


# ---------------------------------------------------------------- T15j: the content-item parsers of sr/value_types.py
def _dicom_keywords(text):
    """names in an expression that look like DICOM keywords (CamelCase attribute names after a dot)"""
    import re
    return sorted(set(re.findall(r'\.([A-Z][A-Za-z0-9]+)\b', text)))


def build_T15j(tree):
    """sr/value_types.py: what turning a data set into a content item demands and what it writes.
      Gen.srRequiredAttributes     value type -> attributes `_assert_value_type` demands
      Gen.srContentItemClasses     value type -> class `_get_content_item_class` dispatches to
      Gen.srOptionalNameClasses    classes that get the default concept name when the data set has none
      Gen.srDefaultName            that default name as value|scheme|meaning
      Gen.srParserAsserts          (class, value type its `from_dataset` asserts)
      Gen.srParserStores           (class, target, keywords of the target path, DICOM keywords read by the stored value): every store of every
                                   `from_dataset` and of `ContentItem._from_dataset_base`
    plus shape checks on the order of the steps (textual)."""
    texts, shas = [], []
    q = _lean_str

    def dict_of_lists(fn_name, var):
        fn = find_func(tree, fn_name)
        st = _one(strip_doc(fn.body), lambda s: isinstance(s, ast.Assign) and _norm(s.targets[0]) == var and isinstance(s.value, ast.Dict),
                  f'{var} dict of {fn_name}')
        rows = []
        for k, v in zip(st.value.keys, st.value.values):
            kt = _norm(k)
            if not kt.startswith('ValueTypeValues.'):
                raise Unsupported(f'{fn_name}: key {kt} is not a ValueTypeValues member')
            rows.append((kt.split('.', 1)[1], v))
        shas.append(_norm(st))
        return fn, rows
    fn, rows = dict_of_lists('_assert_value_type', 'required_attrs')
    req = []
    for k, v in rows:
        if not isinstance(v, ast.List) or not all(isinstance(e, ast.Constant) and isinstance(e.value, str) for e in v.elts):
            raise Unsupported('_assert_value_type: required_attrs values are no longer lists of keywords')
        req.append((k, [e.value for e in v.elts]))
    body = [_norm(x) for x in strip_doc(fn.body)]
    for needle in ("if not hasattr(dataset, 'ValueType'):", 'if not dataset.ValueType == value_type.value:',
                   'for attr in required_attrs[value_type]:'):
        if not any(b.startswith(needle) for b in body):
            raise Unsupported(f'_assert_value_type: `{needle}` not found')
    loop = _one(strip_doc(fn.body), lambda s: isinstance(s, ast.For), 'loop of _assert_value_type')
    if _norm(loop.body[0].test) != 'not hasattr(dataset, attr)' or 'AttributeError' not in _norm(loop.body[0].body[0]):
        raise Unsupported('_assert_value_type: a missing required attribute is no longer an AttributeError')
    # member NAME -> VALUE of the enumeration (the tables are keyed by the stored string)
    import os
    et = ast.parse(open(os.path.join(os.environ.get('HD_REPO', '/repo'), 'src', 'highdicom', 'sr', 'enum.py')).read())
    members = None
    for n in et.body:
        if isinstance(n, ast.ClassDef) and n.name == 'ValueTypeValues':
            members = {st.targets[0].id: st.value.value for st in n.body
                       if isinstance(st, ast.Assign) and isinstance(st.value, ast.Constant) and isinstance(st.value.value, str)}
    if not members:
        raise Unsupported('sr/enum.py: ValueTypeValues not found')

    def val(member):
        if member not in members:
            raise Unsupported(f'ValueTypeValues.{member} is not a member of the enumeration')
        return members[member]
    texts.append(lean_table('srRequiredAttributes', 'List (String × List String)',
                            ['(' + q(val(k)) + ', [' + ', '.join(q(a) for a in v) + '])' for k, v in req],
                            doc='`_assert_value_type`: attributes a data set of the value type must carry (AttributeError otherwise)'))
    fn, rows = dict_of_lists('_get_content_item_class', 'python_types')
    classes = []
    for k, v in rows:
        if not isinstance(v, ast.Name):
            raise Unsupported('_get_content_item_class: values are no longer class names')
        classes.append((val(k), v.id))
    texts.append(lean_table('srContentItemClasses', 'List (String × String)', ['(' + q(a) + ', ' + q(b) + ')' for a, b in classes],
                            doc='`_get_content_item_class`: value type -> content item class'))
    drv = find_func(tree, 'ContentItem._from_dataset_derived')
    if [_norm(x) for x in strip_doc(drv.body)] != ['value_type = ValueTypeValues(dataset.ValueType)',
                                                   'content_item_cls = _get_content_item_class(value_type)',
                                                   'return content_item_cls.from_dataset(dataset, copy=False)']:
        raise Unsupported('ContentItem._from_dataset_derived changed shape')
    base = find_func(tree, 'ContentItem._from_dataset_base')
    bb = strip_doc(base.body)
    opt = _one(bb, lambda s: isinstance(s, ast.Assign) and _norm(s.targets[0]) == 'value_types_with_optional_name', 'value_types_with_optional_name')
    if not isinstance(opt.value, ast.Tuple) or not all(isinstance(e, ast.Constant) for e in opt.value.elts):
        raise Unsupported('_from_dataset_base: value_types_with_optional_name is no longer a tuple of class names')
    texts.append(lean_table('srOptionalNameClasses', 'List String', [q(e.value) for e in opt.value.elts],
                            doc='`ContentItem._from_dataset_base`: classes whose data set may lack a concept name (the default name is stored then)'))
    order = [_norm(x).split('\n')[0] for x in bb]
    want_order = ["if not hasattr(dataset, 'ValueType'):", 'value_types_with_optional_name =', "if not hasattr(dataset, 'ConceptNameCodeSequence'):",
                  'item = dataset', 'item.__class__ = cls', "if hasattr(item, 'ContentSequence'):", 'item.ConceptNameCodeSequence =',
                  'return cast(Self, item)']
    if len(order) != len(want_order) or not all(o.startswith(w) for o, w in zip(order, want_order)):
        raise Unsupported(f'ContentItem._from_dataset_base: the sequence of steps changed: {order}')
    nameif = bb[2]
    inner = nameif.body[0]
    if not (isinstance(inner, ast.If) and _norm(inner.test) == 'cls.__name__ in value_types_with_optional_name' and
            'AttributeError' in _norm(inner.orelse[0])):
        raise Unsupported('_from_dataset_base: the handling of a missing concept name changed')
    dn = _one(inner.body, lambda s: isinstance(s, ast.Assign) and _norm(s.targets[0]) == 'default_name', 'default_name')
    kw = {k.arg: k.value.value for k in dn.value.keywords if isinstance(k.value, ast.Constant)}
    if _norm(dn.value.func) != 'CodedConcept' or set(kw) != {'value', 'scheme_designator', 'meaning'}:
        raise Unsupported('_from_dataset_base: the default concept name changed shape')
    texts.append(f'/-- `ContentItem._from_dataset_base`: the default concept name (value|scheme|meaning) -/\ndef srDefaultName : String := '
                 + q(f'{kw["value"]}|{kw["scheme_designator"]}|{kw["meaning"]}'))
    seqif = bb[5]
    if _norm(seqif.body[0]) != 'item.ContentSequence = ContentSequence.from_sequence(item.ContentSequence, copy=False)' or seqif.orelse:
        raise Unsupported('_from_dataset_base: the conversion of the content sequence changed')
    fs = find_func(tree, 'ContentSequence.from_sequence')
    fsb = [_norm(x) for x in strip_doc(fs.body)]
    if not (fsb[0] == 'content_items = []' and fsb[-1] == 'return ContentSequence(content_items, is_root=is_root, is_sr=is_sr)' and len(fsb) == 3):
        raise Unsupported('ContentSequence.from_sequence changed shape')
    lp = strip_doc(fs.body)[1]
    lb = [_norm(x) for x in lp.body]
    if not (isinstance(lp, ast.For) and _norm(lp.iter) == 'enumerate(sequence, 1)' and
            lb[0] == 'cls._check_dataset(dataset, is_root=is_root, is_sr=is_sr, index=i)' and
            lb[2] == 'item = ContentItem._from_dataset_derived(dataset_copy)' and lb[3] == 'content_items.append(item)' and len(lb) == 4):
        raise Unsupported('ContentSequence.from_sequence: the loop body changed')
    cd = find_func(tree, 'ContentSequence._check_dataset')
    cdt = _norm(cd)
    for needle in ('ValueTypeValues(dataset.ValueType)', "if not hasattr(dataset, 'RelationshipType') and (not is_root) and is_sr:"):
        if needle not in cdt:
            raise Unsupported(f'ContentSequence._check_dataset: `{needle}` not found')
    # the parsers
    asserts, stores, other_calls = [], [], []
    for cls in [n for n in tree.body if isinstance(n, ast.ClassDef)]:
        for fn in [n for n in cls.body if isinstance(n, ast.FunctionDef) and n.name in ('from_dataset', '_from_dataset_base')]:
            if cls.name == 'ContentSequence':
                continue
            b = strip_doc(fn.body)
            if fn.name == 'from_dataset':
                a = [x for x in b if isinstance(x, ast.Expr) and isinstance(x.value, ast.Call) and _norm(x.value.func) == '_assert_value_type']
                bs = [x for x in b if isinstance(x, ast.Assign) and _norm(x.value) == 'super()._from_dataset_base(dataset_copy)']
                if len(a) != 1 or len(bs) != 1 or b.index(a[0]) > b.index(bs[0]) or _norm(a[0].value.args[0]) != 'dataset_copy':
                    raise Unsupported(f'{cls.name}.from_dataset: `_assert_value_type(dataset_copy, ...)` then `super()._from_dataset_base(dataset_copy)` not found')
                vt = _norm(a[0].value.args[1])
                if not vt.startswith('ValueTypeValues.'):
                    raise Unsupported(f'{cls.name}.from_dataset asserts {vt}')
                asserts.append((cls.name, val(vt.split('.', 1)[1])))
                if not (isinstance(b[0], ast.If) and _norm(b[0].test) == 'copy' and _norm(b[0].body[0]) == 'dataset_copy = deepcopy(dataset)'
                        and _norm(b[0].orelse[0]) == 'dataset_copy = dataset'):
                    raise Unsupported(f'{cls.name}.from_dataset: the copy / no-copy head changed')
            eff = _effects(b, (), [])
            local_defs = {t: v for kind, t, c, v in eff if kind == 'name'}
            import re as _re
            for kind, t, c, v in eff:
                if kind not in ('attr', 'item'):
                    continue
                expanded = v
                for _ in range(3):
                    for nm, d in local_defs.items():
                        expanded = _re.sub(r'\b' + nm + r'\b', '(' + d + ')', expanded) if nm not in ('item', 'dataset', 'dataset_copy') else expanded
                # what the store does to the VALUE of the attribute it stores to
                flat = expanded.replace('(', '').replace(')', '').replace(' ', '')
                tflat = t.replace(' ', '')
                rewrap = ['[CodedConcept.from_dataset' + tflat + '[0],copy=False]',
                          'DataElementSequence[CodedConcept.from_dataset' + tflat + '[0],copy=False]']
                if t == 'item.__class__' and v == 'cls':
                    action = 'class'
                elif t == 'dataset.ConceptNameCodeSequence' and v == '[default_name]':
                    action = 'default-name'
                elif t == 'item.ContentSequence' and v == 'ContentSequence.from_sequence(item.ContentSequence, copy=False)':
                    action = 'children'
                elif flat in rewrap:
                    action = 'rewrap'
                else:
                    action = 'other: ' + v
                stores.append((cls.name, t, _dicom_keywords(' ' + t), _dicom_keywords(' ' + expanded), action))
            # every call of the parser that is not one of the known pure / constructing ones (a method call on the data set could
            # change it without an assignment: pop, update, __delitem__, setattr, ...)
            known = {'deepcopy', '_assert_value_type', 'super()._from_dataset_base', 'super', 'cast', 'hasattr', 'CodedConcept.from_dataset',
                     'ContentSequence.from_sequence', 'DataElementSequence', 'CodedConcept', 'AttributeError'}
            for n in ast.walk(fn):
                if isinstance(n, ast.Call) and _norm(n.func) not in known:
                    other_calls.append((cls.name, fn.name, _norm(n)))
            shas.append(_norm(fn))
    # the helpers the parsers call on the data set: they must store nothing at all
    for qual in ('_assert_value_type', 'ContentSequence._check_dataset', 'ContentItem._from_dataset_derived', 'ContentSequence.from_sequence'):
        hf = find_func(tree, qual)
        for kind, t, c, v in _effects(strip_doc(hf.body), (), []):
            if kind in ('attr', 'item') and not t.startswith('self.'):
                stores.append(('helper:' + qual, t, _dicom_keywords(' ' + t), _dicom_keywords(' ' + v), 'other: ' + v))
        shas.append(_norm(hf))
    texts.append(lean_table('srParserAsserts', 'List (String × String)', ['(' + q(a) + ', ' + q(b) + ')' for a, b in asserts],
                            doc='(class, value type) asserted by the `from_dataset` of every content item class'))
    texts.append(lean_table('srParserStores', 'List (String × String × List String × List String × String)',
                            ['(' + q(a) + ', ' + q(b) + ', [' + ', '.join(q(x) for x in c) + '], [' + ', '.join(q(x) for x in d) + '], ' + q(e) + ')'
                             for a, b, c, d, e in stores],
                            doc='(class, target, DICOM keywords of the target path, DICOM keywords read by the stored value, what the store does '
                                'to the value: class | default-name | children | rewrap | other: <expression>) of every attribute store of '
                                'the content item parsers'))
    texts.append(lean_table('srParserOtherCalls', 'List (String × String × String)',
                            ['(' + ', '.join(q(x) for x in row) + ')' for row in other_calls],
                            doc='(class, method, call) of every call in a content item parser that is not one of the known pure / constructing '
                                'calls - a method call on the data set could change it without an assignment'))
    return '\n\n'.join(texts), hashlib.sha256(''.join(shas).encode()).hexdigest()


# ---------------------------------------------------------------- T15k: the parsing entry points and the read-back methods
def _writes_on_self(fn):
    """attributes of `self` a method writes (attribute stores / deletes, setattr / __dict__ writes, memoising decorators,
    global / nonlocal)"""
    w = []
    for d in fn.decorator_list:
        t = ast.unparse(d)
        if t not in ('classmethod', 'staticmethod', 'property'):
            w.append('decorator:' + t)
    for n in ast.walk(fn):
        if isinstance(n, ast.Attribute) and isinstance(n.ctx, (ast.Store, ast.Del)) and ast.unparse(n.value) == 'self':
            w.append(n.attr)
        elif isinstance(n, ast.Subscript) and isinstance(n.ctx, (ast.Store, ast.Del)) and \
                ast.unparse(n.value) in ('self.__dict__', 'vars(self)', 'self'):
            w.append(ast.unparse(n.value) + '[' + ast.unparse(n.slice) + ']')
        elif isinstance(n, ast.Call):
            f = ast.unparse(n.func)
            if f in ('setattr', 'delattr', 'object.__setattr__', 'object.__delattr__') and n.args and ast.unparse(n.args[0]) == 'self':
                w.append(f + ':' + (ast.unparse(n.args[1]) if len(n.args) > 1 else '?'))
            if f in ('self.__dict__.update', 'self.__dict__.setdefault', 'vars(self).update', 'vars(self).setdefault',
                     'self.__setattr__', 'self.__delattr__', 'self.__dict__.pop', 'self.__dict__.clear'):
                w.append(f)
        elif isinstance(n, (ast.Global, ast.Nonlocal)):
            w += [type(n).__name__.lower() + ':' + x for x in n.names]
    return sorted(set(w))


def build_T15k(tree):
    """sr/sop.py: the three ways a stored document becomes an object, and the methods that read a document back.
      Gen.srReadClassMap         (storage class constant, document class) of `srread`'s dispatch table
      Gen.srFromDatasetChecks    (document class, storage class constant its `from_dataset` demands of `dataset.SOPClassUID`;
                                 "" = the class has no check of its own)
      Gen.srReadersWrite         (method, what it writes on the document object) for `content`, `get_evidence`,
                                 `get_evidence_series` (and every method of the document they call on `self`)
    plus shape checks: `srread` parses with `from_dataset(dcm, copy=False)` of the class found; each public `from_dataset`
    delegates to `super().from_dataset(dataset, copy=copy)` and sets `__class__`."""
    q = _lean_str
    texts, shas = [], []
    sr = find_func(tree, 'srread')
    body = strip_doc(sr.body)
    cm = _one(body, lambda s: isinstance(s, ast.Assign) and _norm(s.targets[0]) == 'class_map' and isinstance(s.value, ast.Dict), 'class_map of srread')
    rows = []
    for k, v in zip(cm.value.keys, cm.value.values):
        if not (isinstance(k, ast.Name) and isinstance(v, ast.Name)):
            raise Unsupported('srread: class_map is no longer a table of names')
        rows.append((k.id, v.id))
    t = ' '.join(ast.unparse(sr).split())
    for needle in ('dcm = _wrapped_dcmread(fp)', 'sop_class_uid = dcm.SOPClassUID',
                   'if sop_class_uid in class_map: return class_map[sop_class_uid].from_dataset(dcm, copy=False)', 'raise RuntimeError('):
        if needle not in t:
            raise Unsupported(f'srread: `{needle}` not found')
    texts.append(lean_table('srReadClassMap', 'List (String × String)', ['(' + q(a) + ', ' + q(b) + ')' for a, b in rows],
                            doc='`srread`: storage class -> document class the file is parsed as (`from_dataset(dcm, copy=False)`)'))
    shas.append(_norm(sr))
    checks = []
    for cls in ('EnhancedSR', 'ComprehensiveSR', 'Comprehensive3DSR'):
        c = [n for n in tree.body if isinstance(n, ast.ClassDef) and n.name == cls][0]
        fns = [n for n in c.body if isinstance(n, ast.FunctionDef) and n.name == 'from_dataset']
        if not fns:
            checks.append((cls, ''))
            continue
        b = strip_doc(fns[0].body)
        nb = [_norm(x) for x in b]
        if len(b) != 4 or not isinstance(b[0], ast.If) or nb[1] != 'sop_instance = super().from_dataset(dataset, copy=copy)' or \
                nb[2] != 'sop_instance.__class__ = cls' or not nb[3].startswith('return '):
            raise Unsupported(f'{cls}.from_dataset changed shape')
        test = _norm(b[0].test)
        if not test.startswith('dataset.SOPClassUID != ') or 'ValueError' not in _norm(b[0].body[0]) or b[0].orelse:
            raise Unsupported(f'{cls}.from_dataset: the SOP class check changed')
        checks.append((cls, test.split('!= ', 1)[1]))
        shas.append(_norm(fns[0]))
    texts.append(lean_table('srFromDatasetChecks', 'List (String × String)', ['(' + q(a) + ', ' + q(b) + ')' for a, b in checks],
                            doc='(document class, storage class its `from_dataset` demands; "" = no check of its own)'))
    base = [n for n in tree.body if isinstance(n, ast.ClassDef) and n.name == '_SR'][0]
    own = {n.name: n for n in base.body if isinstance(n, ast.FunctionDef)}
    todo, seen, wr = ['content', 'get_evidence', 'get_evidence_series'], [], []
    while todo:
        m = todo.pop(0)
        if m in seen or m not in own:
            continue
        seen.append(m)
        fn = own[m]
        wr.append((m, _writes_on_self(fn)))
        for n in ast.walk(fn):
            if isinstance(n, ast.Call) and isinstance(n.func, ast.Attribute) and _norm(n.func.value) == 'self' and n.func.attr in own:
                todo.append(n.func.attr)
        shas.append(_norm(fn))
    texts.append(lean_table('srReadersWrite', 'List (String × List String)',
                            ['(' + q(m) + ', [' + ', '.join(q(x) for x in w) + '])' for m, w in wr],
                            doc='the read-back methods of a document: what each writes on the document object'))
    return '\n\n'.join(texts), hashlib.sha256(''.join(shas).encode()).hexdigest()


# ---------------------------------------------------------------- T15l: the guards of the key object selection document
def build_T15l(tree):
    """ko/sop.py::KeyObjectSelectionDocument.__init__ (bridge for the hand-written buildKO):
      Gen.koEvidenceGuard (n_evidence)       `if len(evidence) == 0`
      Gen.koStudyGuard (n_ref_items)         current-procedure evidence recorded iff some study group exists; more than one refused
    plus shape checks: collect_evidence(evidence, content[0]); the reference table is filled from
    CurrentRequestedProcedureEvidenceSequence with (study, series, instance) under the instance UID; resolve_reference
    turns a KeyError into a ValueError."""
    fn = find_func(tree, 'KeyObjectSelectionDocument.__init__')
    body = strip_doc(fn.body)
    texts = []
    ev = _one(body, lambda s: isinstance(s, ast.If) and 'len(evidence)' in _norm(s.test), 'guard on the evidence list')
    texts.append(translate_block([ev] + _parse('return True'), 'koEvidenceGuard', [], {'len(evidence)': ('int', 'n_evidence')},
                                 doc='`KeyObjectSelectionDocument.__init__`: an empty evidence list is refused'))
    col = _one(body, lambda s: isinstance(s, ast.Assign) and 'collect_evidence' in _norm(s.value), 'call of collect_evidence')
    if _norm(col) != 'ref_items, unref_items = collect_evidence(evidence, content[0])':
        raise Unsupported('KeyObjectSelectionDocument.__init__: collect_evidence is no longer called with (evidence, content[0])')
    k = body.index(col)
    cur = body[k + 1]
    if not (isinstance(cur, ast.If) and not cur.orelse and len(cur.body) == 2 and
            _norm(cur.body[0]) == 'self.CurrentRequestedProcedureEvidenceSequence = ref_items' and
            isinstance(cur.body[1], ast.If) and isinstance(cur.body[1].body[0], ast.Raise) and not cur.body[1].orelse):
        raise Unsupported('KeyObjectSelectionDocument.__init__: recording of the evidence / the single-study guard changed shape')
    inner = ast.If(test=cur.body[1].test, body=[cur.body[1].body[0]], orelse=[])
    blk = [ast.If(test=cur.test, body=[inner] + _parse('return True'), orelse=[])] + _parse('return False')
    for x in blk:
        ast.fix_missing_locations(x)
    texts.append(translate_block(blk, 'koStudyGuard', [], {'len(ref_items)': ('int', 'n_ref_items')},
                                 doc='`KeyObjectSelectionDocument.__init__`: is the current-procedure evidence recorded (several study groups: refused)'))
    t = _norm(fn)
    for needle in ('self._content = KeyObjectSelection.from_sequence(content, is_root=True)',
                   'for study_item in self.CurrentRequestedProcedureEvidenceSequence: for series_item in study_item.ReferencedSeriesSequence: '
                   'for instance_item in series_item.ReferencedSOPSequence: sop_instance_uid = instance_item.ReferencedSOPInstanceUID '
                   'self._reference_lut[sop_instance_uid] = (study_item.StudyInstanceUID, series_item.SeriesInstanceUID, sop_instance_uid)'):
        if needle not in t:
            raise Unsupported(f'KeyObjectSelectionDocument.__init__: `{needle[:70]}...` not found')
    rr = _norm(find_func(tree, 'KeyObjectSelectionDocument.resolve_reference'))
    if 'try: return self._reference_lut[sop_instance_uid] except KeyError as e: raise ValueError(' not in rr:
        raise Unsupported('KeyObjectSelectionDocument.resolve_reference changed')
    order = [body.index(ev), body.index(col)]
    if order != sorted(order):
        raise Unsupported('KeyObjectSelectionDocument.__init__: the evidence guard no longer precedes the evidence collection')
    return '\n\n'.join(texts), hashlib.sha256((_norm(ev) + _norm(col) + _norm(cur) + rr).encode()).hexdigest()


TARGETS = {'T15a': {'file': 'sr/sop.py', 'build': build_T15a},
           'T15e': {'file': 'sr/enum.py', 'build': build_T15e},
           'T15d': {'file': 'sr/sop.py', 'build': build_T15d},
           'T15c': {'file': 'sr/utils.py', 'build': build_T15c},
           'T15b': {'file': 'sr/utils.py', 'build': build_T15b},
           'T15f': {'file': 'sr/content.py', 'build': build_T15f},
           'T15g': {'file': 'sr/content.py', 'build': build_T15g},
           'T15h': {'file': 'sr/sop.py', 'build': build_T15h},
           'T15i': {'file': 'sr/sop.py', 'build': build_T15i},
           'T15j': {'file': 'sr/value_types.py', 'build': build_T15j},
           'T15k': {'file': 'sr/sop.py', 'build': build_T15k},
           'T15l': {'file': 'ko/sop.py', 'build': build_T15l}}
