"""Translation targets of C15 (tie T): the refusal guards of the SR document constructors in sr/sop.py.

T15a  -> Gen.srVerifiedGuard                 the `if is_verified:` guard of `_SR.__init__` (details demanded)
         Gen.srScoord3dGuardEnhanced         `EnhancedSR.__init__`: refusal on SCOORD3D items found
         Gen.srScoord3dGuardComprehensive    `ComprehensiveSR.__init__`: the same
         Gen.srScoord3dGuardComprehensive3D  `Comprehensive3DSR.__init__`: no such guard (accepts any count)

The search call feeding the SCOORD3D guards is part of the translated span: it must still be
`find_content_items(<content>, value_type=ValueTypeValues.SCOORD3D, recursive=True)` (checked textually),
otherwise the target is TRANSLATION-BROKEN.
"""
from __future__ import annotations

import ast
import hashlib

from py2lean import Unsupported, find_func, strip_doc, translate_block


def _leading_raises(body):
    """the leading `if <x> is None: raise …` statements of a block"""
    out = []
    for st in body:
        if isinstance(st, ast.If) and not st.orelse and len(st.body) == 1 and isinstance(st.body[0], ast.Raise):
            out.append(st)
        else:
            break
    return out


def _verified_guard(tree):
    fn = find_func(tree, '_SR.__init__')
    target = None
    for node in strip_doc(fn.body):
        if isinstance(node, ast.If) and ast.unparse(node.test) == 'is_verified':
            target = node
    if target is None:
        raise Unsupported('`if is_verified:` not found in _SR.__init__')
    raises = _leading_raises(target.body)
    # what follows the guards must set the flag and record the observer (shape check only)
    rest = ast.unparse(ast.Module(body=target.body[len(raises):], type_ignores=[]))
    for needle in ("self.VerificationFlag = 'VERIFIED'", 'VerifyingObserverName = verifying_observer_name',
                   'VerifyingOrganization = verifying_organization', 'self.VerifyingObserverSequence = [observer_item]'):
        if needle not in rest:
            raise Unsupported(f'verified branch of _SR.__init__ no longer contains `{needle}`')
    if "self.VerificationFlag = 'UNVERIFIED'" not in ast.unparse(ast.Module(body=target.orelse, type_ignores=[])):
        raise Unsupported('unverified branch of _SR.__init__ changed')

    class R(ast.NodeTransformer):
        def visit_Compare(self, node):
            if len(node.ops) == 1 and isinstance(node.ops[0], ast.Is) and isinstance(node.comparators[0], ast.Constant) \
                    and node.comparators[0].value is None and isinstance(node.left, ast.Name):
                nm = {'verifying_observer_name': 'observer_is_none', 'verifying_organization': 'organization_is_none'}.get(node.left.id)
                if nm is None:
                    raise Unsupported(f'guard tests unexpected name {node.left.id}')
                return ast.copy_location(ast.Name(id=nm, ctx=ast.Load()), node)
            return node
    guards = [R().visit(ast.parse(ast.unparse(s)).body[0]) for s in raises]
    block = [ast.If(test=ast.Name(id='is_verified', ctx=ast.Load()), body=guards or [ast.Pass()], orelse=[]),
             ast.parse('return True').body[0]]
    for s in block:
        ast.fix_missing_locations(s)
    text = translate_block(block, 'srVerifiedGuard',
                           [('is_verified', 'bool'), ('observer_is_none', 'bool'), ('organization_is_none', 'bool')], {},
                           doc='`_SR.__init__`: the guards at the head of `if is_verified:` (result `true` = accepted)')
    return text, hashlib.sha256(ast.unparse(target).encode()).hexdigest()


def _scoord3d_guard(tree, cls, lean_name):
    fn = find_func(tree, f'{cls}.__init__')
    body = strip_doc(fn.body)
    assigns = [s for s in body if isinstance(s, ast.Assign) and ast.unparse(s.targets[0]) == 'unsupported_content']
    ifs = [s for s in body if isinstance(s, ast.If) and 'unsupported_content' in ast.unparse(s.test)]
    if not assigns and not ifs:
        block = [ast.parse('return True').body[0]]
        text = translate_block(block, lean_name, [('n_unsupported', 'int')], {},
                               doc=f'`{cls}.__init__`: no SCOORD3D guard in the source')
        return text, hashlib.sha256(b'none').hexdigest()
    if len(assigns) != 1 or len(ifs) != 1:
        raise Unsupported(f'SCOORD3D guard of {cls}.__init__ not found in the expected shape')
    call = assigns[0].value
    if not (isinstance(call, ast.Call) and ast.unparse(call.func) == 'find_content_items'):
        raise Unsupported('unsupported_content is no longer the result of find_content_items')
    kws = {k.arg: ast.unparse(k.value) for k in call.keywords}
    if kws.get('value_type') != 'ValueTypeValues.SCOORD3D' or kws.get('recursive') != 'True' or \
            set(kws) - {'value_type', 'recursive'}:
        raise Unsupported(f'search feeding the SCOORD3D guard changed: {kws}')
    if len(call.args) != 1 or 'content' not in ast.unparse(call.args[0]):
        raise Unsupported('search feeding the SCOORD3D guard no longer searches `content`')
    # the guard must come after the search and the super().__init__ call does not matter for refusal
    block = [ifs[0], ast.parse('return True').body[0]]
    for s in block:
        ast.fix_missing_locations(s)
    text = translate_block(block, lean_name, [], {'len(unsupported_content)': ('int', 'n_unsupported')},
                           doc=f'`{cls}.__init__`: guard on the SCOORD3D items found at any depth (result `true` = accepted)')
    return text, hashlib.sha256((ast.unparse(assigns[0]) + ast.unparse(ifs[0])).encode()).hexdigest()


def build_T15a(tree):
    parts, shas = [], []
    t, s = _verified_guard(tree)
    parts.append(t)
    shas.append(s)
    for cls, nm in (('EnhancedSR', 'srScoord3dGuardEnhanced'), ('ComprehensiveSR', 'srScoord3dGuardComprehensive'),
                    ('Comprehensive3DSR', 'srScoord3dGuardComprehensive3D')):
        t, s = _scoord3d_guard(tree, cls, nm)
        parts.append(t)
        shas.append(s)
    return '\n\n'.join(parts), hashlib.sha256(''.join(shas).encode()).hexdigest()


TARGETS = {'T15a': {'file': 'sr/sop.py', 'build': build_T15a}}
