"""Translation targets of C15 (tie T): the refusal guards of the SR document constructors in sr/sop.py.

T15a  -> Gen.srVerifiedGuard                 the `if is_verified:` guard of `_SR.__init__` (details demanded)
         Gen.srScoord3dGuardEnhanced         `EnhancedSR.__init__`: refusal on SCOORD3D items found
         Gen.srScoord3dGuardComprehensive    `ComprehensiveSR.__init__`: the same
         Gen.srScoord3dGuardComprehensive3D  `Comprehensive3DSR.__init__`: no such guard (accepts any count)

The search call feeding the SCOORD3D guards is part of the translated span: it must still be
`find_content_items(<content>, value_type=ValueTypeValues.SCOORD3D, recursive=True)` (checked textually),
otherwise the target is TRANSLATION-BROKEN.
"""
from __future__ import annotations

import ast
import hashlib

from py2lean import Unsupported, find_func, strip_doc, translate_block


def _leading_raises(body):
    """the leading `if <x> is None: raise …` statements of a block"""
    out = []
    for st in body:
        if isinstance(st, ast.If) and not st.orelse and len(st.body) == 1 and isinstance(st.body[0], ast.Raise):
            out.append(st)
        else:
            break
    return out


def _verified_guard(tree):
    fn = find_func(tree, '_SR.__init__')
    target = None
    for node in strip_doc(fn.body):
        if isinstance(node, ast.If) and ast.unparse(node.test) == 'is_verified':
            target = node
    if target is None:
        raise Unsupported('`if is_verified:` not found in _SR.__init__')
    raises = _leading_raises(target.body)
    # what follows the guards must set the flag and record the observer (shape check only)
    rest = ast.unparse(ast.Module(body=target.body[len(raises):], type_ignores=[]))
    for needle in ("self.VerificationFlag = 'VERIFIED'", 'VerifyingObserverName = verifying_observer_name',
                   'VerifyingOrganization = verifying_organization', 'self.VerifyingObserverSequence = [observer_item]'):
        if needle not in rest:
            raise Unsupported(f'verified branch of _SR.__init__ no longer contains `{needle}`')
    if "self.VerificationFlag = 'UNVERIFIED'" not in ast.unparse(ast.Module(body=target.orelse, type_ignores=[])):
        raise Unsupported('unverified branch of _SR.__init__ changed')

    class R(ast.NodeTransformer):
        def visit_Compare(self, node):
            if len(node.ops) == 1 and isinstance(node.ops[0], ast.Is) and isinstance(node.comparators[0], ast.Constant) \
                    and node.comparators[0].value is None and isinstance(node.left, ast.Name):
                nm = {'verifying_observer_name': 'observer_is_none', 'verifying_organization': 'organization_is_none'}.get(node.left.id)
                if nm is None:
                    raise Unsupported(f'guard tests unexpected name {node.left.id}')
                return ast.copy_location(ast.Name(id=nm, ctx=ast.Load()), node)
            return node
    guards = [R().visit(ast.parse(ast.unparse(s)).body[0]) for s in raises]
    block = [ast.If(test=ast.Name(id='is_verified', ctx=ast.Load()), body=guards or [ast.Pass()], orelse=[]),
             ast.parse('return True').body[0]]
    for s in block:
        ast.fix_missing_locations(s)
    text = translate_block(block, 'srVerifiedGuard',
                           [('is_verified', 'bool'), ('observer_is_none', 'bool'), ('organization_is_none', 'bool')], {},
                           doc='`_SR.__init__`: the guards at the head of `if is_verified:` (result `true` = accepted)')
    return text, hashlib.sha256(ast.unparse(target).encode()).hexdigest()


def _scoord3d_guard(tree, cls, lean_name):
    fn = find_func(tree, f'{cls}.__init__')
    body = strip_doc(fn.body)
    assigns = [s for s in body if isinstance(s, ast.Assign) and ast.unparse(s.targets[0]) == 'unsupported_content']
    ifs = [s for s in body if isinstance(s, ast.If) and 'unsupported_content' in ast.unparse(s.test)]
    if not assigns and not ifs:
        block = [ast.parse('return True').body[0]]
        text = translate_block(block, lean_name, [('n_unsupported', 'int')], {},
                               doc=f'`{cls}.__init__`: no SCOORD3D guard in the source')
        return text, hashlib.sha256(b'none').hexdigest()
    if len(assigns) != 1 or len(ifs) != 1:
        raise Unsupported(f'SCOORD3D guard of {cls}.__init__ not found in the expected shape')
    call = assigns[0].value
    if not (isinstance(call, ast.Call) and ast.unparse(call.func) == 'find_content_items'):
        raise Unsupported('unsupported_content is no longer the result of find_content_items')
    kws = {k.arg: ast.unparse(k.value) for k in call.keywords}
    if kws.get('value_type') != 'ValueTypeValues.SCOORD3D' or kws.get('recursive') != 'True' or \
            set(kws) - {'value_type', 'recursive'}:
        raise Unsupported(f'search feeding the SCOORD3D guard changed: {kws}')
    if len(call.args) != 1 or 'content' not in ast.unparse(call.args[0]):
        raise Unsupported('search feeding the SCOORD3D guard no longer searches `content`')
    # the guard must come after the search and the super().__init__ call does not matter for refusal
    block = [ifs[0], ast.parse('return True').body[0]]
    for s in block:
        ast.fix_missing_locations(s)
    text = translate_block(block, lean_name, [], {'len(unsupported_content)': ('int', 'n_unsupported')},
                           doc=f'`{cls}.__init__`: guard on the SCOORD3D items found at any depth (result `true` = accepted)')
    return text, hashlib.sha256((ast.unparse(assigns[0]) + ast.unparse(ifs[0])).encode()).hexdigest()


def build_T15a(tree):
    parts, shas = [], []
    t, s = _verified_guard(tree)
    parts.append(t)
    shas.append(s)
    for cls, nm in (('EnhancedSR', 'srScoord3dGuardEnhanced'), ('ComprehensiveSR', 'srScoord3dGuardComprehensive'),
                    ('Comprehensive3DSR', 'srScoord3dGuardComprehensive3D')):
        t, s = _scoord3d_guard(tree, cls, nm)
        parts.append(t)
        shas.append(s)
    return '\n\n'.join(parts), hashlib.sha256(''.join(shas).encode()).hexdigest()


# ---------------------------------------------------------------- T15b: collect_evidence
def build_T15b(tree):
    """sr/utils.py::collect_evidence: the body of `for evd in evidence:` as a decision over
    (already seen, referenced) and the guard after the loop.

    Gen.evidenceStep (seen referenced : Bool) : (action, mark_seen)   action 0 = skipped, 1 = appended to the
        referenced group, 2 = appended to the unreferenced group; mark_seen = the UID is added to `evd_uids`
    Gen.evidenceGuard (all_referenced_supplied : Bool)                  the `issubset` guard after the loop

    Shape checks (textual, part of the translated span): the membership tests are on `evd.SOPInstanceUID`, the item
    carries class and instance UID of the evidence data set, the key is (StudyInstanceUID, SeriesInstanceUID), both
    groups are turned into items by `_create_references`, and the search collects IMAGE and COMPOSITE items recursively."""
    fn = find_func(tree, 'collect_evidence')
    body = strip_doc(fn.body)
    src = ast.unparse(ast.Module(body=body, type_ignores=[]))
    loops = [s for s in body if isinstance(s, ast.For)]
    if len(loops) != 1 or ast.unparse(loops[0].target) != 'evd' or ast.unparse(loops[0].iter) != 'evidence':
        raise Unsupported('collect_evidence: `for evd in evidence:` not found')
    loop = loops[0]
    for needle in ('evd_item.ReferencedSOPClassUID = evd.SOPClassUID', 'evd_item.ReferencedSOPInstanceUID = evd.SOPInstanceUID',
                   'key = (evd.StudyInstanceUID, evd.SeriesInstanceUID)', 'ref_items = _create_references(ref_group)',
                   'unref_items = _create_references(unref_group)', 'return (ref_items, unref_items)',
                   'evd_uids = set()'):
        if needle not in src:
            raise Unsupported(f'collect_evidence no longer contains `{needle}`')
    searches = [n for n in ast.walk(fn) if isinstance(n, ast.Call) and ast.unparse(n.func) == 'find_content_items']
    kinds = sorted(ast.unparse(k.value) for c in searches for k in c.keywords if k.arg == 'value_type')
    recs = [ast.unparse(k.value) for c in searches for k in c.keywords if k.arg == 'recursive']
    if kinds != ['ValueTypeValues.COMPOSITE', 'ValueTypeValues.IMAGE'] or recs != ['True', 'True'] or \
            any(ast.unparse(c.args[0]) != 'content' for c in searches):
        raise Unsupported(f'collect_evidence: reference search changed ({kinds}, recursive={recs})')
    if 'ref.ReferencedSOPSequence[0].ReferencedSOPInstanceUID' not in src:
        raise Unsupported('collect_evidence: ref_uids is no longer built from ReferencedSOPSequence[0].ReferencedSOPInstanceUID')

    class R(ast.NodeTransformer):
        def visit_Compare(self, node):
            if len(node.ops) == 1 and isinstance(node.ops[0], (ast.In, ast.NotIn)) and ast.unparse(node.left) == 'evd.SOPInstanceUID':
                nm = {'evd_uids': 'seen', 'ref_uids': 'referenced'}.get(ast.unparse(node.comparators[0]))
                if nm is None:
                    raise Unsupported(f'membership test in {ast.unparse(node.comparators[0])}')
                t = ast.Name(id=nm, ctx=ast.Load())
                return ast.UnaryOp(op=ast.Not(), operand=t) if isinstance(node.ops[0], ast.NotIn) else t
            return node

        def visit_Continue(self, node):
            return ast.parse('return (0, False)').body[0]

        def visit_Expr(self, node):
            t = ast.unparse(node)
            if t == 'ref_group[key].append(evd_item)':
                return ast.parse('action = 1').body[0]
            if t == 'unref_group[key].append(evd_item)':
                return ast.parse('action = 2').body[0]
            if t == 'evd_uids.add(evd.SOPInstanceUID)':
                return ast.parse('mark = True').body[0]
            return node

        def visit_Assign(self, node):
            t = ast.unparse(node.targets[0])
            if t in ('evd_item', 'key') or t.startswith('evd_item.'):
                return None
            return node
    stmts = []
    for st in loop.body:
        r = R().visit(ast.parse(ast.unparse(st)).body[0])
        if r is not None:
            stmts.append(r)
    block = [ast.parse('action = 0').body[0], ast.parse('mark = False').body[0]] + stmts + [ast.parse('return (action, mark)').body[0]]
    for s_ in block:
        ast.fix_missing_locations(s_)
    t1 = translate_block(block, 'evidenceStep', [('seen', 'bool'), ('referenced', 'bool')], {},
                         doc='`collect_evidence`: body of `for evd in evidence` -> (action, mark_seen); action 0 skip, 1 referenced '
                             'group, 2 unreferenced group')
    after = body[body.index(loop) + 1:]
    guards = [s_ for s_ in after if isinstance(s_, ast.If)]
    if len(guards) != 1 or ast.unparse(guards[0].test) != 'not ref_uids.issubset(evd_uids)':
        raise Unsupported('collect_evidence: guard `if not ref_uids.issubset(evd_uids)` after the loop not found')
    g = ast.parse(ast.unparse(guards[0])).body[0]
    g.test = ast.UnaryOp(op=ast.Not(), operand=ast.Name(id='all_referenced_supplied', ctx=ast.Load()))
    g.body = [s_ for s_ in g.body if isinstance(s_, ast.Raise)]
    if len(g.body) != 1:
        raise Unsupported('collect_evidence: guard body no longer raises')
    gb = [g, ast.parse('return True').body[0]]
    for s_ in gb:
        ast.fix_missing_locations(s_)
    t2 = translate_block(gb, 'evidenceGuard', [('all_referenced_supplied', 'bool')], {},
                         doc='`collect_evidence`: the guard after the loop (every referenced UID was supplied)')
    return t1 + '\n\n' + t2, hashlib.sha256(ast.unparse(fn).encode()).hexdigest()


# ---------------------------------------------------------------- T15c: the three tests of find_content_items
def build_T15c(tree):
    """sr/utils.py::find_content_items: the nested predicates `has_name`, `has_value_type`, `has_relationship_type`
    and the conjunction applied to every item.
      Gen.findHasName (given equal : Bool)                  `name is None` / `item.name == name`
      Gen.findHasValueType (given equal : Bool)
      Gen.findHasRelationshipType (given item_has equal : Bool)
    plus shape checks: the item is appended iff all three hold; children are searched iff the item has a ContentSequence and
    `recursive`; matches are appended before the children's matches (document order)."""
    outer = find_func(tree, 'find_content_items')
    parts, shas = [], []

    def pred(qual, lean_name, arg, params, extra=None):
        fn = find_func(tree, f'find_content_items.{qual}')
        body = strip_doc(fn.body)

        class R(ast.NodeTransformer):
            def visit_Compare(self, node):
                t = ast.unparse(node)
                if t == f'{arg} is None':
                    return ast.UnaryOp(op=ast.Not(), operand=ast.Name(id='given', ctx=ast.Load()))
                if t in (f'item.{arg} == {arg}', 'item.name == name'):
                    return ast.Name(id='equal', ctx=ast.Load())
                if extra and t == extra[0]:
                    return ast.Name(id=extra[1], ctx=ast.Load())
                return node

            def visit_Assign(self, node):
                # `value_type = ValueTypeValues(value_type)`: normalisation of the query argument
                if isinstance(node.value, ast.Call) and ast.unparse(node.targets[0]) == arg and ast.unparse(node.value.args[0]) == arg:
                    return None
                return node
        stmts = [x for x in (R().visit(ast.parse(ast.unparse(st)).body[0]) for st in body) if x is not None]
        for x in stmts:
            ast.fix_missing_locations(x)
        parts.append(translate_block(stmts, lean_name, params, {}, doc=f'`find_content_items.{qual}`'))
        shas.append(ast.unparse(fn))
    pred('has_name', 'findHasName', 'name', [('given', 'bool'), ('equal', 'bool')])
    pred('has_value_type', 'findHasValueType', 'value_type', [('given', 'bool'), ('equal', 'bool')])
    pred('has_relationship_type', 'findHasRelationshipType', 'relationship_type',
         [('given', 'bool'), ('item_has_none', 'bool'), ('equal', 'bool')],
         extra=("getattr(item, 'relationship_type', None) is None", 'item_has_none'))
    st = find_func(tree, 'find_content_items.search_tree')
    src = ast.unparse(st)
    norm = ' '.join(src.split())
    for needle in ('for content_item in node.ContentSequence:',
                   'if has_name(item, name) and has_value_type(item, value_type) and has_relationship_type(item, relationship_type): '
                   'matched_content_items.append(content_item)',
                   "if hasattr(content_item, 'ContentSequence') and recursive: matched_content_items += search_tree(",
                   'return matched_content_items'):
        if needle not in norm:
            raise Unsupported(f'find_content_items.search_tree no longer contains `{needle}`')
    if norm.index('matched_content_items.append(content_item)') > norm.index('matched_content_items += search_tree('):
        raise Unsupported('search_tree: children are collected before the item itself')
    if "if not hasattr(dataset, 'ContentSequence'): raise AttributeError(" not in ' '.join(ast.unparse(outer).split()):
        raise Unsupported('find_content_items: guard on the ContentSequence attribute changed')
    shas.append(src)
    return '\n\n'.join(parts), hashlib.sha256(''.join(shas).encode()).hexdigest()


# ---------------------------------------------------------------- T15d: attributes of the parsed root item
def build_T15d(tree):
    """sr/sop.py::_SR.from_dataset: which attributes of the document are put on the root content item that `.content`
    exposes, and from which object they are taken.
      Gen.srParsedRootAttributes : List (String × Bool)   (keyword, copied only when present)
      Gen.srParsedRootSource : String                     the object every one of them is read from
    Shape checks: the template identification is copied before (outside) the test for TID 1500; all three parser calls
    get `[root_item]` and `copy=False`."""
    from py2lean import lean_table
    fn = find_func(tree, '_SR.from_dataset')
    body = strip_doc(fn.body)
    rows, sources = [], set()

    def take(st, conditional):
        if isinstance(st, ast.Assign) and isinstance(st.targets[0], ast.Attribute) and ast.unparse(st.targets[0].value) == 'root_item' \
                and isinstance(st.value, ast.Attribute) and st.value.attr == st.targets[0].attr:
            rows.append((st.targets[0].attr, conditional))
            sources.add(ast.unparse(st.value.value))
            return True
        return False
    for st in body:
        if take(st, False):
            continue
        if isinstance(st, ast.For) and isinstance(st.iter, (ast.Tuple, ast.List)) and ast.unparse(st.target) == 'keyword':
            txt = ' '.join(ast.unparse(st).split())
            m = None
            for src_name in ('sop_instance', 'dataset'):
                if f'if keyword in {src_name}: setattr(root_item, keyword, {src_name}[keyword].value)' in txt:
                    m = src_name
            if m is None:
                raise Unsupported('from_dataset: keyword loop changed')
            sources.add(m)
            for e in st.iter.elts:
                rows.append((e.value, True))
        if isinstance(st, ast.Try):
            first = st.body[0]
            if not take(first, True) or rows[-1][0] != 'ContentTemplateSequence':
                raise Unsupported('from_dataset: the try block no longer starts by copying ContentTemplateSequence onto the root item')
            txt = ' '.join(ast.unparse(st).split())
            if txt.count('[root_item]') != 3 or txt.count('copy=False') != 3:
                raise Unsupported('from_dataset: parser calls changed')
            if "tid_item.TemplateIdentifier == '1500'" not in txt or 'except AttributeError' not in txt:
                raise Unsupported('from_dataset: TID 1500 dispatch changed')
    if len(sources) != 1:
        raise Unsupported(f'from_dataset: root attributes are read from several objects: {sorted(sources)}')
    t1 = lean_table('srParsedRootAttributes', 'List (String × Bool)',
                    [f'("{k}", {"true" if c else "false"})' for k, c in rows],
                    doc='`_SR.from_dataset`: attributes put on the parsed root content item (keyword, only when present)')
    t2 = f'/-- `_SR.from_dataset`: the object the root attributes are read from -/\ndef srParsedRootSource : String := "{sources.pop()}"'
    return t1 + '\n\n' + t2, hashlib.sha256(ast.unparse(fn).encode()).hexdigest()


# ---------------------------------------------------------------- T15e: enumerations of sr/enum.py used by C15/C16
def _enum_values(tree, cls):
    for st in tree.body:
        if isinstance(st, ast.ClassDef) and st.name == cls:
            out = []
            for x in st.body:
                if isinstance(x, ast.Assign) and isinstance(x.value, ast.Constant) and isinstance(x.value.value, str) \
                        and isinstance(x.targets[0], ast.Name):
                    out.append(x.value.value)
            if not out:
                raise Unsupported(f'{cls} has no string members')
            return out
    raise Unsupported(f'enumeration {cls} not found')


def build_T15e(tree):
    """sr/enum.py: the values of ValueTypeValues, RelationshipTypeValues, GraphicTypeValues, GraphicTypeValues3D
    (what `ValueTypeValues(x)` etc. accept)."""
    from py2lean import lean_table
    parts, vals = [], []
    for cls, nm in (('ValueTypeValues', 'srValueTypes'), ('RelationshipTypeValues', 'srRelationshipTypes'),
                    ('GraphicTypeValues', 'srGraphicTypes2D'), ('GraphicTypeValues3D', 'srGraphicTypes3D')):
        v = _enum_values(tree, cls)
        vals.append(v)
        parts.append(lean_table(nm, 'List String', ['"' + x + '"' for x in v], doc=f'`sr/enum.py::{cls}`: the values'))
    return '\n\n'.join(parts), hashlib.sha256(repr(vals).encode()).hexdigest()


TARGETS = {'T15a': {'file': 'sr/sop.py', 'build': build_T15a},
           'T15e': {'file': 'sr/enum.py', 'build': build_T15e},
           'T15d': {'file': 'sr/sop.py', 'build': build_T15d},
           'T15c': {'file': 'sr/utils.py', 'build': build_T15c},
           'T15b': {'file': 'sr/utils.py', 'build': build_T15b}}
