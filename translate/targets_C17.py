"""Translation targets of C17 (sr/coding.py).  One generated file `Generated/T17.lean` with

* `codeValueKeywords`      the literal list `code_value_kws` of `CodedConcept.from_dataset`
* `ctorValueAttr`          the constructor's decision which of these keywords receives the value
                           (index into `codeValueKeywords`) incl. the guard on the meaning's length;
                           `len(value)`, `value.startswith(<lit>)`, `<lit> in value`, `len(meaning)` are inputs,
                           the two literals are emitted as `urnPrefix` / `urlMarker`
* `ctorFixedAssigns`       the unconditional `self.<KW> = str(<param>)` assignments, `ctorOptionalAssigns` the
                           ones guarded by `<param> is not None`, `ctorParams` the parameter order
* `valueLookup`            the order of the nested `getattr`s of the `value` property
* `propertyAttr`           property name -> attribute keyword (`meaning`, `scheme_designator`: mandatory reads,
                           `scheme_version`: `getattr(.., None)`)
* `eqThisArgs`             the properties passed positionally to `Code(...)` in `__eq__` (checked to delegate to
                           `Code.__eq__(this, other)` for `Code`/`CodedConcept` operands), `neNegatesEq`
* `hashArgs`               the properties concatenated inside `hash(...)`
* `fromDatasetDecision`    the decision tree of `from_dataset`: TypeError / AttributeError / which reference is
                           returned (the argument itself or the deep copy)
* `requiredKeywords`       the literal list of the `for kw in [...]` presence loop of `from_dataset`
* `fromCodeReturnsSame`    `from_code` returns its argument when it already is a CodedConcept and otherwise
                           calls the constructor with the unpacked tuple

Everything is read off the *current* AST; a shape that is not recognised raises Unsupported.
"""
from __future__ import annotations

import ast

from py2lean import Unsupported, find_func, span_sha, strip_doc, translate_block, lean_table


def _s(x):
    return '"' + x.replace('\\', '\\\\').replace('"', '\\"') + '"'


def _str_list(node, what):
    if not (isinstance(node, (ast.List, ast.Tuple)) and all(isinstance(e, ast.Constant) and isinstance(e.value, str) for e in node.elts)):
        raise Unsupported(f'{what} is not a literal list of strings')
    return [e.value for e in node.elts]


def _self_prop(node, what):
    if isinstance(node, ast.Attribute) and isinstance(node.value, ast.Name) and node.value.id == 'self':
        return node.attr
    raise Unsupported(f'{what}: expected self.<property>, got {ast.unparse(node)}')


def _is_str_of(node):
    """`str(<name>)` or `<name>` -> name"""
    if isinstance(node, ast.Call) and ast.unparse(node.func) == 'str' and len(node.args) == 1 and isinstance(node.args[0], ast.Name):
        return node.args[0].id
    if isinstance(node, ast.Name):
        return node.id
    return None


_DECORATORS = {'__init__': [], '__hash__': [], '__eq__': [], '__ne__': [], 'from_dataset': ['classmethod'],
               'from_code': ['classmethod'], 'value': ['property'], 'meaning': ['property'],
               'scheme_designator': ['property'], 'scheme_version': ['property']}


def _check_class_shape(tree, cls):
    """every method the model speaks about is a plain method / classmethod / property (no caching or other wrapper),
    and the class has no further member that could take part (an unknown method or class attribute is Unsupported)"""
    node = [n for n in tree.body if isinstance(n, ast.ClassDef) and n.name == cls]
    if len(node) != 1:
        raise Unsupported(f'class {cls} not found')
    seen = {}
    for st in node[0].body:
        if isinstance(st, ast.Expr) and isinstance(st.value, ast.Constant) and isinstance(st.value.value, str):
            continue
        if not isinstance(st, ast.FunctionDef):
            raise Unsupported(f'{cls}: class-level statement outside the recognised shape: {ast.unparse(st)[:60]}')
        seen[st.name] = [ast.unparse(d) for d in st.decorator_list]
    for name, decos in seen.items():
        if name not in _DECORATORS:
            raise Unsupported(f'{cls}.{name}: a member the model does not know')
        if decos != _DECORATORS[name]:
            raise Unsupported(f'{cls}.{name}: decorators {decos} (expected {_DECORATORS[name]})')
    missing = sorted(set(_DECORATORS) - set(seen))
    if missing:
        raise Unsupported(f'{cls}: members not found: {missing}')
    bases = [ast.unparse(b) for b in node[0].bases]
    if bases != ['Dataset']:
        raise Unsupported(f'{cls}: bases {bases}')


def build_T17(tree):
    cls = 'CodedConcept'
    out = []
    shas = []
    _check_class_shape(tree, cls)

    # ------------------------------------------------------------ from_dataset
    fd = find_func(tree, f'{cls}.from_dataset')
    body = strip_doc(fd.body)
    shas.append(span_sha(body))
    kws = None
    count_ok = False
    for st in body:
        if isinstance(st, ast.Assign) and isinstance(st.targets[0], ast.Name):
            if st.targets[0].id == 'code_value_kws':
                kws = _str_list(st.value, 'code_value_kws')
            if st.targets[0].id == 'num_code_values':
                if ''.join(ast.unparse(st.value).split()) != 'sum((hasattr(dataset,kw)forkwincode_value_kws))':
                    raise Unsupported('num_code_values is no longer sum(hasattr(dataset, kw) for kw in code_value_kws)')
                count_ok = True
    if kws is None or not count_ok:
        raise Unsupported('code_value_kws / num_code_values not found in from_dataset')
    out.append(lean_table('codeValueKeywords', 'List String', [_s(k) for k in kws],
                          doc='`code_value_kws` of `CodedConcept.from_dataset`'))
    # decision block: type guard, count guard, unrolled presence loop, copy decision
    block = []
    required = None
    saw_class_assign = False
    for st in body:
        if isinstance(st, ast.Assign) and isinstance(st.targets[0], ast.Name) and st.targets[0].id in ('code_value_kws', 'num_code_values'):
            continue
        if isinstance(st, ast.For):
            if not (isinstance(st.target, ast.Name) and st.target.id == 'kw' and not st.orelse):
                raise Unsupported('presence loop of from_dataset changed shape')
            required = _str_list(st.iter, 'presence loop iterable')
            for k in required:
                class Sub(ast.NodeTransformer):
                    def visit_Name(self, node):
                        if node.id == 'kw':
                            return ast.copy_location(ast.Constant(value=k), node)
                        return node
                for inner in st.body:
                    block.append(Sub().visit(ast.parse(ast.unparse(inner)).body[0]))
            continue
        if isinstance(st, ast.Assign) and isinstance(st.targets[0], ast.Attribute) and st.targets[0].attr == '__class__' \
                and isinstance(st.targets[0].value, ast.Name):
            if ast.unparse(st.value) != 'cls':
                raise Unsupported('concept.__class__ is no longer set to cls')
            saw_class_assign = True
            continue
        block.append(ast.parse(ast.unparse(st)).body[0])
    if required is None or not saw_class_assign:
        raise Unsupported('presence loop / class assignment not found in from_dataset')
    for s in block:
        ast.fix_missing_locations(s)
    attrs = {
        'isinstance(dataset, Dataset)': ('bool', 'isDataset'),
        'deepcopy(dataset)': ('int', 'freshRef'),
    }
    for k in kws + required:
        attrs[f"hasattr(dataset, '{k}')"] = ('bool', 'has' + k)
    # every keyword of code_value_kws becomes a parameter even though only the count is tested
    text = translate_block(block, 'fromDatasetDecision',
                           [('dataset', 'int'), ('copy', 'bool'), ('num_code_values', 'int')], attrs,
                           doc='`CodedConcept.from_dataset`: refusal or the reference returned (`dataset` itself or '
                               '`freshRef` = the deep copy); the class of the returned object is set to `cls`')
    out.append(lean_table('requiredKeywords', 'List String', [_s(k) for k in required],
                          doc='keywords whose absence `from_dataset` refuses'))
    out.append(text)

    # ------------------------------------------------------------ constructor
    init = find_func(tree, f'{cls}.__init__')
    ibody = strip_doc(init.body)
    shas.append(span_sha(ibody))
    params = [a.arg for a in init.args.args if a.arg != 'self']
    out.append(lean_table('ctorParams', 'List String', [_s(p) for p in params], doc='constructor parameters in order'))
    sel_if = None
    guard_if = None
    bs_if = None
    fixed, optional = [], []
    for st in ibody:
        if isinstance(st, ast.Expr) and ast.unparse(st.value) == 'super().__init__()':
            continue
        if isinstance(st, ast.If) and sel_if is None and any(
                isinstance(n, ast.Assign) and isinstance(n.targets[0], ast.Attribute) and n.targets[0].attr in kws
                for n in ast.walk(st)):
            sel_if = st
            continue
        if isinstance(st, ast.If) and 'len(meaning)' in ast.unparse(st.test) and guard_if is None:
            guard_if = st
            continue
        if isinstance(st, ast.If) and bs_if is None and any(
                isinstance(n, ast.Compare) and isinstance(n.ops[0], ast.In) and isinstance(n.left, ast.Constant) and n.left.value == '\\'
                for n in ast.walk(st.test)):
            bs_if = st
            continue
        if isinstance(st, ast.Assign) and len(st.targets) == 1:
            kw = _self_prop(st.targets[0], 'constructor assignment')
            src = _is_str_of(st.value)
            if src is None or src not in params:
                raise Unsupported(f'constructor assignment {ast.unparse(st)} is not self.<KW> = str(<param>)')
            fixed.append((kw, src))
            continue
        if isinstance(st, ast.If) and isinstance(st.test, ast.Compare) and len(st.test.ops) == 1 \
                and isinstance(st.test.ops[0], ast.IsNot) and isinstance(st.test.left, ast.Name) \
                and isinstance(st.test.comparators[0], ast.Constant) and st.test.comparators[0].value is None \
                and not st.orelse and len(st.body) == 1 and isinstance(st.body[0], ast.Assign):
            kw = _self_prop(st.body[0].targets[0], 'optional constructor assignment')
            src = _is_str_of(st.body[0].value)
            if src != st.test.left.id:
                raise Unsupported('optional constructor assignment does not store the tested parameter')
            optional.append((kw, src))
            continue
        raise Unsupported('constructor statement outside the recognised shape: ' + ast.unparse(st)[:80])
    if sel_if is None or guard_if is None:
        raise Unsupported('value selection / meaning guard not found in the constructor')
    # literals of the URN/URL test
    lits = {}
    lowered = False
    for node in ast.walk(sel_if):
        if isinstance(node, ast.Call) and isinstance(node.func, ast.Attribute) and node.func.attr == 'startswith' \
                and ast.unparse(node.func.value) in ('value', 'value.lower()') and len(node.args) == 1 \
                and isinstance(node.args[0], ast.Constant):
            lits['prefix'] = (node.args[0].value, ast.unparse(node))
            lowered = ast.unparse(node.func.value) == 'value.lower()'
        if isinstance(node, ast.Compare) and len(node.ops) == 1 and isinstance(node.ops[0], ast.In) \
                and isinstance(node.left, ast.Constant) and isinstance(node.left.value, str) \
                and ast.unparse(node.comparators[0]) == 'value':
            lits['marker'] = (node.left.value, ast.unparse(node))
    if set(lits) != {'prefix', 'marker'}:
        raise Unsupported('URN prefix / URL marker tests not found in the constructor')

    class Sel(ast.NodeTransformer):
        def visit_Assign(self, node):
            kw = _self_prop(node.targets[0], 'value assignment')
            if kw not in kws:
                raise Unsupported(f'value stored in {kw}, not one of code_value_kws')
            if _is_str_of(node.value) != 'value':
                raise Unsupported('value assignment does not store `value`')
            return ast.copy_location(ast.parse(f'attr = {kws.index(kw)}').body[0], node)
    sel2 = Sel().visit(ast.parse(ast.unparse(sel_if)).body[0])
    blk = [sel2, ast.parse(ast.unparse(guard_if)).body[0], ast.parse('return attr').body[0]]
    bs_attrs = {}
    if bs_if is not None:
        # guard on the value delimiter: every clause `'\\' in <param>` becomes an input, `<param> is not None` too
        if not (len(bs_if.body) == 1 and isinstance(bs_if.body[0], ast.Raise) and not bs_if.orelse):
            raise Unsupported('backslash guard changed shape')
        g2 = ast.parse(ast.unparse(bs_if)).body[0]
        for node in ast.walk(g2.test):
            if isinstance(node, ast.Compare) and isinstance(node.ops[0], ast.In):
                if not (isinstance(node.left, ast.Constant) and node.left.value == '\\' and isinstance(node.comparators[0], ast.Name)
                        and node.comparators[0].id in params):
                    raise Unsupported('backslash guard: unexpected membership test ' + ast.unparse(node))
                bs_attrs[ast.unparse(node)] = ('bool', 'backslashIn_' + node.comparators[0].id)
            elif isinstance(node, ast.Compare) and isinstance(node.ops[0], ast.IsNot):
                if not (isinstance(node.left, ast.Name) and node.left.id in params):
                    raise Unsupported('backslash guard: unexpected test ' + ast.unparse(node))
                bs_attrs[ast.unparse(node)] = ('bool', 'given_' + node.left.id)
        if ibody.index(bs_if) > ibody.index(sel_if):
            raise Unsupported('backslash guard no longer precedes the value assignment')
        blk = [g2] + blk
    for s in blk:
        ast.fix_missing_locations(s)
    cattrs = dict(bs_attrs)
    cattrs.update({
        'len(value)': ('int', 'valueLen'),
        lits['prefix'][1]: ('bool', 'startsWithPrefix'),
        lits['marker'][1]: ('bool', 'containsMarker'),
        'len(meaning)': ('int', 'meaningLen'),
    })
    out.append('/-- the prefix test is made on the lower-cased value -/\ndef urnPrefixCaseInsensitive : Bool := '
               + ('true' if lowered else 'false'))
    out.append(lean_table('ctorBackslashChecked', 'List String',
                          [_s(v[1].split('_', 1)[1]) for k, v in bs_attrs.items() if v[1].startswith('backslashIn_')],
                          doc='constructor parameters refused when they contain the value delimiter'))
    out.append(f'/-- literal of `value.startswith(..)` in the constructor -/\ndef urnPrefix : String := {_s(lits["prefix"][0])}')
    out.append(f'/-- literal of `.. in value` in the constructor -/\ndef urlMarker : String := {_s(lits["marker"][0])}')
    out.append(translate_block(blk, 'ctorValueAttr', [], cattrs,
                               doc='constructor: index into `codeValueKeywords` of the attribute that receives the '
                                   'value (after the guard on the meaning length)'))
    out.append(lean_table('ctorFixedAssigns', 'List (String × String)', [f'({_s(k)}, {_s(p)})' for k, p in fixed],
                          doc='unconditional `self.<KW> = str(<param>)`'))
    out.append(lean_table('ctorOptionalAssigns', 'List (String × String)', [f'({_s(k)}, {_s(p)})' for k, p in optional],
                          doc='`if <param> is not None: self.<KW> = str(<param>)`'))

    # ------------------------------------------------------------ properties
    def prop_body(name):
        fn = find_func(tree, f'{cls}.{name}')
        b = strip_doc(fn.body)
        if len(b) != 1 or not isinstance(b[0], ast.Return):
            raise Unsupported(f'property {name} is not a single return')
        shas.append(span_sha(b))
        return b[0].value
    v = prop_body('value')
    order = []
    node = v
    while True:
        if isinstance(node, ast.Call) and ast.unparse(node.func) == 'getattr' and len(node.args) == 3 \
                and ast.unparse(node.args[0]) == 'self' and isinstance(node.args[1], ast.Constant):
            order.append(node.args[1].value)
            node = node.args[2]
            continue
        if isinstance(node, ast.Constant) and node.value is None:
            break
        raise Unsupported('value property is not a nest of getattr(self, <kw>, ...) ending in None')
    out.append(lean_table('valueLookup', 'List String', [_s(k) for k in order], doc='lookup order of the `value` property'))
    pa = []
    for name in ('meaning', 'scheme_designator'):
        e = prop_body(name)
        pa.append((name, _self_prop(e, f'property {name}'), 'true'))
    e = prop_body('scheme_version')
    if not (isinstance(e, ast.Call) and ast.unparse(e.func) == 'getattr' and len(e.args) == 3 and ast.unparse(e.args[0]) == 'self'
            and isinstance(e.args[1], ast.Constant) and isinstance(e.args[2], ast.Constant) and e.args[2].value is None):
        raise Unsupported('scheme_version is not getattr(self, <kw>, None)')
    pa.append(('scheme_version', e.args[1].value, 'false'))
    out.append(lean_table('propertyAttr', 'List (String × String × Bool)', [f'({_s(n)}, {_s(k)}, {m})' for n, k, m in pa],
                          doc='property -> (attribute keyword, mandatory?)'))

    # ------------------------------------------------------------ __eq__ / __ne__ / __hash__
    eq = find_func(tree, f'{cls}.__eq__')
    eb = strip_doc(eq.body)
    shas.append(span_sha(eb))
    if len(eb) != 2 or not isinstance(eb[0], ast.If) or not isinstance(eb[1], ast.Return):
        raise Unsupported('__eq__ changed shape')
    if 'isinstance(other' not in ''.join(ast.unparse(eb[0].test).split()):
        raise Unsupported('__eq__ no longer tests isinstance(other, ...)')
    ib = eb[0].body
    if len(ib) != 2 or not isinstance(ib[0], ast.Assign) or not isinstance(ib[1], ast.Return) or eb[0].orelse:
        raise Unsupported('__eq__ code branch changed shape')
    call = ib[0].value
    if not (ast.unparse(ib[0].targets[0]) == 'this' and isinstance(call, ast.Call) and ast.unparse(call.func) == 'Code' and not call.keywords):
        raise Unsupported('__eq__ no longer builds this = Code(...) positionally')
    this_args = [_self_prop(a, '__eq__ Code argument') for a in call.args]
    if ''.join(ast.unparse(ib[1].value).split()) != 'Code.__eq__(this,other)':
        raise Unsupported('__eq__ no longer returns Code.__eq__(this, other)')
    out.append(lean_table('eqThisArgs', 'List String', [_s(a) for a in this_args],
                          doc='`__eq__`: properties passed positionally to `Code(...)`; the result is `Code.__eq__(this, other)`'))
    ne = find_func(tree, f'{cls}.__ne__')
    nb = strip_doc(ne.body)
    shas.append(span_sha(nb))
    if len(nb) != 1 or not isinstance(nb[0], ast.Return):
        raise Unsupported('__ne__ is no longer a single return')
    out.append('/-- `__ne__` is `not (self == other)` -/\ndef neNegatesEq : Bool := '
               + ('true' if ''.join(ast.unparse(nb[0]).split()) in ('returnnot(self==other)', 'returnnotself==other') else 'false'))
    # the same three methods once more as PROGRAMS (bridged to the hand-written dispatch in Proofs/CodingTie.lean)
    class EqPlan(ast.NodeTransformer):
        def visit_Assign(self, node):
            if ast.unparse(node.targets[0]) == 'this':
                return None
            return node

        def visit_Return(self, node):
            t = ''.join(ast.unparse(node.value).split())
            if t == 'Code.__eq__(this,other)':
                return ast.copy_location(ast.parse('return 0').body[0], node)
            if t == 'super().__eq__(other)':
                return ast.copy_location(ast.parse('return 1').body[0], node)
            raise Unsupported('__eq__ returns something else: ' + t[:60])
    eq_blk = [EqPlan().visit(ast.parse(ast.unparse(st)).body[0]) for st in eb]
    import re as _re

    class Isinst(ast.NodeTransformer):
        def visit_Call(self, node):
            if ast.unparse(node.func) == 'isinstance' and ast.unparse(node.args[0]) == 'other':
                cl = node.args[1].elts if isinstance(node.args[1], ast.Tuple) else [node.args[1]]
                names = [ast.unparse(c) for c in cl]
                if not set(names) <= {'Code', 'CodedConcept'}:
                    raise Unsupported('__eq__: isinstance against ' + ','.join(names))
                e = ' or '.join('other_is_' + n for n in names)
                return ast.copy_location(ast.parse('(' + e + ')', mode='eval').body, node)
            return node
    eq_blk = [Isinst().visit(st) for st in eq_blk]
    for st in eq_blk:
        ast.fix_missing_locations(st)
    out.append(translate_block(eq_blk, 'conceptEqPlan', [('other_is_Code', 'bool'), ('other_is_CodedConcept', 'bool')], {},
                               doc='`CodedConcept.__eq__` as a program: 0 = `Code.__eq__(this, other)` with `this = Code(<eqThisArgs>)`, '
                                   '1 = `Dataset.__eq__` (comparison of whole datasets, meaning included)'))
    ne_blk = [ast.parse(ast.unparse(nb[0])).body[0]]
    out.append(translate_block(ne_blk, 'conceptNeOf', [], {'self == other': ('bool', 'eqResult')},
                               doc='`CodedConcept.__ne__` as an expression over the result of `self == other`'))
    hs = find_func(tree, f'{cls}.__hash__')
    hb = strip_doc(hs.body)
    shas.append(span_sha(hb))
    if len(hb) != 1 or not isinstance(hb[0], ast.Return) or not (isinstance(hb[0].value, ast.Call) and ast.unparse(hb[0].value.func) == 'hash'
                                                                 and len(hb[0].value.args) == 1):
        raise Unsupported('__hash__ is no longer return hash(<expr>)')

    def concat(n):
        if isinstance(n, ast.BinOp) and isinstance(n.op, ast.Add):
            return concat(n.left) + concat(n.right)
        return [_self_prop(n, '__hash__ operand')]
    out.append(lean_table('hashArgs', 'List String', [_s(a) for a in concat(hb[0].value.args[0])],
                          doc='`__hash__`: properties concatenated inside `hash(...)`'))

    # ------------------------------------------------------------ from_code
    fc = find_func(tree, f'{cls}.from_code')
    fb = strip_doc(fc.body)
    shas.append(span_sha(fb))
    txt = [''.join(ast.unparse(s).split()) for s in fb]
    if not txt or txt[-1] != 'returncls(*code)':
        raise Unsupported('from_code no longer ends in return cls(*code)')
    out.append('/-- `from_code`: an existing CodedConcept is returned as is, a Code is unpacked into the constructor -/\n'
               'def fromCodeReturnsSame : Bool := ' + ('true' if txt[0] == 'ifisinstance(code,cls):returncode' else 'false'))

    class FcPlan(ast.NodeTransformer):
        def visit_Return(self, node):
            t = ''.join(ast.unparse(node.value).split())
            if t == 'code':
                return ast.copy_location(ast.parse('return 0').body[0], node)
            if t == 'cls(*code)':
                return ast.copy_location(ast.parse('return 1').body[0], node)
            raise Unsupported('from_code returns something else: ' + t[:60])
    fc_blk = [FcPlan().visit(ast.parse(ast.unparse(st)).body[0]) for st in fb]
    for st in fc_blk:
        ast.fix_missing_locations(st)
    out.append(translate_block(fc_blk, 'fromCodePlan', [], {'isinstance(code, cls)': ('bool', 'codeIsConcept')},
                               doc='`CodedConcept.from_code` as a program: 0 = the argument itself is returned, 1 = `cls(*code)`'))
    import hashlib
    return '\n\n'.join(out), hashlib.sha256(''.join(shas).encode()).hexdigest()


TARGETS = {'T17': {'file': 'sr/coding.py', 'build': build_T17}}


# ---------------------------------------------------------------------------------------------------------------
# pydicom's own `Code` (translated, not trusted): /venv/.../pydicom/sr/coding.py and _snomed_dict.py
def _pydicom_dir():
    import importlib.util
    import os
    if os.environ.get('HDV_PYDICOM_SR_DIR'):      # sensitivity tests of the tie only: a scratch copy of pydicom/sr
        return os.environ['HDV_PYDICOM_SR_DIR']
    spec = importlib.util.find_spec('pydicom')
    if spec is None or not spec.submodule_search_locations:
        raise Unsupported('pydicom not importable')
    import os
    return os.path.join(list(spec.submodule_search_locations)[0], 'sr')


_FIELD = {'value': 'value', 'scheme_designator': 'scheme', 'meaning': 'meaning', 'scheme_version': 'version'}

_PREAMBLE = '''/-- pydicom `Code` named tuple; any field may hold `None` -/
structure PCode where
  value : Option String
  scheme : Option String
  meaning : Option String
  version : Option String
  deriving DecidableEq, Repr

/-- `x in snomed_mapping[s]` (a `None` is in no dictionary) -/
def dictHas (mapping : String → String → Option String) (s : String) (x : Option String) : Bool :=
  match x with
  | some v => (mapping s v).isSome
  | none => false

/-- `snomed_mapping[s][x]` -/
def dictGet (mapping : String → String → Option String) (s : String) (x : Option String) : Option String :=
  match x with
  | some v => mapping s v
  | none => none'''


def build_T17p(_tree):
    import os
    path = os.path.join(_pydicom_dir(), 'coding.py')
    tree = ast.parse(open(path).read())
    eq = find_func(tree, 'Code.__eq__')
    body = strip_doc(eq.body)
    reads = {'self': [], 'other': []}
    schemes = []

    def ex(n):
        if isinstance(n, ast.Attribute) and isinstance(n.value, ast.Name):
            base = n.value.id
            if n.attr not in _FIELD:
                raise Unsupported(f'pydicom Code.__eq__: unknown field {n.attr}')
            if base in ('self', 'other'):
                if n.attr not in reads[base]:
                    reads[base].append(n.attr)
                return f'{base}.{_FIELD[n.attr]}'
            if base in ('self_mapped', 'other_mapped'):
                return f'{base}.{_FIELD[n.attr]}'
            raise Unsupported(f'pydicom Code.__eq__: attribute of {base}')
        if isinstance(n, ast.Constant) and isinstance(n.value, str):
            return f'(some {_s(n.value)})'
        if isinstance(n, ast.Constant) and n.value is None:
            return '(none : Option String)'
        if isinstance(n, ast.Compare) and len(n.ops) == 1:
            if isinstance(n.ops[0], ast.Eq):
                return f'({ex(n.left)} == {ex(n.comparators[0])})'
            if isinstance(n.ops[0], ast.In):
                c = n.comparators[0]
                if isinstance(c, ast.Subscript) and ast.unparse(c.value) == 'snomed_mapping' and isinstance(c.slice, ast.Constant):
                    schemes.append(c.slice.value)
                    return f'(dictHas mapping {_s(c.slice.value)} {ex(n.left)})'
        if isinstance(n, ast.Subscript) and isinstance(n.value, ast.Subscript) and ast.unparse(n.value.value) == 'snomed_mapping' \
                and isinstance(n.value.slice, ast.Constant):
            schemes.append(n.value.slice.value)
            return f'(dictGet mapping {_s(n.value.slice.value)} {ex(n.slice)})'
        if isinstance(n, ast.BoolOp) and isinstance(n.op, ast.And):
            return '(' + ' && '.join(ex(v) for v in n.values) + ')'
        if isinstance(n, ast.Call) and ast.unparse(n.func) == 'Code' and not n.args:
            kw = {k.arg: ex(k.value) for k in n.keywords}
            if set(kw) != set(_FIELD):
                raise Unsupported('pydicom Code.__eq__: Code(...) without all four keywords')
            return ('({ value := ' + kw['value'] + ', scheme := ' + kw['scheme_designator'] + ', meaning := ' + kw['meaning'] +
                    ', version := ' + kw['scheme_version'] + ' } : PCode)')
        raise Unsupported('pydicom Code.__eq__: expression outside the fragment: ' + ast.unparse(n)[:70])
    lines = []
    for st in body:
        if isinstance(st, ast.If):
            if len(st.body) != 1 or len(st.orelse) != 1 or not isinstance(st.body[0], ast.Assign) or not isinstance(st.orelse[0], ast.Assign) \
                    or ast.unparse(st.body[0].targets[0]) != ast.unparse(st.orelse[0].targets[0]):
                raise Unsupported('pydicom Code.__eq__: mapping block changed shape')
            name = ast.unparse(st.body[0].targets[0])
            lines.append(f'  let {name} : PCode := if {ex(st.test)} then {ex(st.body[0].value)} else {ex(st.orelse[0].value)}')
        elif isinstance(st, ast.Return):
            lines.append('  ' + ex(st.value))
        else:
            raise Unsupported('pydicom Code.__eq__: unexpected statement ' + ast.unparse(st)[:60])
    out = [_PREAMBLE]
    out.append('/-- pydicom `Code.__eq__(self, other)` with the attribute values of `other` already read; `mapping s v` is '
               '`snomed_mapping[s].get(v)` -/\n'
               'def pydCodeEq (mapping : String → String → Option String) (self other : PCode) : Bool :=\n' + '\n'.join(lines))
    out.append(lean_table('pydEqOtherReads', 'List String', [_s(a) for a in reads['other']],
                          doc='attributes of `other` read by `Code.__eq__` (in order of first use)'))
    out.append(lean_table('pydEqSchemesUsed', 'List String', [_s(a) for a in dict.fromkeys(schemes)],
                          doc='keys of `snomed_mapping` consulted by `Code.__eq__`'))
    ne = find_func(tree, 'Code.__ne__')
    nb = strip_doc(ne.body)
    if len(nb) != 1 or ''.join(ast.unparse(nb[0]).split()) not in ('returnnot(self==other)', 'returnnotself==other'):
        raise Unsupported('pydicom Code.__ne__ is no longer `not (self == other)`')
    out.append('/-- pydicom `Code.__ne__` is `not (self == other)` -/\ndef pydNeNegatesEq : Bool := true')
    hs = find_func(tree, 'Code.__hash__')
    hb = strip_doc(hs.body)
    if len(hb) != 1 or not isinstance(hb[0], ast.Return) or not (isinstance(hb[0].value, ast.Call) and ast.unparse(hb[0].value.func) == 'hash'
                                                                 and len(hb[0].value.args) == 1):
        raise Unsupported('pydicom Code.__hash__ is no longer return hash(<expr>)')

    def concat(n):
        if isinstance(n, ast.BinOp) and isinstance(n.op, ast.Add):
            return concat(n.left) + concat(n.right)
        return [_self_prop(n, 'pydicom __hash__ operand')]
    out.append(lean_table('pydHashArgs', 'List String', [_s(a) for a in concat(hb[0].value.args[0])],
                          doc='pydicom `Code.__hash__`: fields concatenated inside `hash(...)`'))
    # field order of the named tuple (positional construction `Code(a, b, c, d)` / `cls(*code)`)
    cls = [n for n in tree.body if isinstance(n, ast.ClassDef) and n.name == 'Code'][0]
    fields = [st.target.id for st in cls.body if isinstance(st, ast.AnnAssign) and isinstance(st.target, ast.Name)]
    out.append(lean_table('pydCodeFields', 'List String', [_s(a) for a in fields], doc='field order of the `Code` named tuple'))
    import hashlib
    return '\n\n'.join(out), hashlib.sha256((span_sha(body) + span_sha(nb) + span_sha(hb) + ','.join(fields)).encode()).hexdigest()


def build_T17m(_tree):
    """the retired-scheme tables of `pydicom.sr._snomed_dict.mapping` that `Code.__eq__` consults, as Lean data"""
    import os
    import hashlib
    d = _pydicom_dir()
    ctree = ast.parse(open(os.path.join(d, 'coding.py')).read())
    eq = find_func(ctree, 'Code.__eq__')
    used = []
    for n in ast.walk(eq):
        if isinstance(n, ast.Subscript) and ast.unparse(n.value) == 'snomed_mapping' and isinstance(n.slice, ast.Constant):
            if n.slice.value not in used:
                used.append(n.slice.value)
    mtree = ast.parse(open(os.path.join(d, '_snomed_dict.py')).read())
    mapping = None
    for st in mtree.body:
        tgt = st.targets[0] if isinstance(st, ast.Assign) else (st.target if isinstance(st, ast.AnnAssign) else None)
        if tgt is None or getattr(st, 'value', None) is None:
            continue
        if isinstance(tgt, ast.Name) and tgt.id == 'mapping':
            mapping = ast.literal_eval(st.value)
        elif isinstance(tgt, ast.Subscript) and ast.unparse(tgt.value) == 'mapping' and isinstance(tgt.slice, ast.Constant) \
                and isinstance(mapping, dict):
            mapping[tgt.slice.value] = ast.literal_eval(st.value)
        elif 'mapping' in ast.unparse(tgt):
            raise Unsupported('unexpected assignment to mapping in _snomed_dict.py: ' + ast.unparse(tgt)[:60])
    if not isinstance(mapping, dict):
        raise Unsupported('pydicom.sr._snomed_dict.mapping not found as a literal dictionary')
    out = []
    tabs = []
    h = hashlib.sha256()
    for s in used:
        if s not in mapping:
            raise Unsupported(f'snomed_mapping has no key {s}')
        items = list(mapping[s].items())
        names = []
        for i in range(0, len(items), 200):
            nm = f'snomed{s}Chunk{i // 200}'
            names.append(nm)
            out.append(f'def {nm} : List (String × String) :=\n  [' + ',\n   '.join(f'({_s(k)}, {_s(v)})' for k, v in items[i:i + 200]) + ']')
        out.append(f'/-- `snomed_mapping[{s!r}]` ({len(items)} entries) -/\ndef snomed{s} : List (String × String) := List.flatten [' + ', '.join(names) + ']')
        tabs.append(f'({_s(s)}, snomed{s})')
        for k, v in items:
            h.update(f'{s}|{k}|{v}\n'.encode())
    out.append('/-- the tables `Code.__eq__` consults, by key of `snomed_mapping` -/\n'
               'def snomedTables : List (String × List (String × String)) := [' + ', '.join(tabs) + ']')
    return '\n\n'.join(out), h.hexdigest()


TARGETS['T17p'] = {'file': 'sr/coding.py', 'build': build_T17p}
TARGETS['T17m'] = {'file': 'sr/coding.py', 'build': build_T17m}
