"""Translation targets owned by C12: tile counts and offsets of the tiling helpers in spatial.py / utils.py.

T7a  spatial.tile_pixel_matrix                   -> Gen.tilesPerAxisCeil     (int(np.ceil(n / t)) per axis)
T7b  spatial.compute_tile_positions_per_frame    -> Gen.tilesPerAxisFloor    ((n - 1) // t + 1 per axis)
T7c  utils.compute_plane_position_tiled_full     -> Gen.planePositionOffsets (guard, 0-based offsets, 1-based position)
T7d  utils.are_plane_positions_tiled_full        -> Gen.tfInit, Gen.tfMaxStep, Gen.tfRanges, Gen.tfMatchStep
T7e  spatial.iter_tiled_full_frame_data          -> Gen.tiledFullZOffset     (z origin of a focal plane; loop nest pinned)
T7f  spatial._get_spatial_information (TILED_FULL)-> Gen.tiledFullFrameSlice  (frame number -> item of the iteration; statement pinned)
"""
from __future__ import annotations

import ast
import hashlib

from py2lean import Unsupported, find_func, span_sha, strip_doc, translate_block
from targets import assigns_to


def _norm(node):
    return ''.join(ast.unparse(node).split())


def _fresh(stmts):
    out = [ast.parse(ast.unparse(s)).body[0] for s in stmts]
    for s in out:
        ast.fix_missing_locations(s)
    return out


def build_T7a(tree):
    fn = find_func(tree, 'tile_pixel_matrix')
    stmts = assigns_to(fn, ['tiles_per_col', 'tiles_per_row'])
    body = strip_doc(fn.body)
    txt = ''.join(_norm(s) for s in body)
    # the enumeration itself (hand-modelled as `Tiling.tileIndexEnum`) is pinned textually
    for needle in ('tile_row_indices=iter(range(1,tiles_per_col+1))', 'tile_col_indices=iter(range(1,tiles_per_row+1))',
                   'return((c,r)forr,cinitertools.product(tile_row_indices,tile_col_indices))'):
        if needle not in txt:
            raise Unsupported('tile_pixel_matrix enumeration changed (missing ' + needle + ')')
    block = _fresh(stmts + [ast.parse('return (tiles_per_col, tiles_per_row)').body[0]])
    text = translate_block(
        block, 'tilesPerAxisCeil',
        [('total_pixel_matrix_rows', 'int'), ('total_pixel_matrix_columns', 'int'), ('rows', 'int'), ('columns', 'int')], {},
        doc='`spatial.tile_pixel_matrix`: (tiles_per_col, tiles_per_row) = number of tile rows, number of tile columns')
    return text, span_sha(stmts) + hashlib.sha256(txt.encode()).hexdigest()[:8]


def build_T7b(tree):
    fn = find_func(tree, 'compute_tile_positions_per_frame')
    stmts = assigns_to(fn, ['tiles_per_column', 'tiles_per_row'])
    body = strip_doc(fn.body)
    txt = ''.join(_norm(s) for s in body)
    for needle in ("np.meshgrid(range(tiles_per_column),range(tiles_per_row),indexing='xy')", '.reshape(2,-1).T',
                   'pixel_indices=tile_indices*[columns,rows]', 'image_positions=transformer(pixel_indices)',
                   'pixel_indices+=1', 'zip(pixel_indices.tolist(),image_positions.tolist())'):
        if needle not in txt:
            raise Unsupported('compute_tile_positions_per_frame enumeration changed (missing ' + needle + ')')
    if txt.find('image_positions=transformer(pixel_indices)') > txt.find('pixel_indices+=1'):
        raise Unsupported('compute_tile_positions_per_frame: positions no longer computed from 0-based pixel indices')
    block = _fresh(stmts + [ast.parse('return (tiles_per_column, tiles_per_row)').body[0]])
    text = translate_block(
        block, 'tilesPerAxisFloor',
        [('rows', 'int'), ('columns', 'int'), ('total_pixel_matrix_rows', 'int'), ('total_pixel_matrix_columns', 'int')], {},
        doc='`spatial.compute_tile_positions_per_frame`: (tiles_per_column, tiles_per_row) = number of tile COLUMNS, '
            'number of tile ROWS (the names in the source are the other way round)')
    return text, span_sha(stmts) + hashlib.sha256(txt.encode()).hexdigest()[:8]


def build_T7c(tree):
    fn = find_func(tree, 'compute_plane_position_tiled_full')
    body = strip_doc(fn.body)
    guard = None
    for s in body:
        if isinstance(s, ast.If) and 'row_index' in ast.unparse(s.test) and any(isinstance(x, ast.Raise) for x in s.body):
            guard = s
            break
    if guard is None:
        raise Unsupported('index guard of compute_plane_position_tiled_full not found')
    stmts = assigns_to(fn, ['row_offset_frame', 'column_offset_frame'])
    idx = pmp = None
    for node in ast.walk(fn):
        if isinstance(node, ast.keyword) and node.arg == 'index' and isinstance(node.value, ast.Tuple):
            idx = node.value
        if isinstance(node, ast.keyword) and node.arg == 'pixel_matrix_position' and isinstance(node.value, ast.Tuple):
            pmp = node.value
    if idx is None or pmp is None or len(idx.elts) != 2 or len(pmp.elts) != 2:
        raise Unsupported('index= / pixel_matrix_position= tuples not found in compute_plane_position_tiled_full')
    ret = ast.Return(value=ast.Tuple(elts=[*idx.elts, *pmp.elts], ctx=ast.Load()))
    block = _fresh([guard] + stmts + [ret])
    text = translate_block(
        block, 'planePositionOffsets',
        [('row_index', 'int'), ('column_index', 'int'), ('rows', 'int'), ('columns', 'int')], {},
        doc='`utils.compute_plane_position_tiled_full`: (pixel index handed to map_pixel_into_coordinate_system '
            '(column, row; 0-based), pixel_matrix_position (column, row; 1-based)) of the tile with 1-based tile '
            'indices (row_index, column_index)')
    return text, span_sha([guard] + stmts) + hashlib.sha256((_norm(idx) + _norm(pmp)).encode()).hexdigest()[:8]


def build_T7d(tree):
    fn = find_func(tree, 'are_plane_positions_tiled_full')
    body = strip_doc(fn.body)
    fors = [s for s in body if isinstance(s, ast.For)]
    if len(fors) != 2:
        raise Unsupported('are_plane_positions_tiled_full no longer has two loops')
    if _norm(fors[0].target) != 'plane_position' or _norm(fors[0].iter) != 'plane_positions':
        raise Unsupported('first loop of are_plane_positions_tiled_full changed')
    if _norm(fors[1].target) != '((r_exp,c_exp),plane_position)' or \
            _norm(fors[1].iter) != 'zip(expected_positions,plane_positions)':
        raise Unsupported('second loop of are_plane_positions_tiled_full changed')
    attrs = {'plane_position[0].RowPositionInTotalImagePixelMatrix': ('int', 'rowPos'),
             'plane_position[0].ColumnPositionInTotalImagePixelMatrix': ('int', 'colPos')}
    init = assigns_to(_fnlike([s for s in body if isinstance(s, ast.Assign)]), ['max_r', 'max_c'])
    t0 = translate_block(_fresh(init + [ast.parse('return (max_r, max_c)').body[0]]), 'tfInit', [], {},
                         doc='`are_plane_positions_tiled_full`: initial (max_r, max_c)')
    t1 = translate_block(_fresh(list(fors[0].body) + [ast.parse('return (max_r, max_c)').body[0]]), 'tfMaxStep',
                         [('max_r', 'int'), ('max_c', 'int')], attrs,
                         doc='`are_plane_positions_tiled_full`: body of the first loop, new (max_r, max_c)')
    comp = [n for n in ast.walk(fn) if isinstance(n, ast.ListComp)]
    if len(comp) != 1 or _norm(comp[0].elt) != '(r,c)' or len(comp[0].generators) != 1:
        raise Unsupported('expected_positions comprehension changed')
    g = comp[0].generators[0]
    if _norm(g.target) != '(r,c)' or g.ifs or not (isinstance(g.iter, ast.Call) and _norm(g.iter.func) == 'itertools.product'
                                                     and len(g.iter.args) == 2):
        raise Unsupported('expected_positions is no longer a product of two ranges')
    rargs = []
    for a in g.iter.args:
        if not (isinstance(a, ast.Call) and _norm(a.func) == 'range' and len(a.args) == 3):
            raise Unsupported('expected_positions ranges changed')
        rargs += list(a.args)
    t2 = translate_block(_fresh([ast.Return(value=ast.Tuple(elts=rargs, ctx=ast.Load()))]), 'tfRanges',
                         [('max_r', 'int'), ('max_c', 'int'), ('rows', 'int'), ('columns', 'int')], {},
                         doc='`are_plane_positions_tiled_full`: (start, stop, step) of the row range and of the column '
                             'range whose row-major product is the expected position list')
    t3 = translate_block(_fresh(list(fors[1].body) + [ast.parse('return True').body[0]]), 'tfMatchStep',
                         [('r_exp', 'int'), ('c_exp', 'int')], attrs,
                         doc='`are_plane_positions_tiled_full`: body of the second loop (False = mismatch, stop)')
    # the glue between the translated pieces is pinned textually
    txt = ''.join(_norm(s) for s in body)
    for needle in ('iflen(expected_positions)!=len(plane_positions):returnFalse', 'returnTrue'):
        if needle not in txt:
            raise Unsupported('are_plane_positions_tiled_full glue changed (missing ' + needle + ')')
    if not (isinstance(body[-1], ast.Return) and _norm(body[-1].value) == 'True'):
        raise Unsupported('are_plane_positions_tiled_full no longer ends in return True')
    return '\n\n'.join([t0, t1, t2, t3]), span_sha(body)


def _fnlike(stmts):
    """minimal node accepted by targets.assigns_to (needs .name and to be walkable): top-level statements only"""
    return ast.FunctionDef(name='are_plane_positions_tiled_full (top level)', args=None, body=stmts, decorator_list=[])


def build_T7e(tree):
    """`iter_tiled_full_frame_data`: z offset of a focal plane; the loop nest, the channel lists, the call of
    compute_tile_positions_per_frame and the yielded tuple are pinned textually"""
    fn = find_func(tree, 'iter_tiled_full_frame_data')
    stmts = assigns_to(fn, ['z_offset'])
    if len(stmts) != 1:
        raise Unsupported('iter_tiled_full_frame_data: z_offset is no longer assigned exactly once')
    body = strip_doc(fn.body)
    txt = ''.join(_norm(s) for s in body)
    for needle in ("channels=[None]", "channels=range(1,len(dataset.SegmentSequence)+1)", "channels=range(1,num_optical_paths+1)",
                   "num_focal_planes=getattr(dataset,'TotalPixelMatrixFocalPlanes',1)",
                   "spacing_between_slices=float(getattr(pixel_measures,'SpacingBetweenSlices',1.0))",
                   "forchannelinchannels:forslice_indexinrange(1,num_focal_planes+1):",
                   "foroffsets,coordsincompute_tile_positions_per_frame(rows=dataset.Rows,columns=dataset.Columns,"
                   "total_pixel_matrix_rows=dataset.TotalPixelMatrixRows,total_pixel_matrix_columns=dataset.TotalPixelMatrixColumns,"
                   "total_pixel_matrix_image_position=(x_offset,y_offset,z_offset),image_orientation=image_orientation,"
                   "pixel_spacing=pixel_spacing):",
                   "yield(channel,slice_index,int(offsets[0]),int(offsets[1]),float(coords[0]),float(coords[1]),float(coords[2]))"):
        if needle not in txt:
            raise Unsupported('iter_tiled_full_frame_data changed (missing ' + needle[:60] + ')')
    block = _fresh(stmts + [ast.parse('return z_offset').body[0]])
    if "z_origin=float(getattr(image_origin,'ZOffsetInSlideCoordinateSystem',0.0))" not in txt:
        raise Unsupported('iter_tiled_full_frame_data: z_origin is no longer the z offset of the total pixel matrix origin (default 0)')
    text = translate_block(block, 'tiledFullZOffset', [('slice_index', 'int'), ('spacing_between_slices', 'rat'), ('z_origin', 'rat')], {},
                           doc='`spatial.iter_tiled_full_frame_data`: z origin of focal plane `slice_index` (1-based); `z_origin` = '
                               'ZOffsetInSlideCoordinateSystem of the total pixel matrix origin (0 when absent)')
    return text, span_sha(stmts) + hashlib.sha256(txt.encode()).hexdigest()[:8]


def build_T7f(tree):
    """`_get_spatial_information`, TILED_FULL branch: the frame with number k takes the position of the k-th item of
    iter_tiled_full_frame_data (`next(itertools.islice(iter_tiled_full_frame_data(dataset), frame_number - 1, frame_number))`).
    The statement is pinned; its two islice bounds are translated."""
    fn = find_func(tree, '_get_spatial_information')
    hit = None
    for node in ast.walk(fn):
        if isinstance(node, ast.If) and _norm(node.test) == 'is_tiled_full':
            for st in node.body:
                if isinstance(st, ast.Assign) and 'iter_tiled_full_frame_data' in ast.unparse(st):
                    hit = st
    if hit is None:
        raise Unsupported('_get_spatial_information: TILED_FULL branch no longer takes the position from iter_tiled_full_frame_data')
    if _norm(hit.targets[0]) != '(_,_,_,_,*position)':
        raise Unsupported('_get_spatial_information: unpacking of the per-frame item changed: ' + _norm(hit.targets[0]))
    v = hit.value
    ok = (isinstance(v, ast.Call) and _norm(v.func) == 'next' and len(v.args) == 1 and isinstance(v.args[0], ast.Call)
          and _norm(v.args[0].func) == 'itertools.islice' and len(v.args[0].args) == 3
          and _norm(v.args[0].args[0]) == 'iter_tiled_full_frame_data(dataset)')
    if not ok:
        raise Unsupported('_get_spatial_information: no longer next(itertools.islice(iter_tiled_full_frame_data(dataset), a, b))')
    lo, hi = v.args[0].args[1], v.args[0].args[2]
    block = _fresh([ast.Return(value=ast.Tuple(elts=[lo, hi], ctx=ast.Load()))])
    text = translate_block(block, 'tiledFullFrameSlice', [('frame_number', 'int')], {},
                           doc='`spatial._get_spatial_information` (TILED_FULL): bounds `(a, b)` of the `islice` of '
                               '`iter_tiled_full_frame_data` whose first item gives the position of frame `frame_number`')
    return text, span_sha([hit])


TARGETS = {
    'T7a': {'file': 'spatial.py', 'build': build_T7a},
    'T7b': {'file': 'spatial.py', 'build': build_T7b},
    'T7c': {'file': 'utils.py', 'build': build_T7c},
    'T7d': {'file': 'utils.py', 'build': build_T7d},
    'T7e': {'file': 'spatial.py', 'build': build_T7e},
    'T7f': {'file': 'spatial.py', 'build': build_T7f},
}
