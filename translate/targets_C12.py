"""Translation targets owned by C12: tile counts and offsets of the tiling helpers in spatial.py / utils.py.

T7a  spatial.tile_pixel_matrix                   -> Gen.tilesPerAxisCeil     (int(np.ceil(n / t)) per axis)
T7b  spatial.compute_tile_positions_per_frame    -> Gen.tilesPerAxisFloor    ((n - 1) // t + 1 per axis)
T7c  utils.compute_plane_position_tiled_full     -> Gen.planePositionOffsets (guard, 0-based offsets, 1-based position)
T7d  utils.are_plane_positions_tiled_full        -> Gen.tfInit, Gen.tfMaxStep, Gen.tfRanges, Gen.tfMatchStep
T7e  spatial.iter_tiled_full_frame_data          -> Gen.tiledFullZOffset     (z origin of a focal plane; loop nest pinned)
T7f  spatial._get_spatial_information (TILED_FULL)-> Gen.tiledFullFrameSlice  (frame number -> item of the iteration; statement pinned)
"""
from __future__ import annotations

import ast
import hashlib

from py2lean import Unsupported, find_func, span_sha, strip_doc, translate_block
from targets import assigns_to


def _norm(node):
    return ''.join(ast.unparse(node).split())


def _fresh(stmts):
    out = [ast.parse(ast.unparse(s)).body[0] for s in stmts]
    for s in out:
        ast.fix_missing_locations(s)
    return out


def build_T7a(tree):
    fn = find_func(tree, 'tile_pixel_matrix')
    stmts = assigns_to(fn, ['tiles_per_col', 'tiles_per_row'])
    body = strip_doc(fn.body)
    txt = ''.join(_norm(s) for s in body)
    # the enumeration itself (hand-modelled as `Tiling.tileIndexEnum`) is pinned textually
    for needle in ('tile_row_indices=iter(range(1,tiles_per_col+1))', 'tile_col_indices=iter(range(1,tiles_per_row+1))',
                   'return((c,r)forr,cinitertools.product(tile_row_indices,tile_col_indices))'):
        if needle not in txt:
            raise Unsupported('tile_pixel_matrix enumeration changed (missing ' + needle + ')')
    block = _fresh(stmts + [ast.parse('return (tiles_per_col, tiles_per_row)').body[0]])
    text = translate_block(
        block, 'tilesPerAxisCeil',
        [('total_pixel_matrix_rows', 'int'), ('total_pixel_matrix_columns', 'int'), ('rows', 'int'), ('columns', 'int')], {},
        doc='`spatial.tile_pixel_matrix`: (tiles_per_col, tiles_per_row) = number of tile rows, number of tile columns')
    return text, span_sha(stmts) + hashlib.sha256(txt.encode()).hexdigest()[:8]


def build_T7b(tree):
    fn = find_func(tree, 'compute_tile_positions_per_frame')
    stmts = assigns_to(fn, ['tiles_per_column', 'tiles_per_row'])
    body = strip_doc(fn.body)
    txt = ''.join(_norm(s) for s in body)
    for needle in ("np.meshgrid(range(tiles_per_column),range(tiles_per_row),indexing='xy')", '.reshape(2,-1).T',
                   'pixel_indices=tile_indices*[columns,rows]', 'image_positions=transformer(pixel_indices)',
                   'pixel_indices+=1', 'zip(pixel_indices.tolist(),image_positions.tolist())'):
        if needle not in txt:
            raise Unsupported('compute_tile_positions_per_frame enumeration changed (missing ' + needle + ')')
    if txt.find('image_positions=transformer(pixel_indices)') > txt.find('pixel_indices+=1'):
        raise Unsupported('compute_tile_positions_per_frame: positions no longer computed from 0-based pixel indices')
    block = _fresh(stmts + [ast.parse('return (tiles_per_column, tiles_per_row)').body[0]])
    text = translate_block(
        block, 'tilesPerAxisFloor',
        [('rows', 'int'), ('columns', 'int'), ('total_pixel_matrix_rows', 'int'), ('total_pixel_matrix_columns', 'int')], {},
        doc='`spatial.compute_tile_positions_per_frame`: (tiles_per_column, tiles_per_row) = number of tile COLUMNS, '
            'number of tile ROWS (the names in the source are the other way round)')
    return text, span_sha(stmts) + hashlib.sha256(txt.encode()).hexdigest()[:8]


def build_T7c(tree):
    fn = find_func(tree, 'compute_plane_position_tiled_full')
    body = strip_doc(fn.body)
    guard = None
    for s in body:
        if isinstance(s, ast.If) and 'row_index' in ast.unparse(s.test) and any(isinstance(x, ast.Raise) for x in s.body):
            guard = s
            break
    if guard is None:
        raise Unsupported('index guard of compute_plane_position_tiled_full not found')
    stmts = assigns_to(fn, ['row_offset_frame', 'column_offset_frame'])
    idx = pmp = None
    for node in ast.walk(fn):
        if isinstance(node, ast.keyword) and node.arg == 'index' and isinstance(node.value, ast.Tuple):
            idx = node.value
        if isinstance(node, ast.keyword) and node.arg == 'pixel_matrix_position' and isinstance(node.value, ast.Tuple):
            pmp = node.value
    if idx is None or pmp is None or len(idx.elts) != 2 or len(pmp.elts) != 2:
        raise Unsupported('index= / pixel_matrix_position= tuples not found in compute_plane_position_tiled_full')
    ret = ast.Return(value=ast.Tuple(elts=[*idx.elts, *pmp.elts], ctx=ast.Load()))
    block = _fresh([guard] + stmts + [ret])
    text = translate_block(
        block, 'planePositionOffsets',
        [('row_index', 'int'), ('column_index', 'int'), ('rows', 'int'), ('columns', 'int')], {},
        doc='`utils.compute_plane_position_tiled_full`: (pixel index handed to map_pixel_into_coordinate_system '
            '(column, row; 0-based), pixel_matrix_position (column, row; 1-based)) of the tile with 1-based tile '
            'indices (row_index, column_index)')
    return text, span_sha([guard] + stmts) + hashlib.sha256((_norm(idx) + _norm(pmp)).encode()).hexdigest()[:8]


def build_T7d(tree):
    fn = find_func(tree, 'are_plane_positions_tiled_full')
    body = strip_doc(fn.body)
    fors = [s for s in body if isinstance(s, ast.For)]
    if len(fors) != 2:
        raise Unsupported('are_plane_positions_tiled_full no longer has two loops')
    if _norm(fors[0].target) != 'plane_position' or _norm(fors[0].iter) != 'plane_positions':
        raise Unsupported('first loop of are_plane_positions_tiled_full changed')
    if _norm(fors[1].target) != '((r_exp,c_exp),plane_position)' or \
            _norm(fors[1].iter) != 'zip(expected_positions,plane_positions)':
        raise Unsupported('second loop of are_plane_positions_tiled_full changed')
    attrs = {'plane_position[0].RowPositionInTotalImagePixelMatrix': ('int', 'rowPos'),
             'plane_position[0].ColumnPositionInTotalImagePixelMatrix': ('int', 'colPos')}
    init = assigns_to(_fnlike([s for s in body if isinstance(s, ast.Assign)]), ['max_r', 'max_c'])
    t0 = translate_block(_fresh(init + [ast.parse('return (max_r, max_c)').body[0]]), 'tfInit', [], {},
                         doc='`are_plane_positions_tiled_full`: initial (max_r, max_c)')
    t1 = translate_block(_fresh(list(fors[0].body) + [ast.parse('return (max_r, max_c)').body[0]]), 'tfMaxStep',
                         [('max_r', 'int'), ('max_c', 'int')], attrs,
                         doc='`are_plane_positions_tiled_full`: body of the first loop, new (max_r, max_c)')
    comp = [n for n in ast.walk(fn) if isinstance(n, ast.ListComp)]
    if len(comp) != 1 or _norm(comp[0].elt) != '(r,c)' or len(comp[0].generators) != 1:
        raise Unsupported('expected_positions comprehension changed')
    g = comp[0].generators[0]
    if _norm(g.target) != '(r,c)' or g.ifs or not (isinstance(g.iter, ast.Call) and _norm(g.iter.func) == 'itertools.product'
                                                     and len(g.iter.args) == 2):
        raise Unsupported('expected_positions is no longer a product of two ranges')
    rargs = []
    for a in g.iter.args:
        if not (isinstance(a, ast.Call) and _norm(a.func) == 'range' and len(a.args) == 3):
            raise Unsupported('expected_positions ranges changed')
        rargs += list(a.args)
    t2 = translate_block(_fresh([ast.Return(value=ast.Tuple(elts=rargs, ctx=ast.Load()))]), 'tfRanges',
                         [('max_r', 'int'), ('max_c', 'int'), ('rows', 'int'), ('columns', 'int')], {},
                         doc='`are_plane_positions_tiled_full`: (start, stop, step) of the row range and of the column '
                             'range whose row-major product is the expected position list')
    t3 = translate_block(_fresh(list(fors[1].body) + [ast.parse('return True').body[0]]), 'tfMatchStep',
                         [('r_exp', 'int'), ('c_exp', 'int')], attrs,
                         doc='`are_plane_positions_tiled_full`: body of the second loop (False = mismatch, stop)')
    # the glue between the translated pieces is pinned textually
    txt = ''.join(_norm(s) for s in body)
    for needle in ('iflen(expected_positions)!=len(plane_positions):returnFalse', 'returnTrue'):
        if needle not in txt:
            raise Unsupported('are_plane_positions_tiled_full glue changed (missing ' + needle + ')')
    if not (isinstance(body[-1], ast.Return) and _norm(body[-1].value) == 'True'):
        raise Unsupported('are_plane_positions_tiled_full no longer ends in return True')
    return '\n\n'.join([t0, t1, t2, t3]), span_sha(body)


def _fnlike(stmts):
    """minimal node accepted by targets.assigns_to (needs .name and to be walkable): top-level statements only"""
    return ast.FunctionDef(name='are_plane_positions_tiled_full (top level)', args=None, body=stmts, decorator_list=[])


def build_T7e(tree):
    """`iter_tiled_full_frame_data`: z offset of a focal plane; the loop nest, the channel lists, the call of
    compute_tile_positions_per_frame and the yielded tuple are pinned textually"""
    fn = find_func(tree, 'iter_tiled_full_frame_data')
    stmts = assigns_to(fn, ['z_offset'])
    if len(stmts) != 1:
        raise Unsupported('iter_tiled_full_frame_data: z_offset is no longer assigned exactly once')
    body = strip_doc(fn.body)
    txt = ''.join(_norm(s) for s in body)
    for needle in ("channels=[None]", "channels=range(1,len(dataset.SegmentSequence)+1)", "channels=range(1,num_optical_paths+1)",
                   "num_focal_planes=getattr(dataset,'TotalPixelMatrixFocalPlanes',1)",
                   "spacing_between_slices=float(getattr(pixel_measures,'SpacingBetweenSlices',1.0))",
                   "forchannelinchannels:forslice_indexinrange(1,num_focal_planes+1):",
                   "foroffsets,coordsincompute_tile_positions_per_frame(rows=dataset.Rows,columns=dataset.Columns,"
                   "total_pixel_matrix_rows=dataset.TotalPixelMatrixRows,total_pixel_matrix_columns=dataset.TotalPixelMatrixColumns,"
                   "total_pixel_matrix_image_position=(x_offset,y_offset,z_offset),image_orientation=image_orientation,"
                   "pixel_spacing=pixel_spacing):",
                   "yield(channel,slice_index,int(offsets[0]),int(offsets[1]),float(coords[0]),float(coords[1]),float(coords[2]))"):
        if needle not in txt:
            raise Unsupported('iter_tiled_full_frame_data changed (missing ' + needle[:60] + ')')
    block = _fresh(stmts + [ast.parse('return z_offset').body[0]])
    if "z_origin=float(getattr(image_origin,'ZOffsetInSlideCoordinateSystem',0.0))" not in txt:
        raise Unsupported('iter_tiled_full_frame_data: z_origin is no longer the z offset of the total pixel matrix origin (default 0)')
    text = translate_block(block, 'tiledFullZOffset', [('slice_index', 'int'), ('spacing_between_slices', 'rat'), ('z_origin', 'rat')], {},
                           doc='`spatial.iter_tiled_full_frame_data`: z origin of focal plane `slice_index` (1-based); `z_origin` = '
                               'ZOffsetInSlideCoordinateSystem of the total pixel matrix origin (0 when absent)')
    return text, span_sha(stmts) + hashlib.sha256(txt.encode()).hexdigest()[:8]


def build_T7f(tree):
    """`_get_spatial_information`, TILED_FULL branch: the frame with number k takes the position of the k-th item of
    iter_tiled_full_frame_data (`next(itertools.islice(iter_tiled_full_frame_data(dataset), frame_number - 1, frame_number))`).
    The statement is pinned; its two islice bounds are translated."""
    fn = find_func(tree, '_get_spatial_information')
    hit = None
    for node in ast.walk(fn):
        if isinstance(node, ast.If) and _norm(node.test) == 'is_tiled_full':
            for st in node.body:
                if isinstance(st, ast.Assign) and 'iter_tiled_full_frame_data' in ast.unparse(st):
                    hit = st
    if hit is None:
        raise Unsupported('_get_spatial_information: TILED_FULL branch no longer takes the position from iter_tiled_full_frame_data')
    if _norm(hit.targets[0]) != '(_,_,_,_,*position)':
        raise Unsupported('_get_spatial_information: unpacking of the per-frame item changed: ' + _norm(hit.targets[0]))
    v = hit.value
    ok = (isinstance(v, ast.Call) and _norm(v.func) == 'next' and len(v.args) == 1 and isinstance(v.args[0], ast.Call)
          and _norm(v.args[0].func) == 'itertools.islice' and len(v.args[0].args) == 3
          and _norm(v.args[0].args[0]) == 'iter_tiled_full_frame_data(dataset)')
    if not ok:
        raise Unsupported('_get_spatial_information: no longer next(itertools.islice(iter_tiled_full_frame_data(dataset), a, b))')
    lo, hi = v.args[0].args[1], v.args[0].args[2]
    block = _fresh([ast.Return(value=ast.Tuple(elts=[lo, hi], ctx=ast.Load()))])
    text = translate_block(block, 'tiledFullFrameSlice', [('frame_number', 'int')], {},
                           doc='`spatial._get_spatial_information` (TILED_FULL): bounds `(a, b)` of the `islice` of '
                               '`iter_tiled_full_frame_data` whose first item gives the position of frame `frame_number`')
    return text, span_sha([hit])


# ---------------------------------------------------------------------------------------------------------------
# Bridges ("more of the code inside the model"): expressions of the hand-modelled enumerations, regenerated
def build_T7g(tree):
    """`compute_tile_positions_per_frame`: which range runs fastest, the per-axis multipliers of `tile_indices * [columns, rows]`
    and the 1-based shift `pixel_indices += 1`, as expressions of the current source."""
    fn = find_func(tree, 'compute_tile_positions_per_frame')
    mesh = [n for n in ast.walk(fn) if isinstance(n, ast.Call) and _norm(n.func) == 'np.meshgrid']
    if len(mesh) != 1 or len(mesh[0].args) != 2 or {k.arg: _norm(k.value) for k in mesh[0].keywords} != {'indexing': "'xy'"}:
        raise Unsupported("compute_tile_positions_per_frame: np.meshgrid(a, b, indexing='xy') not found")
    rng = []
    for a in mesh[0].args:
        if not (isinstance(a, ast.Call) and _norm(a.func) == 'range' and len(a.args) == 1):
            raise Unsupported('compute_tile_positions_per_frame: meshgrid arguments are no longer range(n)')
        rng.append(a.args[0])
    mul = inc = None
    for st in ast.walk(fn):
        if isinstance(st, ast.Assign) and _norm(st.targets[0]) == 'pixel_indices' and isinstance(st.value, ast.BinOp) \
                and isinstance(st.value.op, ast.Mult) and _norm(st.value.left) == 'tile_indices' and isinstance(st.value.right, ast.List) \
                and len(st.value.right.elts) == 2:
            mul = st.value.right.elts
        if isinstance(st, ast.AugAssign) and _norm(st.target) == 'pixel_indices' and isinstance(st.op, ast.Add):
            inc = st.value
    if mul is None or inc is None:
        raise Unsupported('compute_tile_positions_per_frame: `pixel_indices = tile_indices * [a, b]` / `pixel_indices += k` not found')
    # with indexing='xy' and reshape(2, -1).T the first range runs fastest and is the first component of every pair
    src = (f'p0 = fast_index * ({ast.unparse(mul[0])})\np1 = slow_index * ({ast.unparse(mul[1])})\n'
           f'return (p0, p1, p0 + ({ast.unparse(inc)}), p1 + ({ast.unparse(inc)}))')
    t1 = translate_block(ast.parse(src).body, 'tileOffsetOf', [('fast_index', 'int'), ('slow_index', 'int'), ('rows', 'int'), ('columns', 'int')], {},
                         doc='`compute_tile_positions_per_frame`: for the tile with 0-based indices (fast_index, slow_index) of the two meshgrid '
                             'ranges: (0-based pixel index pair handed to the transformer, 1-based offset pair reported)')
    src2 = f'return ({ast.unparse(rng[0])}, {ast.unparse(rng[1])})'
    t2 = translate_block(ast.parse(src2).body, 'tileGridRanges', [('tiles_per_column', 'int'), ('tiles_per_row', 'int')], {},
                         doc='`compute_tile_positions_per_frame`: lengths of the (fastest, slowest) running range of the tile enumeration')
    return t1 + '\n\n' + t2, hashlib.sha256((_norm(mesh[0]) + ''.join(_norm(x) for x in mul) + _norm(inc)).encode()).hexdigest()


def build_T7h(tree):
    """`iter_tiled_full_frame_data`: the range of focal plane indices and of the channel numbers."""
    fn = find_func(tree, 'iter_tiled_full_frame_data')
    loop = None
    for node in ast.walk(fn):
        if isinstance(node, ast.For) and _norm(node.target) == 'slice_index':
            loop = node
    if loop is None or not (isinstance(loop.iter, ast.Call) and _norm(loop.iter.func) == 'range' and len(loop.iter.args) == 2):
        raise Unsupported('iter_tiled_full_frame_data: `for slice_index in range(a, b)` not found')
    t1 = translate_block(ast.parse(f'return ({ast.unparse(loop.iter.args[0])}, {ast.unparse(loop.iter.args[1])})').body, 'focalPlaneRange',
                         [('num_focal_planes', 'int')], {}, doc='`iter_tiled_full_frame_data`: (start, stop) of the focal plane indices')
    ch = {}
    for node in ast.walk(fn):
        if isinstance(node, ast.Assign) and _norm(node.targets[0]) == 'channels' and isinstance(node.value, ast.Call) \
                and _norm(node.value.func) == 'range' and len(node.value.args) == 2:
            ch['seg' if 'SegmentSequence' in ast.unparse(node.value) else 'path'] = node.value.args
    if sorted(ch) != ['path', 'seg']:
        raise Unsupported('iter_tiled_full_frame_data: the two `channels = range(a, b)` assignments not found')
    t2 = translate_block(ast.parse(f"return ({ast.unparse(ch['path'][0])}, {ast.unparse(ch['path'][1])})").body, 'opticalPathRange',
                         [('num_optical_paths', 'int')], {}, doc='`iter_tiled_full_frame_data`: (start, stop) of the optical path numbers')
    t3 = translate_block(ast.parse(f"return ({ast.unparse(ch['seg'][0])}, {ast.unparse(ch['seg'][1])})").body, 'segmentRange', [],
                         {'len(dataset.SegmentSequence)': ('int', 'numSegments')},
                         doc='`iter_tiled_full_frame_data`: (start, stop) of the segment numbers of a non-LABELMAP segmentation')
    return '\n\n'.join([t1, t2, t3]), hashlib.sha256((_norm(loop.iter) + ''.join(_norm(a) for v in ch.values() for a in v)).encode()).hexdigest()


def build_T7i(tree):
    """`tile_pixel_matrix`: the two index ranges and the element yielded for the pair (r, c) of the product."""
    fn = find_func(tree, 'tile_pixel_matrix')
    rngs = {}
    for node in ast.walk(fn):
        if isinstance(node, ast.Assign) and _norm(node.targets[0]) in ('tile_row_indices', 'tile_col_indices'):
            v = node.value
            if not (isinstance(v, ast.Call) and _norm(v.func) == 'iter' and isinstance(v.args[0], ast.Call)
                    and _norm(v.args[0].func) == 'range' and len(v.args[0].args) == 2):
                raise Unsupported('tile_pixel_matrix: index iterators are no longer iter(range(a, b))')
            rngs[_norm(node.targets[0])] = v.args[0].args
    gen = [n for n in ast.walk(fn) if isinstance(n, ast.GeneratorExp)]
    if sorted(rngs) != ['tile_col_indices', 'tile_row_indices'] or len(gen) != 1:
        raise Unsupported('tile_pixel_matrix: ranges / generator not found')
    g = gen[0].generators[0]
    if _norm(g.iter) != 'itertools.product(tile_row_indices,tile_col_indices)' or not isinstance(g.target, ast.Tuple) or len(g.target.elts) != 2:
        raise Unsupported('tile_pixel_matrix: product(tile_row_indices, tile_col_indices) with a pair target not found')
    outer, inner = _norm(g.target.elts[0]), _norm(g.target.elts[1])
    t1 = translate_block(ast.parse(f'return ({ast.unparse(gen[0].elt)})').body if not isinstance(gen[0].elt, ast.Tuple)
                         else [ast.Return(value=gen[0].elt)], 'tileIndexElt', [(outer, 'int'), (inner, 'int')], {},
                         doc='`tile_pixel_matrix`: the pair yielded for the element (outer, inner) of product(tile_row_indices, tile_col_indices)')
    r, c = rngs['tile_row_indices'], rngs['tile_col_indices']
    t2 = translate_block(ast.parse(f'return ({ast.unparse(r[0])}, {ast.unparse(r[1])}, {ast.unparse(c[0])}, {ast.unparse(c[1])})').body,
                         'tileIndexRanges', [('tiles_per_col', 'int'), ('tiles_per_row', 'int')], {},
                         doc='`tile_pixel_matrix`: (start, stop) of the outer (tile row) and of the inner (tile column) index range')
    for st in ast.walk(ast.Module(body=[], type_ignores=[])):
        pass
    return t1 + '\n\n' + t2, hashlib.sha256((_norm(gen[0]) + ''.join(_norm(a) for a in list(r) + list(c))).encode()).hexdigest()


def build_T7j(tree):
    """`utils.compute_plane_position_slide_per_frame`: one `PlanePositionSequence` per item of `iter_tiled_full_frame_data`, in
    order; the element's arguments are translated as a function of the unpacked 7-tuple (which components become the pixel matrix
    position, which the image position), the generator is pinned (no condition, no memo, nothing but the comprehension)."""
    fn = find_func(tree, 'compute_plane_position_slide_per_frame')
    body = strip_doc(fn.body)
    if len(body) != 1 or not isinstance(body[0], ast.Return) or not isinstance(body[0].value, ast.ListComp):
        raise Unsupported('compute_plane_position_slide_per_frame is no longer a single `return [ ... for ... ]`')
    comp = body[0].value
    if len(comp.generators) != 1 or comp.generators[0].ifs or comp.generators[0].is_async:
        raise Unsupported('compute_plane_position_slide_per_frame: comprehension has conditions / several generators')
    g = comp.generators[0]
    if _norm(g.iter) != 'iter_tiled_full_frame_data(dataset)':
        raise Unsupported('compute_plane_position_slide_per_frame no longer iterates over iter_tiled_full_frame_data(dataset)')
    if not isinstance(g.target, ast.Tuple) or len(g.target.elts) != 7 or not all(isinstance(e, ast.Name) for e in g.target.elts):
        raise Unsupported('compute_plane_position_slide_per_frame: the per-frame item is no longer unpacked into 7 names')
    names = [e.id for e in g.target.elts]
    elt = comp.elt
    if not (isinstance(elt, ast.Call) and _norm(elt.func) == 'PlanePositionSequence' and not elt.args):
        raise Unsupported('compute_plane_position_slide_per_frame: element is no longer PlanePositionSequence(keyword arguments)')
    kws = {k.arg: k.value for k in elt.keywords}
    if sorted(kws) != ['coordinate_system', 'image_position', 'pixel_matrix_position'] or \
            _norm(kws['coordinate_system']) != 'CoordinateSystemNames.SLIDE':
        raise Unsupported('compute_plane_position_slide_per_frame: keyword arguments of PlanePositionSequence changed')
    ip, pm = kws['image_position'], kws['pixel_matrix_position']
    if not (isinstance(ip, ast.Tuple) and len(ip.elts) == 3 and isinstance(pm, ast.Tuple) and len(pm.elts) == 2):
        raise Unsupported('compute_plane_position_slide_per_frame: image_position / pixel_matrix_position are no longer tuples')
    # positional names of the 7-tuple of iter_tiled_full_frame_data: channel, slice index, column, row, x, y, z; `_` may repeat
    canon = ['it_channel', 'it_slice', 'it_column', 'it_row', 'it_x', 'it_y', 'it_z']
    ren = {}
    for n, cn in zip(names, canon):
        ren[n] = cn          # a repeated name (`_`) keeps its LAST binding, as in Python

    class R(ast.NodeTransformer):
        def visit_Name(self, node):
            return ast.copy_location(ast.Name(id=ren.get(node.id, node.id), ctx=node.ctx), node)
    ret = ast.Return(value=ast.Tuple(elts=[R().visit(e) for e in list(pm.elts) + list(ip.elts)], ctx=ast.Load()))
    block = _fresh([ret])
    text = translate_block(block, 'slidePerFrameItem',
                           [('it_channel', 'int'), ('it_slice', 'int'), ('it_column', 'int'), ('it_row', 'int'),
                            ('it_x', 'rat'), ('it_y', 'rat'), ('it_z', 'rat')], {},
                           doc='`utils.compute_plane_position_slide_per_frame`: (pixel_matrix_position[0], pixel_matrix_position[1], '
                               'image_position x, y, z) of the PlanePositionSequence built for one item (channel, slice index, column, row, x, '
                               'y, z) of `iter_tiled_full_frame_data`')
    return text, span_sha(body)


def build_T7k(tree):
    """`utils.compute_plane_position_tiled_full`: the z origin handed to the pixel-to-reference map -- `float(slice_index - 1) *
    spacing_between_slices` when both are given, 0.0 when neither, TypeError when exactly one.  The one-of test is written with
    `sum(<tuple of bools>) not in (0, 2)` in the source: that statement is pinned textually and translated as its meaning (exactly one
    given); the z assignment and the tuple handed on as `image_position` are translated as they stand."""
    fn = find_func(tree, 'compute_plane_position_tiled_full')
    body = strip_doc(fn.body)
    txt = ''.join(_norm(st) for st in body)
    for needle in ("provided_3d_params=(slice_indexisnotNone,spacing_between_slicesisnotNone)",
                   "ifsum(provided_3d_params)notin(0,2):raiseTypeError(",
                   "x,y,z=map_pixel_into_coordinate_system(index=(column_offset_frame,row_offset_frame),"
                   "image_position=(x_offset,y_offset,z_offset),image_orientation=image_orientation,pixel_spacing=pixel_spacing)",
                   "image_position=(x,y,z)"):
        if needle not in txt:
            raise Unsupported('compute_plane_position_tiled_full changed (missing ' + needle[:70] + ')')
    zif = None
    for st in body:
        if isinstance(st, ast.If) and any(isinstance(x, ast.Assign) and _norm(x.targets[0]) == 'z_offset' for x in st.body):
            zif = st
    if zif is None or not zif.orelse:
        raise Unsupported('compute_plane_position_tiled_full: `if ...: z_offset = ... else: z_offset = ...` not found')
    one_of = ast.parse("if (slice_index is not None) != (spacing_between_slices is not None):\n    raise TypeError('one of')").body[0]
    block = _fresh([one_of, zif, ast.parse('return z_offset').body[0]])
    text = translate_block(block, 'planePositionZ', [('slice_index', 'optint'), ('spacing_between_slices', 'optrat')], {},
                           doc='`utils.compute_plane_position_tiled_full`: z of the image position handed to the pixel-to-reference map '
                               '(TypeError when exactly one of slice_index / spacing_between_slices is given)')
    return text, span_sha([zif]) + hashlib.sha256(txt.encode()).hexdigest()[:8]


class _DsStub:
    """stand-in for a dataset that has / has not the attribute DimensionOrganizationType (nothing else)"""
    def __init__(self, value):
        if value is not None:
            self.DimensionOrganizationType = value

    def get(self, key, default=None):
        if key != 'DimensionOrganizationType':
            raise KeyError(key)
        return getattr(self, 'DimensionOrganizationType', default)

    def __contains__(self, key):
        return key == 'DimensionOrganizationType' and hasattr(self, 'DimensionOrganizationType')


def _tiled_full_decision(expr, owner, lean_name, doc, negate=False):
    """A boolean expression of the source that decides "is this image TILED_FULL" from the attribute DimensionOrganizationType of
    `owner` alone, turned into its truth table (attribute absent / equal to "TILED_FULL" / any other value) by EVALUATING the
    expression of the current source on three stand-in datasets.  Admitted: names `owner`, `hasattr`; string constants
    'DimensionOrganizationType', 'TILED_FULL', ''; and / or / not / == / != / .get / attribute access / `in`."""
    for node in ast.walk(expr):
        if isinstance(node, ast.Name) and node.id not in (owner, 'hasattr'):
            raise Unsupported(f'{lean_name}: name {node.id} in a TILED_FULL decision')
        if isinstance(node, ast.Constant) and node.value not in ('DimensionOrganizationType', 'TILED_FULL', ''):
            raise Unsupported(f'{lean_name}: constant {node.value!r} in a TILED_FULL decision')
        if isinstance(node, ast.Attribute) and node.attr not in ('DimensionOrganizationType', 'get'):
            raise Unsupported(f'{lean_name}: attribute {node.attr} in a TILED_FULL decision')
        if not isinstance(node, (ast.Name, ast.Constant, ast.Attribute, ast.BoolOp, ast.And, ast.Or, ast.UnaryOp, ast.Not, ast.Compare,
                                 ast.Eq, ast.NotEq, ast.In, ast.NotIn, ast.Call, ast.Load, ast.keyword)):
            raise Unsupported(f'{lean_name}: {type(node).__name__} in a TILED_FULL decision')
    code = compile(ast.fix_missing_locations(ast.Expression(body=ast.parse(ast.unparse(expr), mode='eval').body)), '<tiled-full-decision>', 'eval')
    row = []
    for v in (None, 'TILED_FULL', 'TILED_SPARSE'):
        try:
            b = bool(eval(code, {'__builtins__': {'hasattr': hasattr}}, {owner: _DsStub(v)}))
        except Exception as e:  # noqa: BLE001
            raise Unsupported(f'{lean_name}: decision raises {type(e).__name__} on a dataset with DimensionOrganizationType={v!r}')
        row.append(b != negate)
    lb = lambda b: 'true' if b else 'false'   # noqa: E731
    return (f"/-- {doc} — truth table of the source expression (attribute absent / \"TILED_FULL\" / any other value) -/\n"
            f"def {lean_name} (org : Option String) : Bool :=\n  match org with\n  | none => {lb(row[0])}\n"
            f"  | some v => if v = \"TILED_FULL\" then {lb(row[1])} else {lb(row[2])}")


def build_T7l(tree):
    """image.py: the two places where `_Image` decides that the image is TILED_FULL -- `_is_tiled_full` (how the frame look-up is
    built: implied positions) and the missing-frame test of `_iterate_indices_for_tiled_region` (negated there)."""
    fn = None
    asg = None
    for node in ast.walk(find_func(tree, '_Image')):
        if isinstance(node, ast.Assign) and _norm(node.targets[0]) == 'self._is_tiled_full' and not isinstance(node.value, ast.Constant):
            asg = node
    if asg is None:
        raise Unsupported('_Image: assignment of self._is_tiled_full from the dataset not found')
    t1 = _tiled_full_decision(asg.value, 'self', 'isTiledFullLut', '`_Image._build_luts`: `self._is_tiled_full` (positions implied by frame order)')
    it = find_func(tree, '_Image._iterate_indices_for_tiled_region')
    cmp_ = None
    for node in ast.walk(it):
        if isinstance(node, ast.Compare) and 'DimensionOrganizationType' in ast.unparse(node):
            cmp_ = node
    if cmp_ is None:
        raise Unsupported('_iterate_indices_for_tiled_region: comparison of DimensionOrganizationType not found')
    t2 = _tiled_full_decision(cmp_, 'self', 'isTiledFullRegionRead', '`_iterate_indices_for_tiled_region`: the image counts as TILED_FULL for the '
                              'missing-frame test (the source tests the negation)', negate=True)
    return t1 + '\n\n' + t2, span_sha([asg, ast.Expr(value=cmp_)])


def build_T7m(tree):
    """spatial.py: `iter_tiled_full_frame_data` (refuses anything that is not TILED_FULL; negated there) and
    `_get_spatial_information` (`is_tiled_full`: take the position of a frame from that iteration)."""
    fn = find_func(tree, 'iter_tiled_full_frame_data')
    guard = None
    for node in ast.walk(fn):
        if isinstance(node, ast.If) and 'DimensionOrganizationType' in ast.unparse(node.test) and any(isinstance(x, ast.Raise) for x in node.body):
            guard = node
    if guard is None:
        raise Unsupported('iter_tiled_full_frame_data: refusal of images that are not TILED_FULL not found')
    # the test may be a disjunction with other reasons for refusal: keep the disjuncts that speak about the organisation type
    test = guard.test
    if isinstance(test, ast.BoolOp) and isinstance(test.op, ast.Or):
        parts = [v for v in test.values if 'DimensionOrganizationType' in ast.unparse(v)]
        test = parts[0] if len(parts) == 1 else ast.BoolOp(op=ast.Or(), values=parts)
    t1 = _tiled_full_decision(test, 'dataset', 'isTiledFullIter', '`iter_tiled_full_frame_data`: the dataset is accepted as TILED_FULL '
                              '(the source tests the negation and raises)', negate=True)
    gi = find_func(tree, '_get_spatial_information')
    asg = None
    for node in ast.walk(gi):
        if isinstance(node, ast.Assign) and _norm(node.targets[0]) == 'is_tiled_full':
            asg = node
    if asg is None:
        raise Unsupported('_get_spatial_information: is_tiled_full = ... not found')
    t2 = _tiled_full_decision(asg.value, 'dataset', 'isTiledFullSpatialInfo', '`_get_spatial_information`: `is_tiled_full` (frame position '
                              'taken from `iter_tiled_full_frame_data`)')
    return t1 + '\n\n' + t2, span_sha([guard, asg])


TARGETS = {
    'T7a': {'file': 'spatial.py', 'build': build_T7a},
    'T7b': {'file': 'spatial.py', 'build': build_T7b},
    'T7c': {'file': 'utils.py', 'build': build_T7c},
    'T7d': {'file': 'utils.py', 'build': build_T7d},
    'T7e': {'file': 'spatial.py', 'build': build_T7e},
    'T7f': {'file': 'spatial.py', 'build': build_T7f},
    'T7g': {'file': 'spatial.py', 'build': build_T7g},
    'T7h': {'file': 'spatial.py', 'build': build_T7h},
    'T7i': {'file': 'spatial.py', 'build': build_T7i},
    'T7j': {'file': 'utils.py', 'build': build_T7j},
    'T7k': {'file': 'utils.py', 'build': build_T7k},
    'T7l': {'file': 'image.py', 'build': build_T7l},
    'T7m': {'file': 'spatial.py', 'build': build_T7m},
}
