"""Translation targets of C09 (geometry matching and comparison), all from `volume.py`.

TC09a  `match_geometry`, body of the inner alignment loop: does source axis j carry target axis i,
       and with which signed integer stride                                   -> Gen.mgAlign
TC09b  `match_geometry`, body of the per-axis crop/pad derivation loop         -> Gen.mgCropPad
TC09c  `geometry_equal`, the whole decision (array comparisons as parameters)  -> Gen.geomEqualDecision
TC09d  the per-axis tests of both bounds checks (`map_reference_to_indices`,
       `VolumeToVolumeTransformer.__call__`)                                   -> Gen.refBoundsAxis, Gen.v2vBoundsAxis
TC09e  `match_geometry`, the refusals before the alignment loops (FoR, CS)     -> Gen.mgHead
TC09g  dtype decisions of `VolumeToVolumeTransformer.__call__`                 -> Gen.v2vInputIsInt, Gen.v2vKeepInputType, Gen.v2vCastBack
TC09h  writes of the entry points on their own object (purity)                 -> Gen.v2vCallSelfWrites, Gen.refIdxSelfWrites, …
TC09f  structural fingerprint: ordered top-level operations (with guards) of `match_geometry`, of the
       transformer and of `map_reference_to_indices`                           -> Gen.mgSteps, Gen.v2vSteps, Gen.refIdxSteps

Loops are not translated: the selectors take the loop *body*, check (textually) what the loop
ranges over, and the folds are written by hand in `Model/Match.lean`.  Everything that is checked
only textually is listed in the doc string of the generated definition.
"""
from __future__ import annotations

import ast
import copy
import hashlib

from py2lean import Unsupported, find_func, span_sha, strip_doc, translate_block

IMPORTS = ['HdVerif.Model.Round']


def _txt(node):
    return ast.unparse(node)


def _norm(s):
    return ''.join(s.split())


def _expect(node, text, what):
    if _norm(_txt(node)) != _norm(text):
        raise Unsupported(f'{what}: expected `{text}`, found `{_txt(node)}`')


def _fix(stmts):
    for s in stmts:
        ast.fix_missing_locations(s)
    return stmts


def _parse_stmt(src):
    return ast.parse(src).body[0]


class _NoneFlag(ast.NodeTransformer):
    """`x = None` -> `x_none = True` (the int value of x is kept; the flag says it is to be read as None)."""

    def __init__(self, names):
        self.names = names
        self.hit = set()

    def visit_Assign(self, node):
        if isinstance(node.value, ast.Constant) and node.value.value is None:
            if len(node.targets) == 1 and isinstance(node.targets[0], ast.Name) and node.targets[0].id in self.names:
                self.hit.add(node.targets[0].id)
                return ast.copy_location(_parse_stmt(f'{node.targets[0].id}_none = True'), node)
            raise Unsupported('assignment of None to ' + _txt(node.targets[0]))
        return node


def _zip_args(node, n, what):
    if not (isinstance(node, ast.Call) and _txt(node.func) == 'zip' and len(node.args) == n and not node.keywords):
        raise Unsupported(f'{what} no longer iterates over zip of {n} sequences')
    return node.args


_AXIS_SRC = {
    'self.unit_vectors()': '.unit .own', 'new_volume.unit_vectors()': '.unit .own', 'other.unit_vectors()': '.unit .other',
    'self.spacing': '.spacing .own', 'new_volume.spacing': '.spacing .own', 'other.spacing': '.spacing .other',
    'self.spatial_shape': '.shape .own', 'new_volume.spatial_shape': '.shape .own', 'other.spatial_shape': '.shape .other',
    'step_sizes': '.steps',
}


def _axis_src(node):
    t = _norm(_txt(node))
    if t not in _AXIS_SRC:
        raise Unsupported('per-axis sequence not recognised: ' + _txt(node))
    return _AXIS_SRC[t]


def _origin_offset(value):
    """`np.array(A.position) - np.array(B.position)` -> (A, B) as '.own' / '.other'"""
    if not (isinstance(value, ast.BinOp) and isinstance(value.op, ast.Sub)):
        raise Unsupported('origin_offset is no longer a difference of two positions')
    out = []
    for side in (value.left, value.right):
        t = _norm(_txt(side))
        m = {'np.array(other.position)': '.other', 'np.array(new_volume.position)': '.own', 'np.array(self.position)': '.own'}
        if t not in m:
            raise Unsupported('origin_offset operand not recognised: ' + _txt(side))
        out.append(m[t])
    return out


def _is_append(st, listname):
    return (isinstance(st, ast.Expr) and isinstance(st.value, ast.Call) and isinstance(st.value.func, ast.Attribute)
            and st.value.func.attr == 'append' and _txt(st.value.func.value) == listname and len(st.value.args) == 1
            and not st.value.keywords)


# ------------------------------------------------------------------------------------------ TC09a
def build_align(tree):
    fn = find_func(tree, '_VolumeBase.match_geometry')
    outer = [n for n in ast.walk(fn) if isinstance(n, ast.For) and 'other.unit_vectors()' in _txt(n.iter)]
    if len(outer) != 1:
        raise Unsupported('outer alignment loop over other.unit_vectors() not found')
    outer = outer[0]
    _zip_args(outer.iter, 2, 'outer alignment loop')                  # what is zipped: TC09j
    _expect(outer.target, '(u, s)', 'outer alignment loop target')
    if len(outer.body) != 1 or not isinstance(outer.body[0], ast.For) or outer.orelse:
        raise Unsupported('outer alignment loop no longer consists of the inner loop only')
    inner = outer.body[0]
    if not (isinstance(inner.iter, ast.Call) and _txt(inner.iter.func) == 'enumerate' and len(inner.iter.args) == 1):
        raise Unsupported('inner alignment loop is no longer enumerate(zip(...))')
    _zip_args(inner.iter.args[0], 2, 'inner alignment loop')          # what is zipped: TC09j
    _expect(inner.target, '(j, (v, t))', 'inner alignment loop target')
    if len(inner.orelse) != 1 or not isinstance(inner.orelse[0], ast.Raise) or 'RuntimeError' not in _txt(inner.orelse[0]):
        raise Unsupported('inner alignment loop no longer ends in `else: raise RuntimeError`')
    body = inner.body
    if len(body) != 2 or not isinstance(body[1], ast.If) or body[1].orelse:
        raise Unsupported('alignment loop body is no longer `dot_product = ...; if ...:`')
    if _norm(_txt(body[0])) not in ('dot_product=u@v', 'dot_product=v@u'):
        raise Unsupported('alignment dot product is no longer u @ v')
    iff = copy.deepcopy(body[1])
    new_body, step_expr, seen_perm = [], None, False
    for st in iff.body:
        if _is_append(st, 'permute_indices'):
            _expect(st.value.args[0], 'j', 'permute_indices.append')
            seen_perm = True
            continue
        if _is_append(st, 'step_sizes'):
            step_expr = st.value.args[0]
            continue
        if isinstance(st, ast.Break):
            if step_expr is None or not seen_perm:
                raise Unsupported('break before permute_indices/step_sizes were appended')
            new_body.append(ast.Return(value=ast.Tuple(elts=[ast.Constant(value=True), step_expr], ctx=ast.Load())))
            break
        new_body.append(st)
    else:
        raise Unsupported('matching branch of the alignment loop no longer ends in break')
    iff.body = new_body
    block = _fix([iff, _parse_stmt('return (False, 0)')])
    text = translate_block(
        block, 'mgAlign', [('dot_product', 'rat'), ('s', 'rat'), ('t', 'rat'), ('tol', 'rat')], {},
        doc='`match_geometry`, body of the inner alignment loop for one (target axis, source axis) pair: '
            '`dot_product = u @ v` of the two unit vectors, `s`/`t` target/source spacing.  Result '
            '(source axis matches, signed stride appended to step_sizes).  Checked textually: the loops range over '
            'zip(other.unit_vectors(), other.spacing) x enumerate(zip(self.unit_vectors(), self.spacing)), '
            'permute_indices.append(j), first match wins (break), no match raises RuntimeError.')
    return text, span_sha([outer])


# ------------------------------------------------------------------------------------------ TC09b
def build_croppad(tree):
    fn = find_func(tree, '_VolumeBase.match_geometry')
    loops = [n for n in ast.walk(fn) if isinstance(n, ast.For) and 'step_sizes' in _txt(n.iter)]
    if len(loops) != 1:
        raise Unsupported('crop/pad derivation loop not found')
    loop = loops[0]
    _zip_args(loop.iter, 5, 'crop/pad loop')                          # what is zipped: TC09i
    _expect(loop.target, '(v, spacing, step, out_shape, in_shape)', 'crop/pad loop target')
    if loop.orelse:
        raise Unsupported('crop/pad loop has an else clause')
    oo = [n for n in ast.walk(fn) if isinstance(n, ast.Assign) and _txt(n.targets[0]) == 'origin_offset']
    if len(oo) != 1:
        raise Unsupported('origin_offset assignment not found')
    _origin_offset(oo[0].value)                                       # minuend / subtrahend: TC09i
    body = list(loop.body)
    _expect(body[0], 'offset = v @ origin_offset', 'per-axis offset')
    body = [copy.deepcopy(s) for s in body[1:]]
    nf = _NoneFlag({'crop_stop'})
    body = [nf.visit(s) for s in body]
    sl, pads, rest = None, None, []
    for st in body:
        if _is_append(st, 'crop_slices'):
            c = st.value.args[0]
            if not (isinstance(c, ast.Call) and _txt(c.func) == 'slice' and len(c.args) == 3):
                raise Unsupported('crop_slices.append no longer takes slice(a, b, c)')
            sl = c.args
            continue
        if _is_append(st, 'pad_values'):
            p = st.value.args[0]
            if not (isinstance(p, ast.Tuple) and len(p.elts) == 2):
                raise Unsupported('pad_values.append no longer takes a pair')
            pads = p.elts
            continue
        if sl is not None or pads is not None:
            raise Unsupported('statements after the appends of the crop/pad loop body')
        rest.append(st)
    if sl is None or pads is None:
        raise Unsupported('crop_slices/pad_values appends not found')
    _expect(sl[1], 'crop_stop', 'slice stop')
    ret = ast.Return(value=ast.Tuple(elts=[
        sl[0], ast.Name(id='crop_stop_none', ctx=ast.Load()), sl[1], sl[2], pads[0], pads[1],
        ast.Name(id='requires_crop', ctx=ast.Load()), ast.Name(id='requires_pad', ctx=ast.Load())], ctx=ast.Load()))
    block = _fix([_parse_stmt('crop_stop_none = False')] + rest + [ret])
    text = translate_block(
        block, 'mgCropPad',
        [('offset', 'rat'), ('spacing', 'rat'), ('step', 'int'), ('out_shape', 'int'), ('in_shape', 'int'),
         ('tol', 'rat'), ('requires_crop', 'bool'), ('requires_pad', 'bool')], {},
        doc='`match_geometry`, body of the per-axis crop/pad derivation loop.  `offset = v @ origin_offset` is a '
            'parameter; `requires_crop`/`requires_pad` are the loop-carried flags.  Result (slice start, slice stop '
            'is None, slice stop, slice step, pad before, pad after, requires_crop, requires_pad).  Checked textually: '
            'what the loop zips, origin_offset = other.position - new_volume.position.')
    return text, span_sha([loop]) + hashlib.sha256(_txt(oo[0]).encode()).hexdigest()[:8]


# ------------------------------------------------------------------------------------------ TC09c
class _GeomEqRewrite(ast.NodeTransformer):
    ATTR = {
        'self.frame_of_reference_uid': 'self_for', 'other.frame_of_reference_uid': 'other_for',
        'self.coordinate_system': 'self_cs', 'other.coordinate_system': 'other_cs',
    }

    def visit_Attribute(self, node):
        t = _txt(node)
        if t in self.ATTR:
            return ast.copy_location(ast.Name(id=self.ATTR[t], ctx=ast.Load()), node)
        if t == 'self.spatial_shape':
            return ast.copy_location(ast.parse('(s0, s1, s2)').body[0].value, node)
        if t == 'other.spatial_shape':
            return ast.copy_location(ast.parse('(o0, o1, o2)').body[0].value, node)
        # the full array shape (spatial + one channel extent): not read by the pinned code; made available so
        # that a comparison that looks at channels is translated (and breaks `geometryEqual_ignores_channels`)
        if t == 'self.shape':
            return ast.copy_location(ast.parse('(s0, s1, s2, c_self)').body[0].value, node)
        if t == 'other.shape':
            return ast.copy_location(ast.parse('(o0, o1, o2, c_other)').body[0].value, node)
        if t == 'self.channel_shape':
            return ast.copy_location(ast.parse('(c_self,)').body[0].value, node)
        if t == 'other.channel_shape':
            return ast.copy_location(ast.parse('(c_other,)').body[0].value, node)
        return node

    def visit_Call(self, node):
        t = _norm(_txt(node))
        if t == _norm('np.array_equal(self._affine, other._affine)'):
            return ast.copy_location(ast.Name(id='affine_identical', ctx=ast.Load()), node)
        if t == _norm('np.allclose(self._affine, other._affine, atol=tol)'):
            return ast.copy_location(ast.Name(id='affine_close', ctx=ast.Load()), node)
        raise Unsupported('call in geometry_equal: ' + _txt(node))


class _HeadRewrite(_GeomEqRewrite):
    def visit_Raise(self, node):      # the exception constructor call is not an expression of interest
        return node


def build_geomeq(tree):
    fn = find_func(tree, '_VolumeBase.geometry_equal')
    have = [a.arg for a in fn.args.args]
    if have != ['self', 'other', 'tol']:
        raise Unsupported(f'signature of geometry_equal changed: {have}')
    body = [copy.deepcopy(s) for s in strip_doc(fn.body)]
    body = _fix([_GeomEqRewrite().visit(s) for s in body])
    text = translate_block(
        body, 'geomEqualDecision',
        [('self_for', 'optstr'), ('other_for', 'optstr'),
         ('s0', 'int'), ('s1', 'int'), ('s2', 'int'), ('o0', 'int'), ('o1', 'int'), ('o2', 'int'),
         ('c_self', 'int'), ('c_other', 'int'),
         ('self_cs', 'str'), ('other_cs', 'str'), ('tol', 'optrat'),
         ('affine_identical', 'bool'), ('affine_close', 'bool')], {},
        doc='`geometry_equal` (whole body).  Frame of reference UIDs and coordinate systems are strings compared '
            'for equality, spatial shapes are triples, `c_self`/`c_other` the extent of a channel dimension (`shape` = '
            'spatial shape + channel extent); `affine_identical` stands for '
            '`np.array_equal(self._affine, other._affine)` and `affine_close` for '
            '`np.allclose(self._affine, other._affine, atol=tol)` (the two calls are matched textually).')
    return text, span_sha(strip_doc(fn.body))


# ------------------------------------------------------------------------------------------ TC09d
def _flag_break_to_return(stmts, flag):
    """[flag = True; break] -> return True, recursively inside ifs."""
    out = []
    i = 0
    while i < len(stmts):
        st = stmts[i]
        if (isinstance(st, ast.Assign) and _txt(st.targets[0]) == flag and _txt(st.value) == 'True'
                and i + 1 < len(stmts) and isinstance(stmts[i + 1], ast.Break)):
            out.append(_parse_stmt('return True'))
            i += 2
            continue
        if isinstance(st, ast.Break):
            raise Unsupported('break without setting the flag')
        if isinstance(st, ast.If):
            st = copy.deepcopy(st)
            st.body = _flag_break_to_return(st.body, flag)
            st.orelse = _flag_break_to_return(st.orelse, flag)
        out.append(st)
        i += 1
    return out


class _RefBoundsRewrite(ast.NodeTransformer):
    def visit_Call(self, node):
        t = _norm(_txt(node))
        if t == 'indices[:,d].min()':
            return ast.copy_location(ast.Name(id='min_ind', ctx=ast.Load()), node)
        if t == 'indices[:,d].max()':
            return ast.copy_location(ast.Name(id='max_ind', ctx=ast.Load()), node)
        raise Unsupported('call in bounds check: ' + _txt(node))

    def visit_Subscript(self, node):
        if _norm(_txt(node)) == 'self.spatial_shape[d]':
            return ast.copy_location(ast.Name(id='shape', ctx=ast.Load()), node)
        return self.generic_visit(node)


def build_bounds(tree):
    # (1) map_reference_to_indices
    fn = find_func(tree, '_VolumeBase.map_reference_to_indices')
    loops = [n for n in ast.walk(fn) if isinstance(n, ast.For) and _norm(_txt(n.iter)) == 'range(3)']
    if len(loops) != 1 or _txt(loops[0].target) != 'd' or loops[0].orelse:
        raise Unsupported('bounds loop `for d in range(3)` of map_reference_to_indices not found')
    body = _flag_break_to_return([copy.deepcopy(s) for s in loops[0].body], 'out_of_bounds')
    body = [_RefBoundsRewrite().visit(s) for s in body]
    block1 = _fix(body + [_parse_stmt('return False')])
    t1 = translate_block(
        block1, 'refBoundsAxis', [('shape', 'int'), ('min_ind', 'rat'), ('max_ind', 'rat')], {},
        doc='`map_reference_to_indices(check_bounds=True)`, body of `for d in range(3)`: does axis d make the check '
            'fail, given min/max over the points of the (unrounded) index along d and the size of the axis.')
    # (2) VolumeToVolumeTransformer.__call__
    fn2 = find_func(tree, 'VolumeToVolumeTransformer.__call__')
    loops2 = [n for n in ast.walk(fn2) if isinstance(n, ast.For) and 'min_indices' in _txt(n.iter)]
    if len(loops2) != 1 or loops2[0].orelse:
        raise Unsupported('bounds loop of VolumeToVolumeTransformer.__call__ not found')
    _expect(loops2[0].iter, 'zip(self._output_shape, min_indices, max_indices)', 'transformer bounds loop')
    _expect(loops2[0].target, '(shape, min_ind, max_ind)', 'transformer bounds loop target')
    red = {}
    for n in ast.walk(fn2):
        if isinstance(n, ast.Assign) and _txt(n.targets[0]) in ('min_indices', 'max_indices'):
            red[_txt(n.targets[0])] = n
    if set(red) != {'min_indices', 'max_indices'}:
        raise Unsupported('min_indices / max_indices assignments not found')
    _expect(red['min_indices'].value, 'np.min(output_indices, axis=0)', 'reduction over the points')
    _expect(red['max_indices'].value, 'np.max(output_indices, axis=0)', 'reduction over the points')
    body2 = _flag_break_to_return([copy.deepcopy(s) for s in loops2[0].body], 'bounds_fail')
    block2 = _fix(body2 + [_parse_stmt('return False')])
    t2 = translate_block(
        block2, 'v2vBoundsAxis', [('shape', 'int'), ('min_ind', 'rat'), ('max_ind', 'rat')], {},
        doc='`VolumeToVolumeTransformer.__call__` bounds check, body of the loop over the three axes.  Checked '
            'textually: min/max are `np.min/np.max(output_indices, axis=0)` (reduction over the points).')
    sha = span_sha([loops[0]]) + span_sha([loops2[0], red['min_indices'], red['max_indices']])[:16]
    return t1 + '\n\n' + t2, sha


# ------------------------------------------------------------------------------------------ TC09e
def build_matchhead(tree):
    """head of `match_geometry`: the frame-of-reference and coordinate-system refusals"""
    fn = find_func(tree, '_VolumeBase.match_geometry')
    body = strip_doc(fn.body)
    head = []
    for st in body:
        if isinstance(st, ast.Assign) and _txt(st.targets[0]) == 'permute_indices':
            break
        head.append(copy.deepcopy(st))
    else:
        raise Unsupported('`permute_indices = []` (end of the head of match_geometry) not found')
    if not head:
        raise Unsupported('match_geometry has no statements before the alignment loops')
    head = [_HeadRewrite().visit(s) for s in head]
    block = _fix(head + [_parse_stmt('return True')])
    text = translate_block(
        block, 'mgHead',
        [('self_for', 'optstr'), ('other_for', 'optstr'), ('self_cs', 'str'), ('other_cs', 'str')], {},
        doc='`match_geometry`, everything before the alignment loops: refusal (RuntimeError) of a conflicting frame of '
            'reference or another coordinate system; `.ok true` = the call goes on.')
    return text, span_sha(head)


# ------------------------------------------------------------------------------------------ TC09f
def _assign_is(st, target, value):
    return isinstance(st, ast.Assign) and len(st.targets) == 1 and _norm(_txt(st.targets[0])) == _norm(target) \
        and _norm(_txt(st.value)) == _norm(value)


def _guard_lean(test):
    """Lean Bool expression of a guard over the three flags"""
    from py2lean import SymExec
    se = SymExec({})
    env = {n: ('bool', n) for n in ('requires_permute', 'requires_pad', 'requires_crop')}
    b = se.as_bool(se.ev(test, env))
    if se.lets:
        raise Unsupported('guard needs intermediate bindings: ' + _txt(test))
    return b


def build_order(tree):
    """structural fingerprint: the ordered top-level operations of `match_geometry` (with their guards over the
    flags) and of the two index-mapping entry points"""
    fn = find_func(tree, '_VolumeBase.match_geometry')
    body = list(strip_doc(fn.body))
    steps = []          # (op, guard lean expr)
    i = 0
    # head: everything before `permute_indices = []` (translated by TC09e)
    while i < len(body) and not _assign_is(body[i], 'permute_indices', '[]'):
        if not isinstance(body[i], ast.If):
            raise Unsupported('unexpected statement in the head of match_geometry: ' + _txt(body[i])[:80])
        i += 1
    if i == 0 or i == len(body):
        raise Unsupported('head of match_geometry / `permute_indices = []` not found')
    steps.append(('head', 'true'))
    seen = set()
    flags_init = {}
    for st in body[i:]:
        if _assign_is(st, 'permute_indices', '[]') or _assign_is(st, 'step_sizes', '[]') \
                or _assign_is(st, 'crop_slices', '[]') or _assign_is(st, 'pad_values', '[]'):
            if 'plan' in seen and _txt(st.targets[0]) in ('crop_slices', 'pad_values') or \
                    'align' in seen and _txt(st.targets[0]) in ('permute_indices', 'step_sizes'):
                raise Unsupported('accumulator re-initialised after its loop: ' + _txt(st))
            continue
        if _assign_is(st, 'requires_crop', 'False') or _assign_is(st, 'requires_pad', 'False'):
            if 'plan' in seen:
                raise Unsupported('flag re-initialised after the crop/pad loop')
            flags_init[_txt(st.targets[0])] = True
            continue
        if isinstance(st, ast.For) and 'other.unit_vectors()' in _txt(st.iter):
            steps.append(('align', 'true')); seen.add('align'); continue
        if _assign_is(st, 'requires_permute', 'permute_indices != [0, 1, 2]'):
            if 'align' not in seen:
                raise Unsupported('requires_permute computed before the alignment loops')
            seen.add('requires_permute'); continue
        if isinstance(st, ast.Assign) and _txt(st.targets[0]) == 'origin_offset':
            if 'permute' not in seen:
                raise Unsupported('origin_offset computed before the permutation')
            continue
        if isinstance(st, ast.For) and 'step_sizes' in _txt(st.iter):
            if set(flags_init) != {'requires_crop', 'requires_pad'}:
                raise Unsupported('requires_crop / requires_pad are not initialised to False before the crop/pad loop')
            steps.append(('plan', 'true')); seen.add('plan'); continue
        if isinstance(st, ast.If) and len(st.body) == 1:
            b = st.body[0]
            if _assign_is(b, 'new_volume', 'self.permute_spatial_axes(permute_indices)'):
                if not (len(st.orelse) == 1 and _assign_is(st.orelse[0], 'new_volume', 'self')):
                    raise Unsupported('else branch of the permutation is not `new_volume = self`')
                if 'requires_permute' not in seen:
                    raise Unsupported('permutation before requires_permute is known')
                steps.append(('permute', _guard_lean(st.test))); seen.add('permute'); continue
            if st.orelse:
                raise Unsupported('unexpected else branch: ' + _txt(st)[:80])
            if _assign_is(b, 'new_volume', 'new_volume.copy()'):
                steps.append(('copy', _guard_lean(st.test))); continue
            if _assign_is(b, 'new_volume', 'new_volume.pad(pad_values, mode=mode, constant_value=constant_value, '
                                           'per_channel=per_channel)'):
                steps.append(('pad', _guard_lean(st.test))); continue
            if _assign_is(b, 'new_volume', 'new_volume[tuple(crop_slices)]'):
                steps.append(('crop', _guard_lean(st.test))); continue
            if isinstance(b, ast.Raise) and 'RuntimeError' in _txt(b) and \
                    _norm(_txt(st.test)) == _norm('not new_volume.geometry_equal(other, tol=tol)'):
                steps.append(('finalCheck', 'true')); continue
        if isinstance(st, ast.Return):
            _expect(st.value, 'new_volume', 'return value of match_geometry')
            if st is not body[-1]:
                raise Unsupported('return before the end of match_geometry')
            continue
        raise Unsupported('statement of match_geometry not recognised: ' + _txt(st)[:100])
    rows = [f"(.{op}, fun requires_permute requires_pad requires_crop => {g})" for op, g in steps]
    t1 = ("/-- `match_geometry`: its top-level operations in source order, each with its guard over "
          "(requires_permute, requires_pad, requires_crop).  Checked textually: the arguments of every call, the "
          "initialisation of the accumulators and flags, `requires_permute = permute_indices != [0, 1, 2]`, "
          "`else: new_volume = self`, `return new_volume`. -/\n"
          "def mgSteps : List (HdVerif.Match.MgOp × (Bool → Bool → Bool → Bool)) :=\n  [" + ",\n   ".join(rows) + "]")

    # ---- VolumeToVolumeTransformer
    init = find_func(tree, 'VolumeToVolumeTransformer.__init__')
    ib = [s for s in strip_doc(init.body)]
    want = {'self._affine': 'volume_to.inverse_affine @ volume_from.affine', 'self._output_shape': 'volume_to.spatial_shape',
            'self._round_output': 'round_output', 'self._check_bounds': 'check_bounds'}
    have = {}
    for st in ib:
        if isinstance(st, ast.Assign) and len(st.targets) == 1:
            have[_txt(st.targets[0])] = _norm(_txt(st.value))
    for k, v in want.items():
        if have.get(k) != _norm(v):
            raise Unsupported(f'VolumeToVolumeTransformer.__init__: {k} is not set to {v}')
    call = find_func(tree, 'VolumeToVolumeTransformer.__call__')
    ops = ['product']
    for st in strip_doc(call.body):
        t = _norm(_txt(st))
        if isinstance(st, ast.If) and 'indices.ndim' in t:
            continue                                   # argument shape validation
        if isinstance(st, ast.Assign) and _txt(st.targets[0]) in ('input_is_int', 'augmented_input'):
            continue
        if _assign_is(st, 'augmented_output', 'np.dot(self._affine, augmented_input)'):
            ops.append('apply-dot'); continue
        if _assign_is(st, 'output_indices', 'augmented_output[:3, :].T'):
            if ops[-1] != 'apply-dot':
                raise Unsupported('output_indices is not taken from the product')
            ops[-1] = 'apply'; continue
        if isinstance(st, ast.If) and _norm(_txt(st.test)) == 'self._round_output':
            # rounding, then the choice of the output dtype and the cast (decisions translated by TC09g)
            if not (_assign_is(st.body[0], 'output_indices', 'np.around(output_indices)')
                    and _assign_is(st.body[-1], 'output_indices', 'output_indices.astype(output_dtype)')):
                raise Unsupported('rounding branch is not np.around(output_indices) ... astype(output_dtype)')
            if not (len(st.orelse) == 1 and isinstance(st.orelse[0], ast.If) and not st.orelse[0].orelse
                    and len(st.orelse[0].body) == 1
                    and _assign_is(st.orelse[0].body[0], 'output_indices', 'output_indices.astype(indices.dtype)')):
                raise Unsupported('non-rounding branch is not a guarded cast back to the input dtype')
            ops.append('round'); ops.append('cast'); continue
        if isinstance(st, ast.If) and _norm(_txt(st.test)).startswith('self._check_bounds'):
            ops.append('check'); continue
        if isinstance(st, ast.Return):
            _expect(st.value, 'output_indices', 'return value of the transformer'); continue
        raise Unsupported('VolumeToVolumeTransformer.__call__: statement not recognised: ' + _txt(st)[:80])
    t2 = ("/-- `VolumeToVolumeTransformer`: matrix product in `__init__`, then the order of operations of `__call__`. -/\n"
          "def v2vSteps : List HdVerif.Match.IdxOp := [" + ", ".join('.' + o for o in ops) + "]")

    # ---- map_reference_to_indices
    inv = find_func(tree, '_VolumeBase.inverse_affine')
    ivb = strip_doc(inv.body)
    if not (len(ivb) == 1 and isinstance(ivb[0], ast.Return) and _norm(_txt(ivb[0].value)) == 'np.linalg.inv(self._affine)'):
        raise Unsupported('inverse_affine is no longer np.linalg.inv(self._affine)')
    mr = find_func(tree, '_VolumeBase.map_reference_to_indices')
    ops2 = []
    for st in strip_doc(mr.body):
        t = _norm(_txt(st))
        if isinstance(st, ast.If) and 'coordinates.ndim' in t:
            continue
        if isinstance(st, ast.Assign) and _txt(st.targets[0]) == 'reference_coordinates':
            continue
        if _assign_is(st, 'indices', 'np.dot(self.inverse_affine, reference_coordinates)'):
            ops2.append('inverse'); continue
        if _assign_is(st, 'indices', 'indices[:3, :].T'):
            ops2.append('apply'); continue
        if isinstance(st, ast.If) and t.startswith('ifcheck_bounds'):
            ops2.append('check'); continue
        if isinstance(st, ast.If) and _norm(_txt(st.test)) == 'round_output':
            if not (len(st.body) == 1 and 'np.around(indices)' in _txt(st.body[0]) and len(st.orelse) == 1
                    and _norm(_txt(st.orelse[0])) == 'returnindices'):
                raise Unsupported('rounding branch of map_reference_to_indices changed')
            ops2.append('round'); continue
        raise Unsupported('map_reference_to_indices: statement not recognised: ' + _txt(st)[:80])
    t3 = ("/-- `map_reference_to_indices`: order of operations (`inverse_affine` is `np.linalg.inv(self._affine)`). -/\n"
          "def refIdxSteps : List HdVerif.Match.IdxOp := [" + ", ".join('.' + o for o in ops2) + "]")
    sha = span_sha(body) + span_sha(strip_doc(call.body))[:12] + span_sha(strip_doc(mr.body))[:12] + span_sha(ib)[:8]
    return t1 + '\n\n' + t2 + '\n\n' + t3, sha


# ------------------------------------------------------------------------------------------ TC09g
class _DtypeRewrite(ast.NodeTransformer):
    def visit_Call(self, node):
        t = _norm(_txt(node))
        if t == 'output_indices.min()':
            return ast.copy_location(ast.Name(id='out_min', ctx=ast.Load()), node)
        if t == 'output_indices.max()':
            return ast.copy_location(ast.Name(id='out_max', ctx=ast.Load()), node)
        raise Unsupported('call in the dtype decision of the transformer: ' + _txt(node))

    def visit_Attribute(self, node):
        t = _norm(_txt(node))
        m = {'output_indices.size': 'out_size', 'info.min': 'info_min', 'info.max': 'info_max', 'indices.dtype.kind': 'kind'}
        if t in m:
            return ast.copy_location(ast.Name(id=m[t], ctx=ast.Load()), node)
        return node


def build_v2v_dtype(tree):
    """`VolumeToVolumeTransformer.__call__`: which inputs count as integers, when rounded output keeps the input
    integer type, when unrounded output is cast back to the input type"""
    call = find_func(tree, 'VolumeToVolumeTransformer.__call__')
    body = strip_doc(call.body)
    isint = [s for s in body if isinstance(s, ast.Assign) and _txt(s.targets[0]) == 'input_is_int']
    if len(isint) != 1:
        raise Unsupported('input_is_int assignment not found')
    b1 = _fix([ast.Return(value=_DtypeRewrite().visit(copy.deepcopy(isint[0].value)))])
    t1 = translate_block(b1, 'v2vInputIsInt', [('kind', 'str')], {},
                         doc='`input_is_int`: does the dtype kind of the index array (`indices.dtype.kind`) count as integer')
    rb = [s for s in body if isinstance(s, ast.If) and _norm(_txt(s.test)) == 'self._round_output']
    if len(rb) != 1:
        raise Unsupported('`if self._round_output` not found')
    rb = rb[0]
    inner = rb.body[1:-1]
    stmts = []
    for st in inner:
        if _assign_is(st, 'output_dtype', 'np.int64'):
            stmts.append(_parse_stmt('keep = False')); continue
        if isinstance(st, ast.If) and _norm(_txt(st.test)) == 'input_is_int':
            st = copy.deepcopy(st)

            class R(ast.NodeTransformer):
                def visit_Assign(self, node):
                    if _assign_is(node, 'info', 'np.iinfo(indices.dtype)'):
                        return None
                    if _assign_is(node, 'output_dtype', 'indices.dtype'):
                        return ast.copy_location(_parse_stmt('keep = True'), node)
                    raise Unsupported('assignment in the dtype decision: ' + _txt(node))
            st = R().visit(st)
            st = _DtypeRewrite().visit(st)
            stmts.append(st); continue
        raise Unsupported('statement in the rounding branch not recognised: ' + _txt(st)[:80])
    b2 = _fix(stmts + [_parse_stmt('return keep')])
    t2 = translate_block(b2, 'v2vKeepInputType',
                         [('input_is_int', 'bool'), ('out_size', 'int'), ('out_min', 'rat'), ('out_max', 'rat'),
                          ('info_min', 'int'), ('info_max', 'int')], {},
                         doc='rounded output: keep the integer dtype of the input (else np.int64)?  `out_min/out_max` = '
                             'min/max over all rounded results, `info_min/info_max` = range of the input dtype '
                             '(`np.iinfo(indices.dtype)`), `out_size` = number of results')
    b3 = _fix([ast.Return(value=_DtypeRewrite().visit(copy.deepcopy(rb.orelse[0].test)))])
    t3 = translate_block(b3, 'v2vCastBack', [('kind', 'str')], {},
                         doc='unrounded output: cast the float64 results back to the dtype of the input?')
    return t1 + '\n\n' + t2 + '\n\n' + t3, span_sha([isint[0], rb])


# ------------------------------------------------------------------------------------------ TC09h
_MUTATORS = {'fill', 'resize', 'sort', 'put', 'itemset', 'setfield', 'setflags', 'partition', 'byteswap', 'append', 'extend',
             'insert', 'remove', 'update', 'clear', 'pop', 'popitem', 'setdefault', 'add', 'discard', '__setitem__',
             '__setattr__', '__delitem__'}


def _rooted_at_self(node):
    while isinstance(node, (ast.Attribute, ast.Subscript, ast.Starred)):
        node = node.value
    return isinstance(node, ast.Name) and node.id == 'self'


def _self_writes(fn):
    """what a method writes on its own object: assignment / augmented assignment / deletion targets rooted at `self`
    (attributes and elements of attributes), in-place mutator calls and `out=` arguments rooted at `self`"""
    out = []

    def targets(t):
        if isinstance(t, (ast.Tuple, ast.List)):
            for e in t.elts:
                yield from targets(e)
        else:
            yield t
    for node in ast.walk(fn):
        tg = []
        if isinstance(node, ast.Assign):
            tg = [x for t in node.targets for x in targets(t)]
        elif isinstance(node, (ast.AugAssign, ast.AnnAssign)):
            tg = list(targets(node.target)) if not (isinstance(node, ast.AnnAssign) and node.value is None) else []
        elif isinstance(node, ast.Delete):
            tg = [x for t in node.targets for x in targets(t)]
        elif isinstance(node, ast.NamedExpr):
            tg = [node.target]
        elif isinstance(node, (ast.For, ast.AsyncFor)):
            tg = list(targets(node.target))
        elif isinstance(node, (ast.With, ast.AsyncWith)):
            tg = [x for it in node.items if it.optional_vars is not None for x in targets(it.optional_vars)]
        for t in tg:
            if isinstance(t, (ast.Attribute, ast.Subscript, ast.Starred)) and _rooted_at_self(t):
                out.append(_txt(t))
        if isinstance(node, ast.Call):
            f = node.func
            if isinstance(f, ast.Attribute) and f.attr in _MUTATORS and _rooted_at_self(f.value):
                out.append(_txt(f) + '()')
            if isinstance(f, ast.Name) and f.id in ('setattr', 'delattr') and node.args and _rooted_at_self(node.args[0]):
                out.append(_txt(node)[:60])
            for kw in node.keywords:
                if kw.arg == 'out' and _rooted_at_self(kw.value):
                    out.append('out=' + _txt(kw.value))
            if _txt(f) in ('np.copyto', 'numpy.copyto', 'np.put', 'np.place', 'np.putmask') and node.args \
                    and _rooted_at_self(node.args[0]):
                out.append(_txt(f) + '(' + _txt(node.args[0]) + ', …)')
    return out


def build_purity(tree):
    """which of the property's entry points write on their own object (they should not: the model is a function of the
    arguments)"""
    fns = {'v2vCallSelfWrites': 'VolumeToVolumeTransformer.__call__', 'refIdxSelfWrites': '_VolumeBase.map_reference_to_indices',
           'idxRefSelfWrites': '_VolumeBase.map_indices_to_reference', 'geqSelfWrites': '_VolumeBase.geometry_equal',
           'mgSelfWrites': '_VolumeBase.match_geometry'}
    texts, shas = [], ''
    for lean, qual in fns.items():
        fn = find_func(tree, qual)
        w = _self_writes(fn)
        items = ', '.join('"' + x.replace('\\', '\\\\').replace('"', '\\"') + '"' for x in w)
        texts.append(f"/-- writes of `{qual}` on its own object (`self.x = …`, `self.x[…] = …`, `self.x += …`, `del self.x`, in-place "
                     f"mutators and `out=` arguments rooted at `self`), extracted from the AST -/\ndef {lean} : List String := [{items}]")
        shas += hashlib.sha256('|'.join(w).encode() + qual.encode()).hexdigest()[:10]
    return '\n\n'.join(texts), shas


# ------------------------------------------------------------------------------------------ TC09i / TC09j / TC09k
def build_planargs(tree):
    """argument forwarding of the crop/pad loop: which per-axis sequence feeds which variable of the translated body
    (TC09b), which positions form `origin_offset`, which vector is dotted with it, the initial flags"""
    fn = find_func(tree, '_VolumeBase.match_geometry')
    loops = [n for n in ast.walk(fn) if isinstance(n, ast.For) and 'step_sizes' in _txt(n.iter)]
    if len(loops) != 1:
        raise Unsupported('crop/pad derivation loop not found')
    loop = loops[0]
    args = _zip_args(loop.iter, 5, 'crop/pad loop')
    if not (isinstance(loop.target, ast.Tuple) and len(loop.target.elts) == 5 and all(isinstance(e, ast.Name) for e in loop.target.elts)):
        raise Unsupported('crop/pad loop target is not a tuple of five names')
    bind = {e.id: _axis_src(a) for e, a in zip(loop.target.elts, args)}
    oo = [n for n in ast.walk(fn) if isinstance(n, ast.Assign) and _txt(n.targets[0]) == 'origin_offset']
    if len(oo) != 1:
        raise Unsupported('origin_offset assignment not found')
    minuend, subtrahend = _origin_offset(oo[0].value)
    off = loop.body[0]
    if not (isinstance(off, ast.Assign) and _txt(off.targets[0]) == 'offset' and isinstance(off.value, ast.BinOp)
            and isinstance(off.value.op, ast.MatMult)):
        raise Unsupported('first statement of the crop/pad loop is no longer offset = <vector> @ origin_offset')
    l, r = _txt(off.value.left), _txt(off.value.right)
    vec = l if r == 'origin_offset' else (r if l == 'origin_offset' else None)
    if vec is None or vec not in bind:
        raise Unsupported('offset is not the product of a loop vector with origin_offset')
    need = ['spacing', 'step', 'out_shape', 'in_shape']           # the parameters of Gen.mgCropPad (TC09b)
    for k in need:
        if k not in bind:
            raise Unsupported(f'crop/pad loop no longer binds {k}')
    init = {}
    for st in ast.walk(fn):
        if isinstance(st, ast.Assign) and _txt(st.targets[0]) in ('requires_crop', 'requires_pad') \
                and isinstance(st.value, ast.Constant) and isinstance(st.value.value, bool) and st.lineno < loop.lineno:
            init[_txt(st.targets[0])] = 'true' if st.value.value else 'false'
    if set(init) != {'requires_crop', 'requires_pad'}:
        raise Unsupported('initial values of requires_crop / requires_pad not found before the loop')
    text = ("/-- `match_geometry`, crop/pad loop: what is forwarded into the translated loop body `Gen.mgCropPad` for axis `a` — the "
            "a-th entry of which per-axis sequence (`own` = `new_volume`, the permuted volume being matched) feeds `spacing`, `step`, "
            "`out_shape`, `in_shape`; `offset = <offsetVec> @ (offsetFrom.position - offsetTo.position)`; the values of the two flags "
            "before the first iteration -/\n"
            "def mgPlanArgs : HdVerif.Match.PlanArgs :=\n"
            f"  {{ offsetVec := {bind[vec]}, offsetFrom := {minuend}, offsetTo := {subtrahend}, spacing := {bind['spacing']},\n"
            f"    step := {bind['step']}, outShape := {bind['out_shape']}, inShape := {bind['in_shape']},\n"
            f"    cropInit := {init['requires_crop']}, padInit := {init['requires_pad']} }}")
    return text, span_sha([loop.iter, loop.target, oo[0], off])


def build_alignargs(tree):
    """argument forwarding of the alignment loops: whose unit vectors / spacings are `u, s` (outer) and `v, t` (inner)"""
    fn = find_func(tree, '_VolumeBase.match_geometry')
    outer = [n for n in ast.walk(fn) if isinstance(n, ast.For) and isinstance(n.target, ast.Tuple)
             and _norm(_txt(n.target)) == '(u,s)']
    if len(outer) != 1 or len(outer[0].body) != 1 or not isinstance(outer[0].body[0], ast.For):
        raise Unsupported('alignment loops `for u, s in …: for j, (v, t) in …` not found')
    outer = outer[0]
    inner = outer.body[0]
    if _norm(_txt(inner.target)) != '(j,(v,t))' or not (isinstance(inner.iter, ast.Call) and _txt(inner.iter.func) == 'enumerate'
                                                        and len(inner.iter.args) == 1 and not inner.iter.keywords):
        raise Unsupported('inner alignment loop is no longer `for j, (v, t) in enumerate(zip(...))`')
    ua, sa = _zip_args(outer.iter, 2, 'outer alignment loop')
    va, ta = _zip_args(inner.iter.args[0], 2, 'inner alignment loop')
    text = ("/-- `match_geometry`, alignment loops: target axis i takes `u, s` from the i-th entries of these sequences, candidate "
            "source axis j (in increasing order, first match wins) takes `v, t` from the j-th entries of those; they are forwarded "
            "into the translated body `Gen.mgAlign (u @ v) s t tol` -/\n"
            "def mgAlignArgs : HdVerif.Match.AlignArgs :=\n"
            f"  {{ u := {_axis_src(ua)}, s := {_axis_src(sa)}, v := {_axis_src(va)}, t := {_axis_src(ta)} }}")
    return text, span_sha([outer.iter, inner.iter])


class _GetitemRewrite(ast.NodeTransformer):
    def visit_Attribute(self, node):
        t = _norm(_txt(node))
        if t == 'val.start':
            return ast.copy_location(ast.Name(id='start', ctx=ast.Load()), node)
        if t == 'val.stop':
            return ast.copy_location(ast.Name(id='stop', ctx=ast.Load()), node)
        return self.generic_visit(node)

    def visit_Subscript(self, node):
        if _norm(_txt(node)) in ('self.spatial_shape[dim]', 'self.spatial_shape[d]'):
            return ast.copy_location(ast.Name(id='n', ctx=ast.Load()), node)
        return self.generic_visit(node)

    def visit_Raise(self, node):
        return node


def build_getitem(tree):
    """`_prepare_getitem_index`: the range tests of `_check_slice` and, per axis, emptiness test, size, origin index and the
    factor of the affine column (the values `slice.indices` returns are parameters)"""
    fn = find_func(tree, '_VolumeBase._prepare_getitem_index')
    cs = [n for n in fn.body if isinstance(n, ast.FunctionDef) and n.name == '_check_slice']
    if len(cs) != 1:
        raise Unsupported('_check_slice not found')
    b1 = [_GetitemRewrite().visit(copy.deepcopy(st)) for st in strip_doc(cs[0].body)]
    b1 = _fix(b1 + [_parse_stmt('return True')])
    t1 = translate_block(b1, 'giCheckSlice', [('start', 'optint'), ('stop', 'optint'), ('n', 'int')], {},
                         doc='`_check_slice`: ValueError for a slice start / stop outside the axis of length n')
    loops = [n for n in fn.body if isinstance(n, ast.For) and _norm(_txt(n.iter)) == 'range(0,3)']
    if len(loops) != 1 or _txt(loops[0].target) != 'd':
        raise Unsupported('`for d in range(0, 3)` of _prepare_getitem_index not found')
    loop = loops[0]
    iff = [st for st in loop.body if isinstance(st, ast.If) and 'len(tuple_index)' in _txt(st.test)]
    if len(iff) != 1:
        raise Unsupported('`if len(tuple_index) > d` not found')
    stm = []
    seen_indices = False
    for st in iff[0].body:
        if isinstance(st, ast.Assign) and _txt(st.targets[0]) == 'index_item':
            continue
        if isinstance(st, ast.Assign) and _norm(_txt(st.targets[0])) == '(first,last,step)':
            _expect(st.value, 'index_item.indices(self.spatial_shape[d])', 'slice.indices call')
            seen_indices = True
            continue
        if _is_append(st, 'new_shape'):
            size_expr = st.value.args[0]
            continue
        stm.append(copy.deepcopy(st))
    if not seen_indices:
        raise Unsupported('first, last, step = index_item.indices(...) not found')
    vec = [st for st in loop.body if _is_append(st, 'new_vectors')]
    org = [st for st in loop.body if _is_append(st, 'origin_indices')]
    if len(vec) != 1 or len(org) != 1:
        raise Unsupported('new_vectors / origin_indices appends not found')
    v = vec[0].value.args[0]
    if not (isinstance(v, ast.BinOp) and isinstance(v.op, ast.Mult)):
        raise Unsupported('new vector is no longer a product')
    l, r = _norm(_txt(v.left)), _norm(_txt(v.right))
    factor = v.right if l == 'self._affine[:3,d]' else (v.left if r == 'self._affine[:3,d]' else None)
    if factor is None:
        raise Unsupported('new vector is no longer self._affine[:3, d] * <factor>')
    ret = ast.Return(value=ast.Tuple(elts=[org[0].value.args[0], factor, size_expr], ctx=ast.Load()))
    b2 = _fix(stm + [ret])
    t2 = translate_block(b2, 'giAxis', [('first', 'int'), ('last', 'int'), ('step', 'int')], {},
                         doc='`_prepare_getitem_index`, one sliced axis, given `first, last, step = slice.indices(n)`: IndexError for an '
                             'empty selection, else (origin index, factor of the affine column, new size)')
    return t1 + '\n\n' + t2, span_sha([cs[0], loop])


TARGETS = {
    'TC09i': {'file': 'volume.py', 'build': build_planargs, 'imports': ['HdVerif.Model.MatchOps']},
    'TC09j': {'file': 'volume.py', 'build': build_alignargs, 'imports': ['HdVerif.Model.MatchOps']},
    'TC09k': {'file': 'volume.py', 'build': build_getitem},
    'TC09h': {'file': 'volume.py', 'build': build_purity},
    'TC09g': {'file': 'volume.py', 'build': build_v2v_dtype},
    'TC09f': {'file': 'volume.py', 'build': build_order, 'imports': ['HdVerif.Model.MatchOps']},
    'TC09e': {'file': 'volume.py', 'build': build_matchhead},
    'TC09a': {'file': 'volume.py', 'build': build_align, 'imports': IMPORTS},
    'TC09b': {'file': 'volume.py', 'build': build_croppad, 'imports': IMPORTS},
    'TC09c': {'file': 'volume.py', 'build': build_geomeq},
    'TC09d': {'file': 'volume.py', 'build': build_bounds},
}
