"""Translation targets of C07 (tie T): the validation / dispatch logic of `frame.encode_frame` and
`frame.decode_frame`, regenerated from the current source.

The two functions are loop-free decision trees over (transfer syntax, bits allocated / stored, samples,
photometric interpretation, pixel representation, planar configuration, array shape / dtype) that end in
a hand-off to a codec.  A pre-pass rewrites the constructs the core translator does not know into the
fragment it knows -- *mechanically and faithfully*:

  * `x = Enum(x).value`                 -> `if not (x == v1 or x == v2 ...): raise ValueError()`   (values read
                                           from the current `enum.py`)
                                           -- only faithful if nothing reads `x` before that statement (the
                                           caller may pass the enum MEMBER, which equals no int / str): a read of an
                                           enum-valued argument above its normalisation, other than `x is None`,
                                           is outside the fragment (`check_enum_args_normalised_first`)
  * `NAME = {a, b}` / `A.union(B)`       -> recorded literal collections (statement dropped)
  * `x in C`, `x not in C`               -> disjunction of equalities over the recorded / literal collection
  * `NAME = {k: v, ...}[key]`            -> `if not (key == k1 or ...): raise KeyError()` + recorded selection;
                                           later `x not in NAME`, `x != NAME.value` expand over the keys
  * codec hand-off statements            -> `return <route>`:  1 pack_bits, 2 tobytes, 3 PIL JPEG,
                                           4 openjpeg 1-bit, 5 pydicom encoder;  decode: 1 unpack_bits, 2/3 pydicom
  * dataset building in decode_frame (`ds.X = ...`) and `try: import ...` blocks are dropped; codec keyword dicts, the
    encoder object and the one cast `array = array.astype(bool)` are dropped BY EXACT TEXT (`ENC_DROPPED`, with the reason
    why the model stays faithful); any other assignment to those names is Unsupported.

Anything else outside the fragment raises Unsupported => TRANSLATION-BROKEN.
"""
from __future__ import annotations

import ast
import hashlib
import os

from py2lean import (Unsupported, find_func, lean_table, span_sha, strip_doc,
                     translate_block)

ROUTES_ENC = {'pack_bits': 1, 'tobytes': 2, 'Image.fromarray': 3, 'image.save': 3, 'encode_array': 4, 'encoder.encode': 5}


def _uid_consts():
    import pydicom.uid as U
    names = ['ExplicitVRLittleEndian', 'ImplicitVRLittleEndian', 'JPEG2000Lossless', 'JPEG2000',
             'JPEGBaseline8Bit', 'JPEGLSLossless', 'JPEGLSNearLossless', 'RLELossless']
    return {n: str(getattr(U, n)) for n in names}


def _enum_values(repo_src, cls):
    tree = ast.parse(open(os.path.join(repo_src, 'enum.py')).read())
    for n in tree.body:
        if isinstance(n, ast.ClassDef) and n.name == cls:
            vals = []
            for s in n.body:
                if isinstance(s, ast.Assign) and isinstance(s.value, ast.Constant) and isinstance(s.targets[0], ast.Name):
                    vals.append((s.targets[0].id, s.value.value))
            if vals:
                return vals
    raise Unsupported(f'enum {cls} not found in enum.py')


def _eq(a, b):
    return ast.Compare(left=a, ops=[ast.Eq()], comparators=[b])


def _or(xs):
    xs = list(xs)
    if not xs:
        return ast.Constant(value=False)
    return xs[0] if len(xs) == 1 else ast.BoolOp(op=ast.Or(), values=xs)


def _and(xs):
    xs = list(xs)
    return xs[0] if len(xs) == 1 else ast.BoolOp(op=ast.And(), values=xs)


def _not(x):
    return ast.UnaryOp(op=ast.Not(), operand=x)


def _raise(kind):
    return ast.Raise(exc=ast.Call(func=ast.Name(id=kind, ctx=ast.Load()), args=[], keywords=[]), cause=None)


class Pre:
    """the pre-pass (see module doc)"""

    def __init__(self, repo_src, routes, drop_targets=(), drop_attr_bases=()):
        self.repo_src = repo_src
        self.colls = {}      # name -> list of ast exprs
        self.dictsel = {}    # name -> (key expr, [(key ast, value)])  value: list of ast | ast (enum member) | None
        self.routes = routes
        self.drop_targets = drop_targets if isinstance(drop_targets, dict) else set(drop_targets)
        self.drop_attr_bases = set(drop_attr_bases)
        self.enum_cache = {}

    def enum(self, cls):
        if cls not in self.enum_cache:
            self.enum_cache[cls] = _enum_values(self.repo_src, cls)
        return self.enum_cache[cls]

    # ---- expressions
    def elems(self, node):
        if isinstance(node, (ast.Tuple, ast.List, ast.Set)):
            return list(node.elts)
        if isinstance(node, ast.Name) and node.id in self.colls:
            return self.colls[node.id]
        return None

    def enum_member_value(self, node):
        # EnumClass.MEMBER -> constant value
        if isinstance(node, ast.Attribute) and isinstance(node.value, ast.Name) and node.value.id.endswith('Values'):
            for name, val in self.enum(node.value.id):
                if name == node.attr:
                    return ast.Constant(value=val)
            raise Unsupported(f'unknown enum member {ast.unparse(node)}')
        return None

    def expr(self, node):
        pre = self

        class T(ast.NodeTransformer):
            def visit_Compare(self, n):
                n = self.generic_visit(n)
                if len(n.ops) == 1 and isinstance(n.ops[0], (ast.In, ast.NotIn)):
                    c = n.comparators[0]
                    neg = isinstance(n.ops[0], ast.NotIn)
                    el = pre.elems(c)
                    if el is not None:
                        r = _or(_eq(n.left, e) for e in el)
                        return _not(r) if neg else r
                    if isinstance(c, ast.Name) and c.id in pre.dictsel:
                        key, rows = pre.dictsel[c.id]
                        r = _or(_and([_eq(key, k), _or(_eq(n.left, e) for e in v.elts)]) for k, v in rows)
                        return _not(r) if neg else r
                    raise Unsupported('membership test on unknown collection ' + ast.unparse(c))
                if len(n.ops) == 1 and isinstance(n.ops[0], (ast.Eq, ast.NotEq)):
                    c = n.comparators[0]
                    if isinstance(c, ast.Attribute) and c.attr == 'value' and isinstance(c.value, ast.Name) \
                            and c.value.id in pre.dictsel:
                        key, rows = pre.dictsel[c.value.id]
                        r = _or(_and([_eq(key, k), _eq(n.left, pre.enum_member_value(v))]) for k, v in rows)
                        return _not(r) if isinstance(n.ops[0], ast.NotEq) else r
                return n
        out = T().visit(node)
        ast.fix_missing_locations(out)
        return out

    # ---- statements
    def route_of(self, st):
        txt = ast.unparse(st)
        for needle, r in self.routes.items():
            if needle in txt:
                return r
        return None

    def route_return(self, st, r):
        """`return <route>`; with `self.handoff` set: `return (route, rows, columns, samples_per_pixel, bits_allocated,
        bits_stored, pixel_representation)` -- for the pydicom encoder call the values are the keyword arguments of the
        call itself (so that a wrong argument is part of the translation), otherwise the function's own variables"""
        if not getattr(self, 'handoff', None):
            return ast.Return(value=ast.Constant(value=r))
        names = list(self.handoff)
        vals = {n: ast.Name(id=n, ctx=ast.Load()) for n in names}
        calls = [n for n in ast.walk(st) if isinstance(n, ast.Call) and ast.unparse(n.func) == 'encoder.encode']
        if calls:
            call = calls[0]
            kws = {k.arg: k.value for k in call.keywords if k.arg}
            if [ast.unparse(a) for a in call.args] != ['array']:
                raise Unsupported('encoder.encode is no longer called with the array as its only positional argument')
            fixed = {'number_of_frames': '1', 'photometric_interpretation': 'photometric_interpretation',
                     'planar_configuration': 'planar_configuration'}
            for k, want in fixed.items():
                if k not in kws or ast.unparse(kws[k]) != want:
                    raise Unsupported(f'encoder.encode keyword {k} is no longer {want}')
            kwmap = {'rows': 'rows', 'cols': 'columns', 'samples_per_pixel': 'samples_per_pixel',
                     'bits_allocated': 'bits_allocated', 'bits_stored': 'bits_stored',
                     'pixel_representation': 'pixel_representation'}
            for n in names:
                if kwmap[n] not in kws:
                    raise Unsupported(f'encoder.encode keyword {kwmap[n]} missing')
                vals[n] = self.expr(kws[kwmap[n]])
        return ast.Return(value=ast.Tuple(elts=[ast.Constant(value=r)] + [vals[n] for n in names], ctx=ast.Load()))

    def stmts(self, body):
        out = []
        for st in body:
            out.extend(self.stmt(st))
        return out or [ast.Pass()]

    def stmt(self, st):
        if isinstance(st, ast.If):
            new = ast.If(test=self.expr(st.test), body=self.stmts(st.body),
                         orelse=self.stmts(st.orelse) if st.orelse else [])
            return [new]
        if isinstance(st, ast.Try):
            if all(isinstance(s, (ast.Import, ast.ImportFrom)) for s in st.body):
                return []
            raise Unsupported('try statement other than a guarded import')
        if isinstance(st, (ast.With, ast.For, ast.While)):
            r = self.route_of(st)
            if r is not None:
                return [self.route_return(st, r)]
            raise Unsupported(type(st).__name__)
        if isinstance(st, ast.Return):
            r = self.route_of(st)
            if r is not None:
                return [self.route_return(st, r)]
            return [st]
        if isinstance(st, ast.Assign) and len(st.targets) == 1:
            tgt, val = st.targets[0], st.value
            # attribute stores on scratch objects (dataset building)
            if isinstance(tgt, ast.Attribute):
                base = tgt
                while isinstance(base, ast.Attribute):
                    base = base.value
                if isinstance(base, ast.Name) and base.id in self.drop_attr_bases:
                    return []
                raise Unsupported('attribute store ' + ast.unparse(tgt))
            if isinstance(tgt, ast.Name):
                name = tgt.id
                r = self.route_of(st)
                if r is not None:
                    return [self.route_return(st, r)]
                if name in self.drop_targets:
                    # dropped only when the statement is one the model accounts for (exact text); a set = any text
                    allowed = self.drop_targets[name] if isinstance(self.drop_targets, dict) else None
                    if allowed is not None and ast.unparse(st) not in allowed:
                        raise Unsupported(f'assignment to {name} that the model does not account for: {ast.unparse(st)[:80]}')
                    return []
                # x = Enum(x).value
                if isinstance(val, ast.Attribute) and val.attr == 'value' and isinstance(val.value, ast.Call) \
                        and isinstance(val.value.func, ast.Name) and val.value.func.id.endswith('Values') \
                        and len(val.value.args) == 1 and ast.unparse(val.value.args[0]) == name:
                    vals = self.enum(val.value.func.id)
                    test = _not(_or(_eq(ast.Name(id=name, ctx=ast.Load()), ast.Constant(value=v)) for _, v in vals))
                    return [ast.If(test=test, body=[_raise('ValueError')], orelse=[])]
                # literal collections
                if isinstance(val, (ast.Set, ast.Tuple, ast.List)) and all(
                        isinstance(e, (ast.Name, ast.Constant)) for e in val.elts):
                    self.colls[name] = list(val.elts)
                    return []
                if isinstance(val, ast.Call) and isinstance(val.func, ast.Attribute) and val.func.attr == 'union' \
                        and isinstance(val.func.value, ast.Name) and val.func.value.id in self.colls \
                        and len(val.args) == 1 and isinstance(val.args[0], ast.Name) and val.args[0].id in self.colls:
                    self.colls[name] = self.colls[val.func.value.id] + self.colls[val.args[0].id]
                    return []
                # NAME = {..}[key]
                if isinstance(val, ast.Subscript) and isinstance(val.value, ast.Dict):
                    key = self.expr(val.slice)
                    rows = list(zip(val.value.keys, val.value.values))
                    guard = ast.If(test=_not(_or(_eq(key, k) for k, _ in rows)), body=[_raise('KeyError')], orelse=[])
                    if all(isinstance(v, (ast.List, ast.Tuple)) for _, v in rows) or \
                            all(isinstance(v, ast.Attribute) for _, v in rows):
                        self.dictsel[name] = (key, rows)
                    elif not all(isinstance(v, ast.Constant) for _, v in rows):
                        raise Unsupported('dict selection with unsupported values: ' + name)
                    return [guard]
                # file_meta = FileMetaDataset(), ds = Dataset()
                if name in self.drop_attr_bases and isinstance(val, ast.Call):
                    return []
            return [ast.Assign(targets=st.targets, value=self.expr(val), lineno=0)]
        if isinstance(st, ast.Raise):
            return [st]
        if isinstance(st, ast.Expr):
            return [st]
        return [st]


ENUM_ARGS = ('pixel_representation', 'photometric_interpretation', 'planar_configuration')


def check_enum_args_normalised_first(body, names=ENUM_ARGS):
    """The model holds an enum-valued argument as its VALUE (int / str) from the first statement on; the function may be
    handed the enum MEMBER, for which `x == 1` is False until `x = XValues(x).value` has run.  The rewrite of that
    statement into a validity check is therefore only faithful if nothing reads `x` before it -- other than `x is None`.
    Anything else (e.g. `is_signed = pixel_representation == 1` above the normalisation) is outside the fragment."""
    mod = ast.Module(body=list(body), type_ignores=[])
    parents = {}
    for n in ast.walk(mod):
        for c in ast.iter_child_nodes(n):
            parents[c] = n
    for name in names:
        def is_norm(n):
            # x = XValues(x).value   or   x = XValues(x) / XNames(x)  (member kept, `.value` read later)
            if not (isinstance(n, ast.Assign) and len(n.targets) == 1 and isinstance(n.targets[0], ast.Name)
                    and n.targets[0].id == name):
                return False
            v = n.value
            if isinstance(v, ast.Attribute) and v.attr == 'value':
                v = v.value
            return isinstance(v, ast.Call) and isinstance(v.func, ast.Name) and v.func.id.endswith(('Values', 'Names')) \
                and len(v.args) == 1 and ast.unparse(v.args[0]) == name
        norm = [n for n in ast.walk(mod) if is_norm(n)]
        loads = [n for n in ast.walk(mod) if isinstance(n, ast.Name) and n.id == name and isinstance(n.ctx, ast.Load)]
        if not loads:
            continue
        if not norm:
            raise Unsupported(f'enum-valued argument {name} is used but never normalised through its enum')
        first = min(n.lineno for n in norm)
        for n in loads:
            if n.lineno >= first:
                continue
            par = parents.get(n)
            if isinstance(par, ast.Compare) and len(par.ops) == 1 and isinstance(par.ops[0], (ast.Is, ast.IsNot)) \
                    and isinstance(par.comparators[0], ast.Constant) and par.comparators[0].value is None:
                continue
            raise Unsupported(f'enum-valued argument {name} is read (line {n.lineno}: '
                              f'{ast.unparse(parents.get(n, n))[:60]}) before it is normalised through its enum '
                              f'(line {first}): an enum member would be compared as if it were its value')


def _fix(stmts):
    mod = ast.Module(body=stmts, type_ignores=[])
    ast.fix_missing_locations(mod)
    return mod.body


ENC_PARAMS = [('transfer_syntax_uid', 'str'), ('bits_allocated', 'int'), ('bits_stored', 'int'),
              ('photometric_interpretation', 'str'), ('pixel_representation', 'int'),
              ('planar_configuration', 'optint')]
ENC_ATTRS = {
    'array.shape[0]': ('int', 'shape0'), 'array.shape[1]': ('int', 'shape1'), 'array.shape[2]': ('int', 'shape2'),
    'array.ndim': ('int', 'ndim'), 'array.dtype.kind': ('str', 'dtypeKind'),
    'array.dtype.itemsize': ('int', 'itemsize'), 'array.dtype': ('str', 'dtypeName'),
    'array.max()': ('int', 'arrayMax'), 'array.min()': ('int', 'arrayMin'),
}


# assignments of encode_frame that have no counterpart in the model, by exact text, and why that is faithful:
#  * codec keyword dicts and the encoder object do not influence accept / refuse or the values;
#  * `array = array.astype(bool)` (1-bit JPEG 2000 lossless) is reached only after the check that the array is bool or an
#    integer array with 0 <= min and max <= 1 (part of the translated tree; `Props/C07.one_bit_j2k_values_binary`), on
#    which the cast preserves every value -- the model hands the codec the unchanged frame.
# Any other assignment to these names is TRANSLATION-BROKEN.
ENC_DROPPED = {
    'kwargs': {'kwargs = {}', "kwargs = {'j2k_psnr': [100]}"},
    'encoder': {'encoder = get_encoder(transfer_syntax_uid)'},
    'array': {'array = array.astype(bool)'},
}


def _repo_src():
    return os.path.join(os.environ.get('HD_REPO', '/repo'), 'src', 'highdicom')


def build_T13a(tree):
    fn = find_func(tree, 'encode_frame')
    if fn.decorator_list:
        raise Unsupported('encode_frame is wrapped by a decorator: what a call returns is no longer decided by its body alone')
    have = [a.arg for a in fn.args.args]
    for p, _ in ENC_PARAMS:
        if p not in have:
            raise Unsupported(f'parameter {p} no longer in encode_frame')
    body = strip_doc(fn.body)
    check_enum_args_normalised_first(body)
    pre = Pre(_repo_src(), ROUTES_ENC, drop_targets=ENC_DROPPED)
    pre.handoff = ['rows', 'cols', 'samples_per_pixel', 'bits_allocated', 'bits_stored', 'pixel_representation']
    stmts = _fix(pre.stmts(body))
    consts = {n: ('str', '"' + v + '"') for n, v in _uid_consts().items()}
    consts['bool'] = ('str', '"bool"')
    text = translate_block(
        stmts, 'encodeFrameRoute', ENC_PARAMS, ENC_ATTRS, consts=consts,
        doc='`frame.encode_frame`: everything up to the codec hand-off.  Result = (route, rows, columns, samples per pixel, bits '
            'allocated, bits stored, pixel representation) as handed to the codec; route: 1 `pack_bits(array.flatten())`, '
            '2 `array.flatten()...tobytes()`, 3 PIL JPEG baseline, 4 openjpeg 1-bit, 5 pydicom encoder (its keyword arguments).  '
            '`dtypeKind`/`itemsize`/`dtypeName` describe `array.dtype`, `arrayMax` / `arrayMin` are `array.max()` / `array.min()`')
    # tables (T13): the literal collections of the function, for the specification side
    rows = []
    for name in ('uncompressed_transfer_syntaxes', 'compressed_transfer_syntaxes'):
        if name not in pre.colls:
            raise Unsupported(f'{name} not found in encode_frame')
        uids = []
        for e in pre.colls[name]:
            if isinstance(e, ast.Name) and e.id in _uid_consts():
                uids.append('"' + _uid_consts()[e.id] + '"')
            else:
                raise Unsupported('non-UID element in ' + name)
        lean = 'encodeFrame' + ''.join(w.capitalize() for w in name.split('_'))
        rows.append(lean_table(lean, 'List String', sorted(uids), doc=f'`encode_frame`: `{name}`'))
    pis = ['"' + v + '"' for _, v in pre.enum('PhotometricInterpretationValues')]
    rows.append(lean_table('photometricInterpretationValues', 'List String', pis,
                           doc='values of `enum.PhotometricInterpretationValues`'))
    return text + '\n\n' + '\n\n'.join(rows), span_sha(body)


DEC_PARAMS = [('bits_allocated', 'int'), ('samples_per_pixel', 'int'), ('photometric_interpretation', 'str'),
              ('pixel_representation', 'int'), ('planar_configuration', 'optint')]


def build_T13c(tree):
    fn = find_func(tree, 'decode_frame')
    if fn.decorator_list:
        raise Unsupported('decode_frame is wrapped by a decorator: what a call returns is no longer decided by its body alone')
    have = [a.arg for a in fn.args.args]
    for p, _ in DEC_PARAMS:
        if p not in have:
            raise Unsupported(f'parameter {p} no longer in decode_frame')
    body = strip_doc(fn.body)
    check_enum_args_normalised_first(body)
    # first statement: is_encapsulated = UID(transfer_syntax_uid).is_encapsulated
    first = body[0]
    if not (isinstance(first, ast.Assign) and ast.unparse(first.targets[0]) == 'is_encapsulated'
            and ast.unparse(first.value) == 'UID(transfer_syntax_uid).is_encapsulated'):
        raise Unsupported('decode_frame no longer starts with is_encapsulated = UID(transfer_syntax_uid).is_encapsulated')
    rest = body[1:]
    # integer parameters converted with operator.index (identity on integers, the only values of the model; numpy scalars become
    # Python ints, anything else raises): `x = operator.index(x)` for parameters only, before anything reads them
    while rest and isinstance(rest[0], ast.Assign) and isinstance(rest[0].targets[0], ast.Name) \
            and ast.unparse(rest[0].value) == f'operator.index({rest[0].targets[0].id})' and rest[0].targets[0].id in have:
        rest = rest[1:]
    # the 1-bit native branch: first `if` -- its body must reshape to the frame shape; the slice itself is T12
    iff = rest[0]
    if not (isinstance(iff, ast.If) and 'bits_allocated == 1' in ast.unparse(iff.test)):
        raise Unsupported('1-bit native branch of decode_frame not found')
    reshapes = sorted(ast.unparse(n) for n in ast.walk(iff) if isinstance(n, ast.Return))
    want = sorted(['return pixel_array.reshape(rows, columns, samples_per_pixel)', 'return pixel_array.reshape(rows, columns)'])
    if reshapes != want or not any(isinstance(s, ast.If) and ast.unparse(s.test) == 'samples_per_pixel > 1' for s in iff.body):
        raise Unsupported('1-bit branch of decode_frame no longer returns reshape(rows, columns[, samples]): ' + str(reshapes))
    iff2 = ast.If(test=iff.test, body=[ast.Return(value=ast.Constant(value=1))], orelse=[])
    # the tail: `if is_encapsulated: ds.PixelData = encapsulate(frames=[value]) else: ds.PixelData = value; array = ds.pixel_array`
    tail_if = [s for s in rest if isinstance(s, ast.If) and ast.unparse(s.test) == 'is_encapsulated']
    if len(tail_if) != 1 or ast.unparse(tail_if[0].body[0]) != 'ds.PixelData = encapsulate(frames=[value])' \
            or ast.unparse(tail_if[0].orelse[0]) != 'ds.PixelData = value':
        raise Unsupported('hand-off of decode_frame to pydicom changed')
    idx = rest.index(tail_if[0])
    if [ast.unparse(s) for s in rest[idx + 1:]] != ['array = ds.pixel_array', 'return array']:
        raise Unsupported('decode_frame no longer returns ds.pixel_array')
    # the attributes stored in the scratch dataset are part of the translated span (shape check, textual)
    stores = sorted(ast.unparse(s) for s in rest[1:idx] if isinstance(s, ast.Assign) and ast.unparse(s.targets[0]).startswith('ds.'))
    expected = sorted(['ds.file_meta = file_meta', 'ds.Rows = rows', 'ds.Columns = columns',
                       'ds.SamplesPerPixel = samples_per_pixel', 'ds.BitsAllocated = bits_allocated',
                       'ds.BitsStored = bits_stored', 'ds.HighBit = bits_stored - 1',
                       'ds.PixelRepresentation = pixel_representation',
                       'ds.PhotometricInterpretation = photometric_interpretation'])
    if stores != expected:
        raise Unsupported('scratch dataset of decode_frame is built differently: ' + str(stores))
    new_tail = ast.If(test=tail_if[0].test, body=[ast.Return(value=ast.Constant(value=3))],
                      orelse=[ast.Return(value=ast.Constant(value=2))])
    pre = Pre(_repo_src(), {}, drop_attr_bases={'ds', 'file_meta'})
    stmts = _fix([iff2] + pre.stmts(rest[1:idx]) + [new_tail])
    params = [('is_encapsulated', 'bool')] + DEC_PARAMS
    text = translate_block(
        stmts, 'decodeFrameRoute', params, {},
        doc='`frame.decode_frame`: parameter checks and dispatch.  Route 1 = native 1-bit (`unpack_bits`, bit slice T12, '
            'reshape), 2 = pydicom on a one-frame dataset with native pixel data, 3 = the same with encapsulated pixel data')
    return text, span_sha(body)


TARGETS = {
    'T13a': {'file': 'frame.py', 'build': build_T13a},
    'T13c': {'file': 'frame.py', 'build': build_T13c},
}


# ------------------------------------------------------------------ T13n: the expressions of the native hand-offs
def _flatten_order(call, what):
    """`array.flatten()` / `array.flatten('F')` / `array.flatten(order='F')` -> the order letter ('C' when absent)"""
    if not (isinstance(call, ast.Call) and ast.unparse(call.func) == 'array.flatten'):
        raise Unsupported(f'{what}: the frame is no longer flattened with array.flatten(..): {ast.unparse(call)[:60]}')
    args = list(call.args) + [k.value for k in call.keywords if k.arg == 'order']
    if len(args) > 1 or any(k.arg != 'order' for k in call.keywords):
        raise Unsupported(f'{what}: arguments of array.flatten changed')
    if not args:
        return 'C'
    if not (isinstance(args[0], ast.Constant) and args[0].value in ('C', 'F', 'A', 'K')):
        raise Unsupported(f'{what}: order argument of array.flatten is not a literal')
    return args[0].value


def build_T13n(tree):
    """What the two native routes of `encode_frame` and the 1-bit route of `decode_frame` DO with the frame (the hand-written
    part of `Model/Codec.encodeFrame` / `decodeFrame`): order in which the array is flattened before `pack_bits` and before
    `tobytes`, the byte order of the cells, the shape the unpacked bits are given.  `Proofs/CodecTie.lean` proves that the
    model uses exactly these."""
    enc = find_func(tree, 'encode_frame')
    rets = [n for n in ast.walk(enc) if isinstance(n, ast.Return) and n.value is not None]
    pk = [r for r in rets if 'pack_bits' in ast.unparse(r)]
    tb = [r for r in rets if 'tobytes' in ast.unparse(r)]
    if len(pk) != 1 or len(tb) != 1:
        raise Unsupported('native returns of encode_frame not found (one pack_bits, one tobytes)')
    pkc = pk[0].value
    if not (isinstance(pkc, ast.Call) and ast.unparse(pkc.func) == 'pack_bits' and len(pkc.args) == 1 and not pkc.keywords):
        raise Unsupported('pack_bits is no longer called with the flattened frame alone: ' + ast.unparse(pkc)[:80])
    pack_order = _flatten_order(pkc.args[0], 'pack_bits')
    # array.flatten(..).astype(array.dtype.newbyteorder(B), copy=False).tobytes()
    t = tb[0].value
    ok = isinstance(t, ast.Call) and isinstance(t.func, ast.Attribute) and t.func.attr == 'tobytes' and not t.args and not t.keywords
    a = t.func.value if ok else None
    ok = ok and isinstance(a, ast.Call) and isinstance(a.func, ast.Attribute) and a.func.attr == 'astype' and len(a.args) == 1 \
        and [(k.arg, ast.unparse(k.value)) for k in a.keywords] == [('copy', 'False')]
    nb = a.args[0] if ok else None
    ok = ok and isinstance(nb, ast.Call) and ast.unparse(nb.func) == 'array.dtype.newbyteorder' and len(nb.args) == 1 \
        and isinstance(nb.args[0], ast.Constant) and nb.args[0].value in ('<', '>', '=', '|', 'S')
    if not ok:
        raise Unsupported('native cells are no longer array.flatten(..).astype(array.dtype.newbyteorder(B), copy=False).tobytes(): '
                          + ast.unparse(t)[:120])
    cells_order = _flatten_order(a.func.value, 'tobytes')
    byte_order = nb.args[0].value
    # decode_frame, 1-bit native: reshape arguments
    dec = find_func(tree, 'decode_frame')
    rs = [n for n in ast.walk(dec) if isinstance(n, ast.Return) and 'pixel_array.reshape' in ast.unparse(n)]
    guard = [n for n in ast.walk(dec) if isinstance(n, ast.If) and ast.unparse(n.test) == 'samples_per_pixel > 1'
             and any(r in ast.walk(n) for r in rs)]
    if len(rs) != 2 or len(guard) != 1:
        raise Unsupported('1-bit branch of decode_frame: reshape returns not found')

    def shape_of(ret):
        c = ret.value
        if not (isinstance(c, ast.Call) and ast.unparse(c.func) == 'pixel_array.reshape' and not c.keywords):
            raise Unsupported('reshape call changed: ' + ast.unparse(ret))
        names = [ast.unparse(x) for x in c.args]
        if not all(n in ('rows', 'columns', 'samples_per_pixel') for n in names):
            raise Unsupported('reshape arguments are not rows / columns / samples_per_pixel: ' + str(names))
        return '[' + ', '.join(names) + ']'
    inner = [r for r in rs if r in list(ast.walk(guard[0]))and any(r in ast.walk(s) for s in guard[0].body)]
    outer = [r for r in rs if r not in inner]
    if len(inner) != 1 or len(outer) != 1:
        raise Unsupported('1-bit branch of decode_frame: reshape returns are no longer `if samples_per_pixel > 1: .. ` / fall-through')
    text = f'''/-- `encode_frame`, native 1 bit: `pack_bits(array.flatten(..))` -- memory order in which the frame is flattened -/
def packBitsFlattenOrder : String := "{pack_order}"

/-- `encode_frame`, native cells: `array.flatten(..)....tobytes()` -- memory order in which the frame is flattened -/
def cellsFlattenOrder : String := "{cells_order}"

/-- `encode_frame`, native cells: `array.dtype.newbyteorder(..)` -- byte order of a cell -/
def cellsByteOrder : String := "{byte_order}"

/-- `decode_frame`, native 1 bit: the shape the unpacked bits are given (`pixel_array.reshape(..)`) -/
def decodeOneBitShape (rows columns samples_per_pixel : Nat) : List Nat :=
  if samples_per_pixel > 1 then {shape_of(inner[0])} else {shape_of(outer[0])}'''
    return text, span_sha([pk[0], tb[0]] + rs)


TARGETS['T13n'] = {'file': 'frame.py', 'build': build_T13n}



# ------------------------------------------------------------------ T13d: defaults of the optional parameters
def build_T13d(tree):
    """(function, parameter, default) for every parameter of `encode_frame` / `decode_frame` that has a default -- a caller may
    leave these out; the frame encoded with omitted arguments must decode with omitted arguments, so the defaults the two
    functions share must agree (`Proofs/CodecTie.defaults_tie`)."""
    rows, spans = [], []
    for name in ('encode_frame', 'decode_frame'):
        fn = find_func(tree, name)
        a = fn.args
        if a.vararg or a.kwarg or a.kwonlyargs or a.posonlyargs:
            raise Unsupported(f'{name}: signature with *args / **kwargs / keyword-only parameters')
        pos = a.args
        defaults = [None] * (len(pos) - len(a.defaults)) + list(a.defaults)
        for prm, dv in zip(pos, defaults):
            if dv is not None:
                if not isinstance(dv, ast.Constant):
                    raise Unsupported(f'{name}: default of {prm.arg} is not a literal')
                rows.append((name, prm.arg, repr(dv.value)))
        spans.append(ast.Expr(value=ast.Constant(value=ast.unparse(a))))
    q = lambda s: '"' + s + '"'   # noqa: E731
    text = lean_table('frameDefaults', 'List (String × String × String)', ['(' + ', '.join(q(x) for x in r) + ')' for r in rows],
                      doc='(function, parameter, default) of the optional parameters of `encode_frame` / `decode_frame`')
    return text, span_sha(spans)


TARGETS['T13d'] = {'file': 'frame.py', 'build': build_T13d}


# ------------------------------------------------------------------ T13g: the glue -- who calls encode_frame / decode_frame with what
GLUE_SITES = [
    # (file, qualified function, callee)
    ('image.py', '_CombinedPixelTransform.__call__', 'decode_frame'),
    ('image.py', '_Image.get_stored_frame', 'decode_frame'),
    ('image.py', '_Image.get_stored_frames', 'decode_frame'),
    ('io.py', 'ImageFileReader.read_frame', 'decode_frame'),
    ('sc/sop.py', 'SCImage.__init__', 'encode_frame'),
    ('pm/sop.py', 'ParametricMap._encode_frame', 'encode_frame'),
    ('legacy/sop.py', '_convert_legacy_to_enhanced', 'encode_frame'),
]
# owners whose attributes are the attributes of the image data set itself
GLUE_OWNERS = ('self', 'image', 'ds', 'mf_dataset', 'self.metadata')
GLUE_LOCALS = ('frame_index', 'index', 'raw_frame', 'frame', 'frame_data', 'pixel_array', 'ds.pixel_array * 1', 'segment_array')
# sites whose call passes a keyword dictionary built nearby (`encode_frame(x, **kw)`, `pool.submit(encode_frame, array=x, **kw)`)
GLUE_KWARGS_SITES = [
    ('seg/sop.py', 'Segmentation.__init__', 'encode_frame'),
]


def _glue_tree(rel):
    with open(os.path.join(_repo_src(), rel)) as f:
        return ast.parse(f.read())


def _glue_property(rel, cls, name):
    """the expression a read-only property returns (`return <expr>` as its last statement; statements before it may only be
    bare expressions such as `self.metadata  # ensure metadata has been read`)"""
    fn = find_func(_glue_tree(rel), f'{cls}.{name}')
    if [ast.unparse(d) for d in fn.decorator_list] != ['property']:
        raise Unsupported(f'{cls}.{name} is no longer a plain property')
    body = strip_doc(fn.body)
    if not body or not isinstance(body[-1], ast.Return) or any(not isinstance(s, ast.Expr) for s in body[:-1]):
        raise Unsupported(f'{cls}.{name}: body is not `return <expr>`')
    return body[-1].value, fn


def _glue_norm(e, site_cls, rel, init_assign, spans):
    """normal form of an argument expression: the data set attribute it reads (`Rows`, `file_meta.TransferSyntaxUID`),
    `K|D` = attribute K when present, else D (`X.get('K', X.D)`; `K|None`: `X.get('K')`, `getattr(X, 'K', None)`), or
    `local:<text>` for the frame bytes / array / index handed through"""
    txt = ast.unparse(e)
    if txt in GLUE_LOCALS:
        return 'local:' + txt
    # wrappers that do not change the value
    if isinstance(e, ast.Call) and ast.unparse(e.func) in ('UID', 'hd_UID') and len(e.args) == 1 and not e.keywords:
        return _glue_norm(e.args[0], site_cls, rel, init_assign, spans)
    if isinstance(e, ast.Call) and isinstance(e.func, ast.Attribute) and e.func.attr == 'get' and not e.keywords \
            and ast.unparse(e.func.value) in GLUE_OWNERS and e.args and isinstance(e.args[0], ast.Constant):
        if len(e.args) == 1:
            return f'{e.args[0].value}|None'
        if len(e.args) == 2:
            d = _glue_norm(e.args[1], site_cls, rel, init_assign, spans)
            return f'{e.args[0].value}|{d}'
    if isinstance(e, ast.Call) and ast.unparse(e.func) == 'getattr' and len(e.args) == 3 and not e.keywords \
            and ast.unparse(e.args[0]) in GLUE_OWNERS and isinstance(e.args[1], ast.Constant) and ast.unparse(e.args[2]) == 'None':
        return f'{e.args[1].value}|None'
    if isinstance(e, ast.Attribute):
        owner = ast.unparse(e.value)
        if owner in GLUE_OWNERS:
            if e.attr[:1].isupper():
                return e.attr
            # a lower-case attribute of `self`: an instance attribute set in __init__ (the pixel transform) or a property
            if owner == 'self' and e.attr in init_assign:
                return _glue_norm(init_assign[e.attr], site_cls, rel, {}, spans)
            if owner == 'self' and e.attr == 'transfer_syntax_uid':
                if site_cls == 'ImageFileReader':
                    val, fn = _glue_property('io.py', 'ImageFileReader', 'transfer_syntax_uid')
                else:
                    val, fn = _glue_property('base.py', 'SOPClass', 'transfer_syntax_uid')
                spans.append(fn)
                return _glue_norm(val, site_cls, rel, {}, spans)
        if isinstance(e.value, ast.Attribute) and e.value.attr in ('file_meta', '_file_meta') \
                and ast.unparse(e.value.value) in GLUE_OWNERS:
            return 'file_meta.' + e.attr
    raise Unsupported(f'argument expression outside the glue fragment: {txt[:80]}')



def _glue_kwargs_dict(fn, name, qual):
    """the keyword dictionary `name` of function `fn`: assigned exactly once, as `dict(k=v, ..)` or a `{..}` literal with string
    keys, and never changed afterwards (no item assignment, no `del`, no mutating method, not handed to anything but `**name`)"""
    asg = [s for s in ast.walk(fn) if isinstance(s, (ast.Assign, ast.AnnAssign))
           and any(ast.unparse(t) == name for t in (s.targets if isinstance(s, ast.Assign) else [s.target]))]
    if len(asg) != 1:
        raise Unsupported(f'{qual}: {name} is assigned {len(asg)} times')
    v = asg[0].value
    if isinstance(v, ast.Call) and ast.unparse(v.func) == 'dict' and not v.args and all(k.arg is not None for k in v.keywords):
        items = {k.arg: k.value for k in v.keywords}
        if len(items) != len(v.keywords):
            raise Unsupported(f'{qual}: {name} names a key twice')
    elif isinstance(v, ast.Dict) and all(isinstance(k, ast.Constant) and isinstance(k.value, str) for k in v.keys):
        items = {k.value: val for k, val in zip(v.keys, v.values)}
        if len(items) != len(v.keys):
            raise Unsupported(f'{qual}: {name} names a key twice')
    else:
        raise Unsupported(f'{qual}: {name} is not a dict(k=v, ..) / {{..}} literal: {ast.unparse(v)[:60]}')
    for n in ast.walk(fn):
        if isinstance(n, ast.Name) and n.id == name and not isinstance(n.ctx, ast.Store):
            pass
        if isinstance(n, (ast.Subscript, ast.Attribute)) and ast.unparse(n.value) == name:
            raise Unsupported(f'{qual}: {name} is indexed / a method of it is used ({ast.unparse(n)[:40]}): it may be changed after it was built')
        if isinstance(n, ast.Delete) and any(name in ast.unparse(t) for t in n.targets):
            raise Unsupported(f'{qual}: {name} is deleted from')
    uses = [n for n in ast.walk(fn) if isinstance(n, ast.Name) and n.id == name and isinstance(n.ctx, ast.Load)]
    stars = [k for c in ast.walk(fn) if isinstance(c, ast.Call) for k in c.keywords if k.arg is None and ast.unparse(k.value) == name]
    if len(uses) != len(stars):
        raise Unsupported(f'{qual}: {name} is used other than as `**{name}`')
    return items, asg[0]


def _glue_kwargs_site(t, rel, qual, callee, sigs, rows, spans):
    """every use of `callee` in `qual`: called directly or submitted to an executor (`X.submit(callee, ..)`), positional and keyword
    arguments plus ONE keyword dictionary built in the same function"""
    fn = find_func(t, qual)
    if fn.decorator_list:
        raise Unsupported(f'{qual} is wrapped by a decorator')
    uses = []
    for n in ast.walk(fn):
        if isinstance(n, ast.Call) and ast.unparse(n.func) == callee:
            uses.append(('call', n, list(n.args)))
        elif isinstance(n, ast.Call) and isinstance(n.func, ast.Attribute) and n.func.attr == 'submit' and n.args \
                and ast.unparse(n.args[0]) == callee:
            uses.append(('submit', n, list(n.args[1:])))
    mentions = [n for n in ast.walk(fn) if isinstance(n, ast.Name) and n.id in ('encode_frame', 'decode_frame')]
    if not uses or len(mentions) != len(uses):
        raise Unsupported(f'{qual}: {len(uses)} call(s) / submission(s) of {callee}, {len(mentions)} mention(s)')
    uses.sort(key=lambda u: u[1].lineno)
    for k, (how, c, pos) in enumerate(uses):
        if any(isinstance(x, ast.Starred) for x in pos):
            raise Unsupported(f'{qual}: *args in the {how} of {callee}')
        got = dict(zip(sigs[callee], pos))
        stars = [kw for kw in c.keywords if kw.arg is None]
        if len(stars) != 1 or not isinstance(stars[0].value, ast.Name):
            raise Unsupported(f'{qual}: expected exactly one `**name` in the {how} of {callee}')
        items, asg = _glue_kwargs_dict(fn, stars[0].value.id, qual)
        spans.append(asg)
        for kw in c.keywords:
            if kw.arg is None:
                continue
            if kw.arg in got or kw.arg in items or kw.arg not in sigs[callee]:
                raise Unsupported(f'{qual}: keyword {kw.arg} of {callee} given twice / unknown')
            got[kw.arg] = kw.value
        for key, val in items.items():
            if key in got or key not in sigs[callee]:
                raise Unsupported(f'{qual}: key {key} of the keyword dictionary given twice / no parameter of {callee}')
            got[key] = val
        site = f'{rel}:{qual}#{how}{k}'
        for prm in sigs[callee]:
            if prm in got:
                rows.append((site, callee, prm, _glue_norm(got[prm], '', rel, {}, spans), ast.unparse(got[prm])))
            else:
                rows.append((site, callee, prm, '<default>', ''))
        spans.append(c)


def build_T13g(tree):
    """Every call of `decode_frame` / `encode_frame` in the image classes (`image.py` pixel transform, `get_stored_frame`,
    `get_stored_frames`; `io.ImageFileReader.read_frame`; `SCImage.__init__`; `ParametricMap._encode_frame`; the legacy
    converter): (site, callee, parameter, normal form of the argument, argument as written).  Positional arguments are named
    through the callee's current signature; a parameter that is not passed is listed as `<default>`.  `Proofs/CodecGlue.lean`
    proves that each reader hands `decode_frame` the data set's own attribute for every parameter (`call_sites_tie`).
    `**kwargs` / `*args` at a call site, a second call in a site, a site that no longer calls, an argument outside the normal
    forms: TRANSLATION-BROKEN.  `Segmentation.__init__` (seg/sop.py) passes a keyword dictionary built in the same function
    (`encode_frame(x, **kw)` and `pool.submit(encode_frame, array=x, **kw)`): `GLUE_KWARGS_SITES` -- the dictionary must be assigned
    once as `dict(k=v, ..)` / a literal and only ever be used as `**kw`; one site per use (`#call0`, `#submit1`)."""
    sigs = {}
    for name in ('encode_frame', 'decode_frame'):
        a = find_func(tree, name).args
        if a.vararg or a.kwarg or a.kwonlyargs or a.posonlyargs:
            raise Unsupported(f'{name}: signature with *args / **kwargs / keyword-only parameters')
        sigs[name] = [p.arg for p in a.args]
    rows, spans = [], []
    for rel, qual, callee in GLUE_SITES:
        t = tree if rel == 'frame.py' else _glue_tree(rel)
        fn = find_func(t, qual)
        if fn.decorator_list:
            raise Unsupported(f'{qual} is wrapped by a decorator')
        calls = [n for n in ast.walk(fn) if isinstance(n, ast.Call) and ast.unparse(n.func) == callee]
        other = [n for n in ast.walk(fn) if isinstance(n, ast.Name) and n.id in ('encode_frame', 'decode_frame')]
        if len(calls) != 1 or len(other) != 1:
            raise Unsupported(f'{qual}: expected exactly one use of {callee}, found {len(calls)} call(s) / {len(other)} mention(s)')
        c = calls[0]
        if any(kw.arg is None for kw in c.keywords) or any(isinstance(x, ast.Starred) for x in c.args):
            raise Unsupported(f'{qual}: *args / **kwargs in the call of {callee}')
        cls = qual.split('.')[0] if '.' in qual else ''
        init_assign = {}
        if cls == '_CombinedPixelTransform':
            init = find_func(t, '_CombinedPixelTransform.__init__')
            for s in ast.walk(init):
                if isinstance(s, ast.Assign) and len(s.targets) == 1 and isinstance(s.targets[0], ast.Attribute) \
                        and ast.unparse(s.targets[0].value) == 'self':
                    k = s.targets[0].attr
                    if k in sigs[callee]:
                        if k in init_assign:
                            raise Unsupported(f'_CombinedPixelTransform.__init__ assigns self.{k} more than once')
                        init_assign[k] = s.value
                        spans.append(s)
            # ... and nothing else of the class may rebind them
            for m in find_func(t, '_CombinedPixelTransform').body:
                if isinstance(m, ast.FunctionDef) and m.name != '__init__':
                    for s in ast.walk(m):
                        if isinstance(s, ast.Attribute) and isinstance(s.ctx, ast.Store) and ast.unparse(s.value) == 'self' \
                                and s.attr in sigs[callee]:
                            raise Unsupported(f'_CombinedPixelTransform.{m.name} rebinds self.{s.attr}')
        got = {}
        for prm, arg in zip(sigs[callee], c.args):
            got[prm] = arg
        for kw in c.keywords:
            if kw.arg in got or kw.arg not in sigs[callee]:
                raise Unsupported(f'{qual}: keyword {kw.arg} of {callee} given twice / unknown')
            got[kw.arg] = kw.value
        for prm in sigs[callee]:
            if prm in got:
                rows.append((f'{rel}:{qual}', callee, prm, _glue_norm(got[prm], cls, rel, init_assign, spans), ast.unparse(got[prm])))
            else:
                rows.append((f'{rel}:{qual}', callee, prm, '<default>', ''))
        spans.append(c)
    for rel, qual, callee in GLUE_KWARGS_SITES:
        _glue_kwargs_site(_glue_tree(rel), rel, qual, callee, sigs, rows, spans)
    q = lambda s: '"' + s.replace('\\', '\\\\').replace('"', '\\"') + '"'   # noqa: E731
    text = lean_table('frameCodecCallSites', 'List (String × String × String × String × String)',
                      ['(' + ', '.join(q(x) for x in r) + ')' for r in rows],
                      doc='(site, callee, parameter, normal form of the argument, argument as written) for every call of '
                          '`decode_frame` / `encode_frame` in the image classes; normal form: data set attribute, `K|D` = K when '
                          'present else D, `local:..` = value handed through, `<default>` = not passed')
    return text, span_sha(spans)


TARGETS['T13g'] = {'file': 'frame.py', 'build': build_T13g}
