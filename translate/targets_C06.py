"""Translation targets of C06 (tie T): decision and arithmetic cores of the pixel-transform pipeline.

T6a  `_CombinedPixelTransform.__init__`: the tri-state flag logic (use_* / require_* and its refusals)
T6b  ... folding of a VOI window through the modality rescale (effective centre / width)
T6c  ... folding of the presentation inversion into the rescale (effective slope / intercept)
T6d  `pixels.apply_voi_window`: the LINEAR / LINEAR_EXACT function on one value; the SIGMOID exponent
T6e  `pixels.apply_lut`: position in the table for one value (clip / refuse)
T6f  `_CombinedPixelTransform.__init__`: folding of a VOI LUT through an integer rescale (guards, stride, first value)
"""
from __future__ import annotations

import ast
import copy

from py2lean import Unsupported, find_func, span_sha, strip_doc, translate_block


class _Rewrite(ast.NodeTransformer):
    """`Enum.MEMBER` -> 'MEMBER' string constants; `self._x = v` / `self._x` -> plain names"""

    def __init__(self, enums=(), self_names=()):
        self.enums = set(enums)
        self.self_names = set(self_names)

    def visit_Attribute(self, node):
        if isinstance(node.value, ast.Name) and node.value.id in self.enums:
            return ast.copy_location(ast.Constant(value=node.attr), node)
        if isinstance(node.value, ast.Name) and node.value.id == 'self' and node.attr in self.self_names:
            return ast.copy_location(ast.Name(id=node.attr.lstrip('_'), ctx=node.ctx), node)
        return self.generic_visit(node)


def _clone(stmts, **kw):
    out = [_Rewrite(**kw).visit(copy.deepcopy(s)) for s in stmts]
    for s in out:
        ast.fix_missing_locations(s)
    return out


def _ret(src):
    return ast.parse('return ' + src).body[0]


def _init(tree):
    return find_func(tree, '_CombinedPixelTransform.__init__')


FLAG_PARAMS = ['apply_real_world_transform', 'apply_modality_transform', 'apply_voi_transform',
               'apply_palette_color_lut', 'apply_icc_profile']
FLAG_OUT = ['use_rwvm', 'require_rwvm', 'use_modality', 'require_modality', 'use_voi', 'require_voi',
            'use_palette_color', 'require_palette_color', 'use_icc', 'require_icc']


def build_T6a(tree):
    fn = _init(tree)
    body = strip_doc(fn.body)
    have = {a.arg for a in fn.args.args + fn.args.kwonlyargs}
    for p in FLAG_PARAMS:
        if p not in have:
            raise Unsupported(f'parameter {p} no longer in _CombinedPixelTransform.__init__')
    start = end = None
    for i, st in enumerate(body):
        if isinstance(st, ast.If):
            t = ast.unparse(st.test)
            if start is None and t == 'apply_real_world_transform is None':
                start = i
            if 'require_icc' in t and 'MONOCHROME' in t:
                end = i
    if start is None or end is None or end < start:
        raise Unsupported('flag block of _CombinedPixelTransform.__init__ not found')
    block = body[start:end + 1]
    for st in block:
        if not isinstance(st, ast.If):
            raise Unsupported('flag block contains a non-if statement: ' + ast.unparse(st)[:60])
    stmts = _clone(block, enums=['_ImageColorType']) + [_ret('(' + ', '.join(FLAG_OUT) + ')')]
    text = translate_block(stmts, 'cptFlags', [(p, 'optint') for p in FLAG_PARAMS],
                           {'self._color_type': ('str', 'colorType')},
                           doc='`_CombinedPixelTransform.__init__`: tri-state flags (None / some 0 = False / some 1 = True) and '
                               'colour type -> (use_rwvm, require_rwvm, use_modality, require_modality, use_voi, require_voi, '
                               'use_palette_color, require_palette_color, use_icc, require_icc) or the refusal')
    return text, span_sha(block)


TARGETS = {
    'T6a': {'file': 'image.py', 'build': build_T6a},
}
