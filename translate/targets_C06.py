"""Translation targets of C06 (tie T): decision and arithmetic cores of the pixel-transform pipeline.

T6a  `_CombinedPixelTransform.__init__`: the tri-state flag logic (use_* / require_* and its refusals)
T6b  ... folding of a VOI window through the modality rescale (effective centre / width)
T6c  ... folding of the presentation inversion into the rescale (effective slope / intercept)
T6d  `pixels.apply_voi_window`: the LINEAR / LINEAR_EXACT function on one value; the SIGMOID exponent
T6e  `pixels.apply_lut`: position in the table for one value (clip / refuse)
T6f  `_CombinedPixelTransform.__init__`: folding of a VOI LUT through an integer rescale (guards, stride, first value)
"""
from __future__ import annotations

import ast
import copy

from py2lean import Unsupported, find_func, span_sha, strip_doc, translate_block


class _Rewrite(ast.NodeTransformer):
    """`Enum.MEMBER` -> 'MEMBER' string constants; `self._x = v` / `self._x` -> plain names"""

    def __init__(self, enums=(), self_names=()):
        self.enums = set(enums)
        self.self_names = set(self_names)

    def visit_Attribute(self, node):
        if isinstance(node.value, ast.Name) and node.value.id in self.enums:
            return ast.copy_location(ast.Constant(value=node.attr), node)
        if isinstance(node.value, ast.Name) and node.value.id == 'self' and node.attr in self.self_names:
            return ast.copy_location(ast.Name(id=node.attr.lstrip('_'), ctx=node.ctx), node)
        return self.generic_visit(node)


def _clone(stmts, **kw):
    out = [_Rewrite(**kw).visit(copy.deepcopy(s)) for s in stmts]
    for s in out:
        ast.fix_missing_locations(s)
    return out


def _ret(src):
    return ast.parse('return ' + src).body[0]


def _init(tree):
    return find_func(tree, '_CombinedPixelTransform.__init__')


FLAG_PARAMS = ['apply_real_world_transform', 'apply_modality_transform', 'apply_voi_transform',
               'apply_palette_color_lut', 'apply_icc_profile']
FLAG_OUT = ['use_rwvm', 'require_rwvm', 'use_modality', 'require_modality', 'use_voi', 'require_voi',
            'use_palette_color', 'require_palette_color', 'use_icc', 'require_icc']


def build_T6a(tree):
    fn = _init(tree)
    body = strip_doc(fn.body)
    have = {a.arg for a in fn.args.args + fn.args.kwonlyargs}
    for p in FLAG_PARAMS:
        if p not in have:
            raise Unsupported(f'parameter {p} no longer in _CombinedPixelTransform.__init__')
    start = end = None
    for i, st in enumerate(body):
        if isinstance(st, ast.If):
            t = ast.unparse(st.test)
            if start is None and t == 'apply_real_world_transform is None':
                start = i
            if 'require_icc' in t and 'MONOCHROME' in t:
                end = i
    if start is None or end is None or end < start:
        raise Unsupported('flag block of _CombinedPixelTransform.__init__ not found')
    block = body[start:end + 1]
    for st in block:
        if not isinstance(st, ast.If):
            raise Unsupported('flag block contains a non-if statement: ' + ast.unparse(st)[:60])
    stmts = _clone(block, enums=['_ImageColorType']) + [_ret('(' + ', '.join(FLAG_OUT) + ')')]
    text = translate_block(stmts, 'cptFlags', [(p, 'optint') for p in FLAG_PARAMS],
                           {'self._color_type': ('str', 'colorType')},
                           doc='`_CombinedPixelTransform.__init__`: tri-state flags (None / some 0 = False / some 1 = True) and '
                               'colour type -> (use_rwvm, require_rwvm, use_modality, require_modality, use_voi, require_voi, '
                               'use_palette_color, require_palette_color, use_icc, require_icc) or the refusal')
    return text, span_sha(block)


def _walk_ifs(fn, pred):
    return [n for n in ast.walk(fn) if isinstance(n, ast.If) and pred(n)]


def _assigns_self(st, attr):
    return isinstance(st, ast.Assign) and len(st.targets) == 1 and ast.unparse(st.targets[0]) == 'self.' + attr


def build_T6b(tree):
    """effective window centre / width when a window follows a rescale"""
    fn = _init(tree)
    hits = _walk_ifs(fn, lambda n: ast.unparse(n.test) == 'voi_center_width is not None'
                     and any('_effective_window_center_width' in ast.unparse(s) for s in n.body))
    if len(hits) != 1:
        raise Unsupported('window-folding branch not found')
    body = hits[0].body
    if ast.unparse(body[0]) != 'center, width = voi_center_width':
        raise Unsupported('window-folding branch no longer starts with center, width = voi_center_width')
    rest = body[1:]
    keep = []
    passthrough = {'_effective_voi_function': 'voi_function', '_invert': 'invert'}
    seen = set()
    for st in rest:
        done = False
        for attr, val in passthrough.items():
            if _assigns_self(st, attr):
                if ast.unparse(st.value) != val:
                    raise Unsupported(f'self.{attr} is no longer set to {val}')
                seen.add(attr)
                done = True
        if not done:
            keep.append(st)
    if seen != set(passthrough):
        raise Unsupported('window-folding branch no longer passes voi_function / invert through')
    stmts = _clone(keep, self_names=['_effective_window_center_width']) + [_ret('effective_window_center_width')]
    text = translate_block(stmts, 'foldWindow', [('center', 'rat'), ('width', 'rat'), ('intercept', 'rat'), ('slope', 'rat'),
                                                 ('voi_function', 'str')], {},
                           doc='`_CombinedPixelTransform.__init__`: effective (centre, width) applied to *stored* values when a '
                               'window follows the rescale (slope, intercept); function and inversion are passed through unchanged')
    return text, span_sha(body)


def build_T6c(tree):
    """effective slope / intercept when only the presentation inversion follows the rescale"""
    fn = _init(tree)
    hits = _walk_ifs(fn, lambda n: ast.unparse(n.test) == 'invert' and any('eff_slope' in ast.unparse(s) for s in n.body))
    if len(hits) != 1:
        raise Unsupported('inversion-folding branch not found')
    node = hits[0]
    if len(node.orelse) != 1 or ast.unparse(node.orelse[0]) != 'self._effective_slope_intercept = modality_slope_intercept':
        raise Unsupported('non-inverted branch no longer keeps modality_slope_intercept')

    class R(ast.NodeTransformer):
        def visit_Compare(self, n):
            if ast.unparse(n) == 'input_range is None':
                return ast.copy_location(ast.Name(id='float_input', ctx=ast.Load()), n)
            return n
    body = []
    for st in node.body:
        st = R().visit(copy.deepcopy(st))
        body.append(st)
    # `imin, imax = input_range` becomes two parameters

    class D(ast.NodeTransformer):
        def visit_Assign(self, n):
            if ast.unparse(n) == 'imin, imax = input_range':
                return None
            return n
    body = [D().visit(st) for st in body]
    stmts = _clone(body, self_names=['_effective_slope_intercept']) + [_ret('effective_slope_intercept')]
    text = translate_block(stmts, 'foldInvert', [('slope', 'rat'), ('intercept', 'rat'), ('imin', 'int'), ('imax', 'int'),
                                                 ('float_input', 'bool')], {},
                           doc='`_CombinedPixelTransform.__init__`: effective (slope, intercept) of rescale followed by inversion '
                               'within the rescaled stored range [imin, imax] (`float_input`: no integer range known)')
    return text, span_sha(node.body)


def build_T6d(tree):
    """`apply_voi_window` on one value: LINEAR / LINEAR_EXACT result, SIGMOID exponent"""
    fn = find_func(tree, 'apply_voi_window')
    lin = _walk_ifs(fn, lambda n: 'VOILUTFunctionValues.LINEAR_EXACT' in ast.unparse(n.test) and ' in ' in ast.unparse(n.test))
    if len(lin) != 1:
        raise Unsupported('LINEAR/LINEAR_EXACT branch of apply_voi_window not found')
    node = lin[0]
    # the width-1 LINEAR step (PS3.3 C.11.2.1.2.1, fix of C06-linear-width-one) is tested BEFORE the general branch: the
    # general branch must be the else-arm of that test, and both arms are translated as one function
    step = _walk_ifs(fn, lambda n: 'window_width == 1' in ast.unparse(n.test) and node in n.orelse)
    if len(step) != 1 or len(step[0].orelse) != 1:
        raise Unsupported('apply_voi_window: the width-1 step of the LINEAR function is no longer tested in front of the '
                          'general LINEAR / LINEAR_EXACT branch')

    class W(ast.NodeTransformer):
        """np.where(c, a, b) on one value is the conditional expression"""
        def visit_Call(self, n):
            n = self.generic_visit(n)
            if ast.unparse(n.func) in ('np.where', 'numpy.where') and len(n.args) == 3 and not n.keywords:
                return ast.copy_location(ast.IfExp(test=n.args[0], body=n.args[1], orelse=n.args[2]), n)
            return n
    chain = ast.If(test=copy.deepcopy(step[0].test), body=[W().visit(copy.deepcopy(s)) for s in step[0].body],
                   orelse=copy.deepcopy(node.body))
    ast.fix_missing_locations(chain)
    # output_min, output_max = output_range precedes; they are parameters here
    stmts = _clone([chain], enums=['VOILUTFunctionValues']) + [_ret('array')]
    t1 = translate_block(stmts, 'voiWindowLinear',
                         [('array', 'rat'), ('window_center', 'rat'), ('window_width', 'rat'), ('voi_lut_function', 'str'),
                          ('output_min', 'rat'), ('output_max', 'rat'), ('invert', 'bool')], {},
                         doc='`apply_voi_window`, LINEAR / LINEAR_EXACT branch, for one pixel value `array`')
    sig = node.orelse
    if len(sig) != 1 or not isinstance(sig[0], ast.If) or 'SIGMOID' not in ast.unparse(sig[0].test):
        raise Unsupported('SIGMOID branch of apply_voi_window not found')
    sbody = sig[0].body
    out = []
    arg = None
    tail = []
    for st in sbody:
        if isinstance(st, ast.Assign) and ast.unparse(st.targets[0]) == 'exp_term':
            v = st.value
            if not (isinstance(v, ast.Call) and ast.unparse(v.func) == 'np.exp' and len(v.args) == 1):
                raise Unsupported('exp_term is no longer np.exp(<argument>)')
            arg = v.args[0]
        elif arg is None:
            out.append(st)
        else:
            tail.append(st)
    if arg is None:
        raise Unsupported('exp_term not found in SIGMOID branch')
    want_tail = 'array = (output_max - output_min) / (1.0 + exp_term) + output_min'
    if len(tail) != 1 or ast.unparse(tail[0]) != want_tail:
        raise Unsupported('SIGMOID result is no longer (output_max - output_min) / (1.0 + exp_term) + output_min')
    stmts2 = _clone(out) + [ast.fix_missing_locations(ast.Return(value=copy.deepcopy(arg)))]
    t2 = translate_block(stmts2, 'voiSigmoidArg', [('array', 'rat'), ('window_center', 'rat'), ('window_width', 'rat'),
                                                   ('invert', 'bool')], {},
                         doc='`apply_voi_window`, SIGMOID branch: the argument of `exp`; the result is '
                             '(output_max - output_min) / (1 + exp arg) + output_min (shape checked textually by the translator)')
    return t1 + "\n\n" + t2, span_sha(step[0].body + node.body + sbody)


def build_T6e(tree):
    """`apply_lut`: position in the table for one value"""
    fn = find_func(tree, 'apply_lut')
    body = strip_doc(fn.body)
    start = None
    for i, st in enumerate(body):
        if isinstance(st, ast.Assign) and ast.unparse(st.targets[0]) == 'last_mapped_value':
            start = i
    if start is None:
        raise Unsupported('last_mapped_value not found in apply_lut')
    block = body[start:]
    last = block[-1]
    if not (isinstance(last, ast.Return) and ast.unparse(last.value) == 'lut_data[array, ...]'):
        raise Unsupported('apply_lut no longer returns lut_data[array, ...]')
    # widening of the integer type is a representation matter: Int is unbounded.  Its statement is dropped after
    # checking its shape (it may only re-type `array`).
    keep = []
    for st in block[:-1]:
        src = ast.unparse(st)
        if isinstance(st, ast.Assign) and ast.unparse(st.targets[0]) == 'array_info':
            continue
        if isinstance(st, ast.If) and 'array_info' in ast.unparse(st.test):
            if [ast.unparse(x) for x in st.body] != ['array = array.astype(np.int64)'] or st.orelse:
                raise Unsupported('type-widening branch of apply_lut changed')
            continue
        keep.append(st)
    stmts = [ast.parse('array = array').body[0]] + _clone(keep) + [_ret('array')]
    attrs = {'array': ('int', 'x'), 'array.min()': ('int', 'x'), 'array.max()': ('int', 'x'), 'len(lut_data)': ('int', 'n')}
    text = translate_block(stmts, 'applyLutIndex', [('first_mapped_value', 'int'), ('clip', 'bool')], attrs,
                           doc='`apply_lut` for one pixel value x and a table of n entries: the position `lut_data[...]` is read at '
                               '(clipped to the table, or refused when clip is off)')
    return text, span_sha(block)


def build_T6f(tree):
    """folding of a VOI LUT through an integer rescale: guards, direction, stride, first stored value"""
    fn = _init(tree)
    hits = _walk_ifs(fn, lambda n: ast.unparse(n.test) == 'voi_lut is not None'
                     and any('get_scaled_lut_data' in ast.unparse(s) for s in n.body)
                     and any('adjusted_first_value' in ast.unparse(s) for s in n.body))
    if len(hits) != 1:
        raise Unsupported('rescale + VOI LUT branch not found')
    body = hits[0].body
    keep = []
    shape = []
    for st in body:
        src = ast.unparse(st)
        if isinstance(st, ast.Assign) and ast.unparse(st.targets[0]) == 'voi_scaled_lut_data' and 'get_scaled_lut_data' in src:
            shape.append('scaled')
            continue
        if isinstance(st, ast.If) and ast.unparse(st.test) == 'slope < 0':
            srcs = [ast.unparse(x) for x in st.body]
            if srcs != ['voi_scaled_lut_data = voi_scaled_lut_data[::-1]', 'voi_first_value += len(voi_scaled_lut_data) - 1'] or st.orelse:
                raise Unsupported('negative-slope branch of the VOI LUT folding changed')
            st = ast.parse('if slope < 0:\n    reversed_table = True\n    voi_first_value += n_entries - 1').body[0]
            keep.append(ast.parse('reversed_table = False').body[0])
            keep.append(st)
            shape.append('reverse')
            continue
        if isinstance(st, ast.If) and ast.unparse(st.test) == 'step != 1':
            want = ("self._effective_lut_data = voi_scaled_lut_data[::step]",
                    "if (len(voi_scaled_lut_data) - 1) % step != 0:\n    self._effective_lut_data = "
                    "np.concatenate([self._effective_lut_data, voi_scaled_lut_data[-1:]])")
            got = tuple(ast.unparse(x) for x in st.body)
            if got != want or [ast.unparse(x) for x in st.orelse] != ['self._effective_lut_data = voi_scaled_lut_data']:
                raise Unsupported('stride branch of the VOI LUT folding changed')
            keep.append(ast.parse('append_last = step != 1 and (n_entries - 1) % step != 0').body[0])
            shape.append('stride')
            continue
        if _assigns_self(st, '_effective_lut_first_mapped_value'):
            keep.append(ast.parse('first_out = ' + ast.unparse(st.value)).body[0])
            continue
        keep.append(st)
    if shape != ['scaled', 'reverse', 'stride']:
        raise Unsupported(f'VOI LUT folding no longer has the shape scaled/reverse/stride: {shape}')
    stmts = _clone(keep) + [_ret('(reversed_table, step, append_last, first_out)')]
    text = translate_block(stmts, 'foldVoiLut', [('slope', 'rat'), ('intercept', 'rat'), ('n_entries', 'int')],
                           {'voi_lut.first_mapped_value': ('int', 'voiFirst')},
                           doc='`_CombinedPixelTransform.__init__`, VOI LUT after a rescale: the scaled table T (n_entries long) is '
                               'reversed if `reversed_table`, then T[::step], plus T[-1:] if `append_last`; it is applied to stored '
                               'values with first mapped value `first_out` (list surgery checked textually by the translator)')
    return text, span_sha(body)


class _InTuple(ast.NodeTransformer):
    """`x in (a, b)` -> `x == a or x == b`; `x not in (...)` -> `not (...)`; `np.float64(v)` -> `v`"""

    def visit_Compare(self, node):
        self.generic_visit(node)
        if len(node.ops) == 1 and isinstance(node.ops[0], (ast.In, ast.NotIn)) and isinstance(node.comparators[0], ast.Tuple):
            alts = [ast.Compare(left=copy.deepcopy(node.left), ops=[ast.Eq()], comparators=[e]) for e in node.comparators[0].elts]
            expr = ast.BoolOp(op=ast.Or(), values=alts)
            if isinstance(node.ops[0], ast.NotIn):
                expr = ast.UnaryOp(op=ast.Not(), operand=expr)
            return ast.copy_location(expr, node)
        return node

    def visit_Call(self, node):
        self.generic_visit(node)
        if ast.unparse(node.func) == 'np.float64' and len(node.args) == 1:
            return node.args[0]
        return node


def build_T6g(tree):
    """`_check_rescale_dtype`: whether an output type may hold the rescaled values"""
    fn = find_func(tree, '_check_rescale_dtype')
    body = strip_doc(fn.body)
    out = []
    for st in body:
        st = copy.deepcopy(st)
        for node in ast.walk(st):
            # `if input_range is not None: input_min, input_max = input_range` -> parameters
            if isinstance(node, ast.If) and ast.unparse(node.test) == 'input_range is not None':
                if [ast.unparse(x) for x in node.body] != ['input_min, input_max = input_range']:
                    raise Unsupported('input_range branch of _check_rescale_dtype changed')
                node.test = ast.Name(id='has_input_range', ctx=ast.Load())
                node.body = [ast.parse('input_min, input_max = (range_min, range_max)').body[0]]
        st = _InTuple().visit(st)
        ast.fix_missing_locations(st)
        out.append(st)
    stmts = out + [_ret('True')]
    attrs = {'output_dtype.kind': ('str', 'outKind'), 'input_dtype.kind': ('str', 'inKind'),
             'np.iinfo(output_dtype).max': ('int', 'outTypeMax'), 'np.iinfo(output_dtype).min': ('int', 'outTypeMin'),
             'np.iinfo(input_dtype).max': ('int', 'inTypeMax'), 'np.iinfo(input_dtype).min': ('int', 'inTypeMin')}
    text = translate_block(stmts, 'checkRescaleDtype',
                           [('slope', 'rat'), ('intercept', 'rat'), ('has_input_range', 'bool'), ('range_min', 'int'), ('range_max', 'int')],
                           attrs, doc='`pixels._check_rescale_dtype`: accepted (`ok true`) or refused; dtype kinds and iinfo limits are parameters')
    return text, span_sha(body)


def _lean_str(x):
    return '"' + x.replace('\\', '\\\\').replace('"', '\\"').replace('\n', ' ') + '"'


def build_T6h(tree):
    """argument forwarding of every construction site of `_CombinedPixelTransform` and of every call of
    `_get_pixels_by_frame` in image.py: (function, kind, ordinal, first argument, in a loop, guards, keywords)"""
    sites = []

    def walk(node, fn_name, in_loop, guards, counter):
        for child in ast.iter_child_nodes(node):
            if isinstance(child, (ast.FunctionDef, ast.AsyncFunctionDef)):
                walk(child, (fn_name + '.' if fn_name and not fn_name[0].islower() else '') + child.name if fn_name else child.name,
                     False, [], {})
                continue
            if isinstance(child, ast.ClassDef):
                walk(child, child.name, False, [], {})
                continue
            if isinstance(child, (ast.For, ast.While)):
                walk(child, fn_name, True, guards, counter)
                continue
            if isinstance(child, ast.If):
                t = ast.unparse(child.test)
                for sub in child.body:
                    walk_stmt(sub, fn_name, in_loop, guards + [t], counter)
                for sub in child.orelse:
                    walk_stmt(sub, fn_name, in_loop, guards + ['not ' + t], counter)
                # calls in the test itself
                visit_expr(child.test, fn_name, in_loop, guards, counter)
                continue
            walk_stmt(child, fn_name, in_loop, guards, counter)

    def walk_stmt(node, fn_name, in_loop, guards, counter):
        if isinstance(node, (ast.FunctionDef, ast.ClassDef, ast.For, ast.While, ast.If, ast.AsyncFunctionDef)):
            holder = ast.Module(body=[node], type_ignores=[])
            walk(holder, fn_name, in_loop, guards, counter)
            return
        visit_expr(node, fn_name, in_loop, guards, counter)
        # compound statements (with, try) carry bodies
        for field in ('body', 'orelse', 'finalbody', 'handlers'):
            for sub in getattr(node, field, []) or []:
                if isinstance(sub, ast.AST):
                    walk_stmt(sub, fn_name, in_loop, guards, counter)

    def visit_expr(node, fn_name, in_loop, guards, counter):
        stack = [node]
        while stack:
            n = stack.pop()
            if isinstance(n, ast.Call):
                f = ast.unparse(n.func)
                kind = ('transform' if f == '_CombinedPixelTransform' else 'pixels_by_frame' if f.endswith('._get_pixels_by_frame')
                        else 'total_pixel_matrix' if f.endswith('.get_total_pixel_matrix') else None)
                if kind and fn_name:
                    k = counter.get((fn_name, kind), 0)
                    counter[(fn_name, kind)] = k + 1
                    sites.append({'fn': fn_name, 'kind': kind, 'ordinal': k,
                                  'target': ast.unparse(n.args[0]) if n.args else (f.rsplit('.', 1)[0] if kind != 'transform' else ''),
                                  'in_loop': in_loop, 'guards': list(guards),
                                  'kws': [(kw.arg or '**', ast.unparse(kw.value)) for kw in n.keywords],
                                  'line': n.lineno})
            for c in ast.iter_child_nodes(n):
                if not isinstance(c, (ast.stmt,)) or c is node:
                    stack.append(c)

    counters = {}
    for top in tree.body:
        if isinstance(top, ast.ClassDef):
            for item in top.body:
                if isinstance(item, ast.FunctionDef):
                    c = {}
                    walk(item, top.name + '.' + item.name, False, [], c)
        elif isinstance(top, ast.FunctionDef):
            c = {}
            walk(top, top.name, False, [], c)
    sites = [s_ for s_ in sites if not s_['fn'].startswith('_CombinedPixelTransform')]
    if not sites:
        raise Unsupported('no construction site of _CombinedPixelTransform found in image.py')
    sites.sort(key=lambda s_: s_['line'])
    rows = []
    for s_ in sites:
        kws = ', '.join(f'({_lean_str(k)}, {_lean_str(v)})' for k, v in s_['kws'])
        gs = ', '.join(_lean_str(g) for g in s_['guards'])
        rows.append(f'⟨{_lean_str(s_["fn"])}, {_lean_str(s_["kind"])}, {s_["ordinal"]}, {_lean_str(s_["target"])}, '
                    f'{"true" if s_["in_loop"] else "false"}, [{gs}], [{kws}]⟩')
    text = ('/-- a call site: enclosing function, what is called (`transform` = `_CombinedPixelTransform(...)`, `pixels_by_frame` = '
            '`self._get_pixels_by_frame(...)`, `total_pixel_matrix` = `self.get_total_pixel_matrix(...)`), ordinal inside the function, first argument / receiver, whether inside a loop, the '
            'enclosing `if` tests (`not ` = else branch), keyword arguments as (name, value expression) -/\n'
            'structure CallSite where\n  fn : String\n  kind : String\n  ordinal : Nat\n  target : String\n  inLoop : Bool\n'
            '  guards : List String\n  kws : List (String × String)\n  deriving DecidableEq, Repr\n\n'
            '/-- every construction site of the pixel transform in image.py, in source order -/\n'
            'def cptCallSites : List CallSite :=\n  [' + ',\n   '.join(rows) + ']')
    import hashlib
    sha = hashlib.sha256(repr([(s_['fn'], s_['kind'], s_['ordinal'], s_['target'], s_['in_loop'], s_['guards'], s_['kws']) for s_ in sites]).encode()).hexdigest()
    return text, sha


def build_T6i(tree):
    """whether the presentation stage inverts: PresentationLUTShape, else MONOCHROME1"""
    fn = _init(tree)
    hits = _walk_ifs(fn, lambda n: ast.unparse(n.test) == 'apply_presentation_lut'
                     and any('PresentationLUTShape' in ast.unparse(x) for x in n.body))
    if len(hits) != 1:
        raise Unsupported('presentation-shape block not found')
    node = hits[0]

    class R(ast.NodeTransformer):
        def visit_Compare(self, n):
            if ast.unparse(n) == "'PresentationLUTShape' in image":
                return ast.copy_location(ast.Name(id='has_shape', ctx=ast.Load()), n)
            return self.generic_visit(n)
    body = [R().visit(copy.deepcopy(st)) for st in node.body]
    stmts = [ast.parse('invert = False').body[0], ast.If(test=ast.Name(id='apply_presentation_lut', ctx=ast.Load()), body=body, orelse=[]),
             _ret('invert')]
    for st in stmts:
        ast.fix_missing_locations(st)
    # the variable must start as False before the block
    init = [n for n in ast.walk(fn) if isinstance(n, ast.Assign) and ast.unparse(n) == 'invert = False']
    if not init:
        raise Unsupported('invert is no longer initialised to False')
    text = translate_block(stmts, 'presentationInverts', [('apply_presentation_lut', 'bool'), ('has_shape', 'bool')],
                           {'image.PresentationLUTShape': ('str', 'shape'), 'image.PhotometricInterpretation': ('str', 'photometric')},
                           doc='`_CombinedPixelTransform.__init__`: does the presentation stage invert (`has_shape`: PresentationLUTShape present)')
    return text, span_sha(node.body)


class _Found(ast.NodeTransformer):
    """`x is None` for the variables holding what was found -> `not found_x`; colour-type tests -> `mono`"""
    NAMES = {'modality_lut': 'found_modlut', 'modality_slope_intercept': 'found_rescale', 'voi_center_width': 'found_window',
             'voi_lut': 'found_voilut', 'self._color_manager': 'found_icc'}

    def visit_Compare(self, node):
        src = ast.unparse(node)
        if len(node.ops) == 1 and isinstance(node.ops[0], (ast.Is, ast.IsNot)) and ast.unparse(node.comparators[0]) == 'None':
            nm = self.NAMES.get(ast.unparse(node.left))
            if nm:
                e = ast.Name(id=nm, ctx=ast.Load())
                return ast.copy_location(ast.UnaryOp(op=ast.Not(), operand=e) if isinstance(node.ops[0], ast.Is) else e, node)
        if src == 'self._color_type != _ImageColorType.MONOCHROME':
            return ast.copy_location(ast.UnaryOp(op=ast.Not(), operand=ast.Name(id='mono', ctx=ast.Load())), node)
        if src == 'self._color_type == _ImageColorType.MONOCHROME':
            return ast.copy_location(ast.Name(id='mono', ctx=ast.Load()), node)
        return self.generic_visit(node)


def build_T6j(tree):
    """`__init__` after the flag block: the guards of the three searches, of the colour-manager search and the four refusals
    for a required but missing stage, in source order - the conditions `stageOutcome` (hand-written) is proved to use"""
    fn = _init(tree)
    body = strip_doc(fn.body)
    mono_branch = None
    for st in body:
        if isinstance(st, ast.If) and ast.unparse(st.test) == 'self._color_type == _ImageColorType.PALETTE_COLOR':
            for alt in st.orelse:
                if isinstance(alt, ast.If) and ast.unparse(alt.test) == 'self._color_type == _ImageColorType.MONOCHROME':
                    mono_branch = alt
            pal = [x for x in st.body if isinstance(x, ast.If)]
            if len(pal) != 1 or ast.unparse(pal[0].test) != 'use_palette_color' or st.body[0] is not pal[0]:
                raise Unsupported('palette branch no longer is `if use_palette_color:`')
    if mono_branch is None:
        raise Unsupported('MONOCHROME branch of __init__ not found')
    ifs = [x for x in mono_branch.body if isinstance(x, ast.If)]

    def pick(seq, pred, what):
        hits = [x for x in seq if pred(ast.unparse(x.test))]
        if len(hits) != 1:
            raise Unsupported(f'__init__: expected exactly one {what}, found {len(hits)}')
        return hits[0]

    def raises(node, kind):
        last = node.body[-1] if not isinstance(node.body[0], ast.If) else node.body[0].body[-1]
        ok = isinstance(last, ast.Raise) and ast.unparse(last.exc.func) == kind
        if not ok:
            raise Unsupported(f'__init__: `if {ast.unparse(node.test)}` no longer raises {kind}')
    s_rw = pick(ifs, lambda t: t == 'use_rwvm', 'real-world map search guard')
    r_rw = pick(ifs, lambda t: 'require_rwvm' in t, 'real-world map refusal')
    s_mod = pick(ifs, lambda t: 'use_modality' in t, 'modality search guard')
    r_mod = pick(ifs, lambda t: 'require_modality' in t, 'modality refusal')
    s_voi = pick(ifs, lambda t: 'use_voi' in t and 'require' not in t, 'VOI search guard')
    r_voi = pick(ifs, lambda t: 'require_voi' in t, 'VOI refusal')
    order = [s_rw, r_rw, s_mod, r_mod, s_voi, r_voi]
    if [x.lineno for x in order] != sorted(x.lineno for x in order):
        raise Unsupported('__init__: searches / refusals of the monochrome branch are no longer in the order rwvm, modality, VOI')
    for x in (r_rw, r_mod, r_voi):
        raises(x, 'RuntimeError')
    top_ifs = [x for x in body if isinstance(x, ast.If)]
    s_icc = pick(top_ifs, lambda t: t.startswith('use_icc and') and 'use_palette_color' not in t, 'colour-manager search guard')
    r_icc = pick(top_ifs, lambda t: 'require_icc and self._color_manager' in t, 'ICC refusal')
    raises(r_icc, 'RuntimeError')
    if not (mono_branch.lineno < s_icc.lineno < r_icc.lineno):
        raise Unsupported('__init__: colour-manager search / refusal no longer follow the monochrome branch')
    # has_rwvm must be set exactly where a map was found
    sets = [n for n in ast.walk(s_rw) if isinstance(n, ast.Assign) and ast.unparse(n) == 'has_rwvm = True']
    if len(sets) != 1:
        raise Unsupported('has_rwvm is no longer set to True at exactly one place of the real-world map search')
    B = 'bool'
    specs = [
        ('searchRwvm', s_rw, [('use_rwvm', B)], 'is a real-world value map searched'),
        ('refuseRwvm', r_rw, [('require_rwvm', B), ('has_rwvm', B)], 'required real-world value map missing'),
        ('searchModality', s_mod, [('has_rwvm', B), ('use_modality', B)], 'is a modality transform searched'),
        ('refuseModality', r_mod, [('require_modality', B), ('found_modlut', B), ('found_rescale', B)], 'required modality transform missing'),
        ('searchVoi', s_voi, [('has_rwvm', B), ('use_voi', B)], 'is a VOI transform searched'),
        ('refuseVoi', r_voi, [('require_voi', B), ('found_window', B), ('found_voilut', B)], 'required VOI transform missing'),
        ('searchIcc', s_icc, [('use_icc', B), ('mono', B)], 'is an ICC profile searched'),
        ('refuseIcc', r_icc, [('require_icc', B), ('found_icc', B)], 'required ICC profile missing'),
    ]
    texts = []
    for name, node, params, doc in specs:
        test = _Found().visit(copy.deepcopy(node.test))
        ret = ast.Return(value=test)
        ast.fix_missing_locations(ret)
        texts.append(translate_block([ret], name, params, {}, doc=f'`__init__`: {doc} (`if {ast.unparse(node.test)}`)'))
    return '\n\n'.join(texts), span_sha([x.test for x in order + [s_icc, r_icc]])


def build_T6k(tree):
    """`_CombinedPixelTransform.__call__`: the range test of a real-world map, the affine step as written (`* slope` unless 1,
    `+ intercept` unless 0), which effective attribute is applied first, and the arguments handed to apply_lut / apply_voi_window"""
    fn = find_func(tree, '_CombinedPixelTransform.__call__')
    body = strip_doc(fn.body)
    rc = [x for x in body if isinstance(x, ast.If) and ast.unparse(x.test) == 'self._input_range_check is not None']
    if len(rc) != 1 or ast.unparse(rc[0].body[0]) != 'first, last = self._input_range_check' or len(rc[0].body) != 2:
        raise Unsupported('__call__: range-check block changed')
    inner = rc[0].body[1]
    if not (isinstance(inner, ast.If) and isinstance(inner.body[-1], ast.Raise) and ast.unparse(inner.body[-1].exc.func) == 'ValueError'):
        raise Unsupported('__call__: range check no longer raises ValueError')
    ret = ast.Return(value=copy.deepcopy(inner.test))
    ast.fix_missing_locations(ret)
    t1 = translate_block([ret], 'callRangeRefused', [('first', 'rat'), ('last', 'rat')],
                         {'frame_out.min()': ('rat', 'x'), 'frame_out.max()': ('rat', 'x')},
                         doc='`__call__`: a value x outside [first, last] of the real-world value map is refused')
    chain = [x for x in body if isinstance(x, ast.If) and ast.unparse(x.test) == 'self._effective_lut_data is not None']
    if len(chain) != 1:
        raise Unsupported('__call__: effective-LUT branch not found')
    c1 = chain[0]
    if rc[0].lineno > c1.lineno:
        raise Unsupported('__call__: the range check no longer precedes the transform')
    if len(c1.orelse) != 1 or not isinstance(c1.orelse[0], ast.If) or ast.unparse(c1.orelse[0].test) != 'self._effective_slope_intercept is not None':
        raise Unsupported('__call__: second branch is no longer the slope / intercept')
    c2 = c1.orelse[0]
    if len(c2.orelse) != 1 or not isinstance(c2.orelse[0], ast.If) or ast.unparse(c2.orelse[0].test) != 'self._effective_window_center_width is not None' \
            or c2.orelse[0].orelse:
        raise Unsupported('__call__: third branch is no longer the window')
    c3 = c2.orelse[0]
    want_lut = 'frame_out = apply_lut(frame_out, self._effective_lut_data, self._effective_lut_first_mapped_value, clip=self._clip)'
    if [ast.unparse(x) for x in c1.body] != [want_lut]:
        raise Unsupported('__call__: arguments of apply_lut changed')
    want_win = ("frame_out = apply_voi_window(frame_out, window_center=self._effective_window_center_width[0], "
                "window_width=self._effective_window_center_width[1], dtype=self.output_dtype, invert=self._invert, "
                "output_range=self._voi_output_range, voi_lut_function=self._effective_voi_function or 'LINEAR')")
    if [ast.unparse(x) for x in c3.body] != [want_win]:
        raise Unsupported('__call__: arguments of apply_voi_window changed')
    if ast.unparse(c2.body[0]) != 'slope, intercept = self._effective_slope_intercept':
        raise Unsupported('__call__: slope / intercept are no longer unpacked from _effective_slope_intercept')
    stmts = _clone(c2.body[1:]) + [_ret('frame_out')]
    t2 = translate_block(stmts, 'callAffine', [('frame_out', 'rat'), ('slope', 'rat'), ('intercept', 'rat')], {},
                         doc='`__call__`, slope / intercept branch, on one value')
    # which attribute wins when several are set: 1 = table, 2 = slope / intercept, 3 = window, 0 = none
    sel = ast.parse('if has_lut:\n    return 1\nelif has_affine:\n    return 2\nelif has_window:\n    return 3\nreturn 0').body
    t3 = translate_block(sel, 'callBranch', [('has_lut', 'bool'), ('has_affine', 'bool'), ('has_window', 'bool')], {},
                         doc='`__call__`: order of the if / elif chain over the effective attributes (shape checked by the translator)')
    return t1 + '\n\n' + t2 + '\n\n' + t3, span_sha([rc[0], c1])


def build_T6m(tree):
    """search order of `__init__`: the datasets list (which dataset, shared-by-all-frames flag) and, inside the VOI search,
    what is looked for first within one dataset"""
    fn = _init(tree)
    rows = []
    for node in ast.walk(fn):
        if isinstance(node, ast.Expr) and isinstance(node.value, ast.Call) and ast.unparse(node.value.func) == 'datasets.append':
            arg = node.value.args[0]
            if not (isinstance(arg, ast.Tuple) and len(arg.elts) == 2 and isinstance(arg.elts[1], ast.Constant)):
                raise Unsupported('datasets.append no longer takes a (dataset, bool) pair')
            src = ast.unparse(arg.elts[0])
            kind = {'image.PerFrameFunctionalGroupsSequence[frame_index]': 'perframe', 'image.SharedFunctionalGroupsSequence[0]': 'shared',
                    'image': 'image'}.get(src)
            if kind is None:
                raise Unsupported(f'unknown dataset in the search list: {src}')
            rows.append((node.lineno, kind, bool(arg.elts[1].value)))
    rows.sort()
    init = [n for n in ast.walk(fn) if isinstance(n, ast.Assign) and ast.unparse(n) == 'datasets = []']
    if len(init) != 1 or not rows or init[0].lineno > rows[0][0]:
        raise Unsupported('datasets is no longer built from an empty list by appends')
    # every search loop iterates the list front to back and stops at the first hit
    loops = [n for n in ast.walk(fn) if isinstance(n, ast.For) and ast.unparse(n.iter) == 'datasets']
    if len(loops) != 3:
        raise Unsupported(f'expected three searches over datasets, found {len(loops)}')
    for lp in loops:
        if ast.unparse(lp.target) not in ('ds, is_shared', '(ds, is_shared)') or not any(isinstance(x, ast.Break) for x in ast.walk(lp)):
            raise Unsupported('a search over datasets no longer stops at the first hit')
    voi = [lp for lp in loops if 'FrameVOILUTSequence' in ast.unparse(lp)]
    if len(voi) != 1:
        raise Unsupported('VOI search loop not found')
    tests = [ast.unparse(x.test) for x in voi[0].body if isinstance(x, ast.If) and isinstance(x.body[-1], ast.Break)]
    kinds = []
    for t in tests:
        kinds.append('lut' if 'VOILUTSequence' in t and 'Window' not in t else 'window' if 'WindowCenter' in t else None)
    if None in kinds or sorted(kinds) != ['lut', 'window']:
        raise Unsupported(f'VOI search no longer tests a LUT sequence and window values: {tests}')
    text = ('/-- the list `datasets` of `__init__` in search order: (dataset, shared by all frames) -/\n'
            'def datasetOrder : List (String × Bool) :=\n  [' + ', '.join(f'({_lean_str(k)}, {"true" if b else "false"})' for _, k, b in rows) + ']\n\n'
            '/-- what the VOI search looks for within one dataset, first to last -/\n'
            'def voiWithinDataset : List String :=\n  [' + ', '.join(_lean_str(k) for k in kinds) + ']')
    import hashlib
    return text, hashlib.sha256(repr((rows, kinds)).encode()).hexdigest()


def build_T6n(tree):
    """`content.LUT`: the constants of the descriptor - `number_of_entries` (0 means 2**16) and the admission tests / stored
    entry count of `__init__` (first mapped value in [0, 2**16), 1..2**16 entries, 2**16 stored as 0)"""
    fn = find_func(tree, 'LUT.number_of_entries')
    t1 = translate_block(strip_doc(fn.body), 'lutNumberOfEntries', [], {'self.LUTDescriptor[0]': ('int', 'd0')},
                         doc='`LUT.number_of_entries` from the first descriptor value')
    init = find_func(tree, 'LUT.__init__')
    body = strip_doc(init.body)
    keep = []
    seen_len = False
    for st in body:
        src = ast.unparse(st)
        if isinstance(st, ast.Assign) and src == 'len_data = lut_data.size':
            keep.append(st)
            seen_len = True
        elif isinstance(st, ast.If) and 'isinstance' not in src.split(':')[0] and 'ndim' not in src.split(':')[0] \
                and ('first_mapped_value' in ast.unparse(st.test) or 'len_data' in ast.unparse(st.test)):
            keep.append(st)
    if not seen_len or len(keep) != 5:
        raise Unsupported(f'LUT.__init__: admission tests changed ({len(keep)} statements kept)')
    stmts = _clone(keep) + [_ret('len_data')]
    t2 = translate_block(stmts, 'lutInitCheck', [('first_mapped_value', 'int')], {'lut_data.size': ('int', 'n')},
                         doc='`LUT.__init__`: refusals on first mapped value / number of entries; result = entry count stored in the descriptor')
    return t1 + '\n\n' + t2, span_sha(strip_doc(fn.body) + keep)


def build_T6p(tree):
    """`_CombinedPixelTransform.__init__`, the block behind the stage folding: what happens to the three effective
    representations depending on input / output type - eager cast of a table, refusal of tables on float pixels, an identity
    rescale dropped, `_check_rescale_dtype` called, a window refused for a non-float output, whether the final cast is
    range-checked (`_check_output_range`), whether frames come out as colour (`color_output`)."""
    fn = _init(tree)
    body = strip_doc(fn.body)
    start = end = None
    for i, st in enumerate(body):
        u = ast.unparse(st)
        if start is None and isinstance(st, ast.If) and ast.unparse(st.test) == 'self._effective_lut_data is not None' \
                and '_color_manager' in u and 'casting' in u:
            start = i
        if isinstance(st, ast.Assign) and ast.unparse(st.targets[0]) == 'self.color_output':
            end = i
    if start is None or end is None or end < start:
        raise Unsupported('output-type block of _CombinedPixelTransform.__init__ not found')
    block = body[start:end + 1]
    cm = [i for i, st in enumerate(body) if isinstance(st, ast.If) and ast.unparse(st.test).startswith('require_icc and self._color_manager is None')]
    if len(cm) != 1 or cm[0] > start:
        raise Unsupported('the output-type block no longer follows the colour-manager search')
    subst = {
        'self._effective_lut_data is not None': 'has_lut', 'self._effective_lut_data is None': 'not has_lut',
        'self._color_manager is None': 'not has_cm', 'self._effective_lut_data.dtype != output_dtype': 'lut_dtype_differs',
        "self.input_dtype.kind == 'f'": 'in_float',
        'self._effective_slope_intercept is not None': 'has_si', 'self._effective_slope_intercept is None': 'not has_si',
        'self._effective_slope_intercept == (1.0, 0.0)': 'si_identity',
        'self._effective_window_center_width is not None': 'has_window', 'self._effective_window_center_width is None': 'not has_window',
        'self.output_dtype.kind': 'out_kind', 'self.input_dtype.kind': 'in_kind',
        "np.can_cast(self.input_dtype, self.output_dtype, 'safe')": 'can_cast_safe',
        'self._color_type == _ImageColorType.COLOR': "color_type == 'COLOR'",
        'self._color_type == _ImageColorType.PALETTE_COLOR': "color_type == 'PALETTE_COLOR'",
    }

    class R(ast.NodeTransformer):
        def visit(self, node):
            if isinstance(node, ast.expr):
                u = ast.unparse(node)
                if u in subst:
                    return ast.parse(subst[u], mode='eval').body
                return self.generic_visit(node)
            return super().visit(node)

        def visit_Assign(self, node):
            u = ast.unparse(node)
            t = ast.unparse(node.targets[0])
            if u == 'self._effective_slope_intercept = None':
                return ast.parse('has_si = False').body[0]
            if t == 'self._effective_lut_data':
                if 'astype(output_dtype, casting=\'safe\')' not in ''.join(u.split()).replace('casting=', 'casting=') and \
                        "casting='safe'" not in u:
                    raise Unsupported('the eager cast of the effective table is no longer a safe cast')
                return ast.parse('lut_cast = True').body[0]
            if t == 'self._effective_slope_intercept':
                if ast.unparse(node.value) != '(np.float64(slope).astype(self.output_dtype), np.float64(intercept).astype(self.output_dtype))':
                    raise Unsupported('slope / intercept are no longer cast to the output type')
                return ast.parse('si_cast = True').body[0]
            if t in ('slope, intercept', '(slope, intercept)'):
                return None
            if t == 'self._check_output_range':
                return ast.Assign(targets=[ast.Name(id='check_output_range', ctx=ast.Store())], value=self.visit(node.value))
            if t == 'self.color_output':
                return ast.Assign(targets=[ast.Name(id='color_output', ctx=ast.Store())], value=self.visit(node.value))
            raise Unsupported('output-type block: unexpected assignment ' + u[:80])

        def visit_Expr(self, node):
            u = ast.unparse(node)
            if u.startswith('_check_rescale_dtype('):
                want = '_check_rescale_dtype(slope=slope, intercept=intercept, output_dtype=self.output_dtype, input_dtype=self.input_dtype, input_range=input_range)'
                if u != want:
                    raise Unsupported('arguments of _check_rescale_dtype changed: ' + u)
                return ast.parse('rescale_checked = True').body[0]
            raise Unsupported('output-type block: unexpected statement ' + u[:80])
    pre = ast.parse('lut_cast = False\nsi_cast = False\nrescale_checked = False').body
    stmts = pre + [R().visit(copy.deepcopy(st)) for st in block]
    stmts = [x for x in stmts if x is not None] + [_ret('(lut_cast, has_si, rescale_checked, si_cast, check_output_range, color_output)')]
    for x in stmts:
        ast.fix_missing_locations(x)
    text = translate_block(stmts, 'outputRules',
                           [('has_lut', 'bool'), ('has_cm', 'bool'), ('lut_dtype_differs', 'bool'), ('in_float', 'bool'),
                            ('has_si', 'bool'), ('si_identity', 'bool'), ('has_window', 'bool'), ('out_kind', 'str'), ('in_kind', 'str'),
                            ('can_cast_safe', 'bool'), ('color_type', 'str')], {},
                           doc='`_CombinedPixelTransform.__init__`, block behind the folding: (table cast eagerly to the output type, slope / '
                               'intercept still present, `_check_rescale_dtype` called, slope / intercept cast, `_check_output_range`, '
                               '`color_output`) or the refusal; inputs: which effective representation exists, whether a colour manager '
                               'exists, dtype kinds, `np.can_cast(input, output, "safe")`')
    return text, span_sha(block)


def build_T6q(tree):
    """`_CombinedPixelTransform.__call__`: the ORDER of its steps, as a list of tags (every top-level statement must be one of
    the known steps)."""
    fn = find_func(tree, '_CombinedPixelTransform.__call__')
    body = strip_doc(fn.body)
    tags = []
    for st in body:
        u = ast.unparse(st)
        if isinstance(st, ast.If):
            t = ast.unparse(st.test)
            if t == 'isinstance(frame, bytes)':
                if 'decode_frame(' not in u or 'raise TypeError' not in u:
                    raise Unsupported('__call__: decode step changed')
                tags.append('decode')
            elif t == 'self._color_type == _ImageColorType.COLOR':
                tags.append('shape-check')
            elif t == 'self._input_range_check is not None':
                tags.append('input-range-check')
            elif t == 'self._effective_lut_data is not None':
                tags.append('lut|affine|window')
            elif t == 'self._color_manager is not None':
                if [ast.unparse(x) for x in st.body] != ['frame_out = self._color_manager.transform_frame(frame_out)'] or st.orelse:
                    raise Unsupported('__call__: colour-management step changed')
                tags.append('icc')
            elif t == 'self._check_output_range':
                if 'raise ValueError' not in u or 'np.iinfo(self.output_dtype)' not in u:
                    raise Unsupported('__call__: output range check changed')
                tags.append('output-range-check')
            elif t == 'frame_out.dtype != self.output_dtype':
                if [ast.unparse(x) for x in st.body] != ['frame_out = frame_out.astype(self.output_dtype)'] or st.orelse:
                    raise Unsupported('__call__: final cast changed')
                tags.append('cast')
            else:
                raise Unsupported('__call__: unknown step `if ' + t[:80] + '`')
        elif isinstance(st, ast.Return):
            if u != 'return frame_out':
                raise Unsupported('__call__ no longer returns frame_out')
            tags.append('return')
        else:
            raise Unsupported('__call__: unknown step ' + u[:80])
    text = ('/-- `_CombinedPixelTransform.__call__`: its steps in source order -/\ndef callOrder : List String :=\n  ['
            + ', '.join(_lean_str(t) for t in tags) + ']')
    import hashlib
    return text, hashlib.sha256(repr(tags).encode()).hexdigest()


DTYPE_CODES = {'float32': 232, 'float64': 264, 'int8': 108, 'int16': 116, 'int32': 132, 'int64': 164,
               'uint8': 8, 'uint16': 16, 'uint32': 32, 'uint64': 64}


def build_T6r(tree):
    """`_CombinedPixelTransform.__init__`: type and range of the stored values deduced from the image description
    (ParametricMapStorage with more than 16 bits allocated: float; PixelRepresentation 1: signed, range from BitsStored in
    two's complement; else unsigned).  dtype as a code: 100 + bits signed, bits unsigned, 200 + bits float, -1 not set."""
    fn = _init(tree)
    body = strip_doc(fn.body)
    start = None
    for i, st in enumerate(body):
        if ast.unparse(st) == 'input_range = None' and i + 1 < len(body) and isinstance(body[i + 1], ast.If) \
                and 'ParametricMapStorage' in ast.unparse(body[i + 1].test):
            start = i
    if start is None:
        raise Unsupported('input type block of _CombinedPixelTransform.__init__ not found')
    block = body[start:start + 2]

    class R(ast.NodeTransformer):
        def visit_Compare(self, node):
            if ast.unparse(node) == 'image.SOPClassUID == ParametricMapStorage':
                return ast.copy_location(ast.Name(id='is_pmap', ctx=ast.Load()), node)
            return self.generic_visit(node)

        def visit_Assign(self, node):
            t = ast.unparse(node.targets[0])
            v = ast.unparse(node.value)
            if t == 'self.input_dtype':
                if not (v.startswith('np.dtype(np.') and v.endswith(')') and v[12:-1] in DTYPE_CODES):
                    raise Unsupported('input_dtype set to an unknown type: ' + v)
                return ast.parse(f'input_dtype = {DTYPE_CODES[v[12:-1]]}').body[0]
            if t == 'input_range':
                if v == 'None':
                    return ast.parse('has_range = False').body
                if not (isinstance(node.value, ast.Tuple) and len(node.value.elts) == 2):
                    raise Unsupported('input_range is no longer a pair')
                a, b = (ast.unparse(e) for e in node.value.elts)
                return ast.parse(f'range_lo = {a}\nrange_hi = {b}\nhas_range = True').body
            if t == 'half_range':
                return node
            raise Unsupported('input type block: unexpected assignment ' + ast.unparse(node)[:80])
    stmts = ast.parse('input_dtype = -1\nrange_lo = 0\nrange_hi = 0').body
    for st in block:
        r = R().visit(copy.deepcopy(st))
        stmts += r if isinstance(r, list) else [r]
    stmts.append(_ret('(input_dtype, has_range, range_lo, range_hi)'))
    for x in stmts:
        ast.fix_missing_locations(x)
    text = translate_block(stmts, 'inputType', [('is_pmap', 'bool')],
                           {'image.BitsAllocated': ('int', 'bitsAllocated'), 'image.PixelRepresentation': ('int', 'pixelRepresentation'),
                            'image.BitsStored': ('int', 'bitsStored')},
                           doc='`_CombinedPixelTransform.__init__`: (dtype code of the stored values, is a value range known, lowest, highest '
                               'stored value) from the image description; dtype code = 100 + bits signed / bits unsigned / 200 + bits float / -1')
    return text, span_sha(block)


def build_T6s(tree):
    """`_CombinedPixelTransform.__init__`, "determine how to combine modality, voi and presentation transforms": WHICH of the
    eight constructions is taken, as a decision function of what was found (modality LUT, real-world map, window, VOI LUT,
    inversion).  Each arm is recognised by what it builds; 0 = nothing is built here (a real-world map is in force)."""
    fn = _init(tree)
    hits = _walk_ifs(fn, lambda n: ast.unparse(n.test) == 'modality_lut is not None and (not has_rwvm)')
    if len(hits) != 1:
        raise Unsupported('combination block (if modality_lut is not None and not has_rwvm) not found')
    top = hits[0]
    if len(top.orelse) != 1 or not isinstance(top.orelse[0], ast.If) or ast.unparse(top.orelse[0].test) != 'not has_rwvm' or top.orelse[0].orelse:
        raise Unsupported('combination block: the rescale arm is no longer `elif not has_rwvm`')

    def arm(stmts, marks, code):
        u = ' '.join(ast.unparse(x) for x in stmts)
        for m in marks:
            if m not in u:
                raise Unsupported(f'combination block: arm {code} no longer contains `{m}`')
        return ast.parse(f'return {code}').body

    def chain(stmts, codes, marks):
        ifs = [x for x in stmts if isinstance(x, ast.If) and ast.unparse(x.test) == 'voi_center_width is not None']
        if len(ifs) != 1:
            raise Unsupported('combination block: window test not found')
        w = ifs[0]
        if len(w.orelse) != 1 or not isinstance(w.orelse[0], ast.If) or ast.unparse(w.orelse[0].test) != 'voi_lut is not None':
            raise Unsupported('combination block: VOI LUT test no longer follows the window test')
        v = w.orelse[0]
        inv = [x for x in v.orelse if isinstance(x, ast.If) and ast.unparse(x.test) == 'invert']
        if len(inv) != 1:
            raise Unsupported('combination block: inversion test not found in the arm without VOI transform')
        return [ast.If(test=w.test, body=arm(w.body, marks[0], codes[0]), orelse=[
            ast.If(test=v.test, body=arm(v.body, marks[1], codes[1]), orelse=[
                ast.If(test=inv[0].test, body=arm(inv[0].body, marks[2], codes[2]), orelse=arm(inv[0].orelse, marks[3], codes[3]))])])]
    lut_arm = chain(top.body, (1, 2, 3, 4),
                    (['apply_voi_window(', 'array=modality_lut.lut_data'], ['apply_lut(', 'voi_lut.get_scaled_lut_data('],
                     ['modality_lut.get_inverted_lut_data()'], ['self._effective_lut_data = modality_lut.lut_data']))
    res_arm = chain(top.orelse[0].body, (5, 6, 7, 8),
                    (['self._effective_window_center_width ='], ['voi_scaled_lut_data', 'adjusted_first_value'],
                     ['eff_slope', 'self._effective_slope_intercept ='], ['self._effective_slope_intercept = modality_slope_intercept']))
    blk = [ast.If(test=top.test, body=lut_arm, orelse=[ast.If(test=top.orelse[0].test, body=res_arm, orelse=ast.parse('return 0').body)])]

    class R(ast.NodeTransformer):
        def visit_Compare(self, node):
            u = ast.unparse(node)
            m = {'modality_lut is not None': 'has_mod_lut', 'voi_center_width is not None': 'has_window', 'voi_lut is not None': 'has_voi_lut'}
            if u in m:
                return ast.copy_location(ast.Name(id=m[u], ctx=ast.Load()), node)
            return node
    blk = [R().visit(x) for x in blk]
    for x in blk:
        ast.fix_missing_locations(x)
    text = translate_block(blk, 'combineBranch', [('has_mod_lut', 'bool'), ('has_rwvm', 'bool'), ('has_window', 'bool'),
                                                  ('has_voi_lut', 'bool'), ('invert', 'bool')], {},
                           doc='`__init__`, combination of the stages found: 1 window applied to the modality LUT entries, 2 VOI LUT composed '
                               'with the modality LUT, 3 inverted modality LUT, 4 modality LUT alone, 5 window folded through the rescale, '
                               '6 VOI LUT folded through the rescale, 7 rescale with inversion folded in, 8 rescale alone, 0 nothing (a '
                               'real-world map is in force)')
    return text, span_sha([top])


TARGETS = {
    'T6s': {'file': 'image.py', 'build': build_T6s},
    'T6r': {'file': 'image.py', 'build': build_T6r},
    'T6p': {'file': 'image.py', 'build': build_T6p},
    'T6q': {'file': 'image.py', 'build': build_T6q},
    'T6n': {'file': 'content.py', 'build': build_T6n},
    'T6k': {'file': 'image.py', 'build': build_T6k},
    'T6m': {'file': 'image.py', 'build': build_T6m},
    'T6j': {'file': 'image.py', 'build': build_T6j},
    'T6i': {'file': 'image.py', 'build': build_T6i},
    'T6h': {'file': 'image.py', 'build': build_T6h},
    'T6g': {'file': 'pixels.py', 'build': build_T6g},
    'T6a': {'file': 'image.py', 'build': build_T6a},
    'T6b': {'file': 'image.py', 'build': build_T6b},
    'T6c': {'file': 'image.py', 'build': build_T6c},
    'T6d': {'file': 'pixels.py', 'build': build_T6d},
    'T6e': {'file': 'pixels.py', 'build': build_T6e},
    'T6f': {'file': 'image.py', 'build': build_T6f},
}
