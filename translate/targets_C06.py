"""Translation targets of C06 (tie T): decision and arithmetic cores of the pixel-transform pipeline.

T6a  `_CombinedPixelTransform.__init__`: the tri-state flag logic (use_* / require_* and its refusals)
T6b  ... folding of a VOI window through the modality rescale (effective centre / width)
T6c  ... folding of the presentation inversion into the rescale (effective slope / intercept)
T6d  `pixels.apply_voi_window`: the LINEAR / LINEAR_EXACT function on one value; the SIGMOID exponent
T6e  `pixels.apply_lut`: position in the table for one value (clip / refuse)
T6f  `_CombinedPixelTransform.__init__`: folding of a VOI LUT through an integer rescale (guards, stride, first value)
"""
from __future__ import annotations

import ast
import copy

from py2lean import Unsupported, find_func, span_sha, strip_doc, translate_block


class _Rewrite(ast.NodeTransformer):
    """`Enum.MEMBER` -> 'MEMBER' string constants; `self._x = v` / `self._x` -> plain names"""

    def __init__(self, enums=(), self_names=()):
        self.enums = set(enums)
        self.self_names = set(self_names)

    def visit_Attribute(self, node):
        if isinstance(node.value, ast.Name) and node.value.id in self.enums:
            return ast.copy_location(ast.Constant(value=node.attr), node)
        if isinstance(node.value, ast.Name) and node.value.id == 'self' and node.attr in self.self_names:
            return ast.copy_location(ast.Name(id=node.attr.lstrip('_'), ctx=node.ctx), node)
        return self.generic_visit(node)


def _clone(stmts, **kw):
    out = [_Rewrite(**kw).visit(copy.deepcopy(s)) for s in stmts]
    for s in out:
        ast.fix_missing_locations(s)
    return out


def _ret(src):
    return ast.parse('return ' + src).body[0]


def _init(tree):
    return find_func(tree, '_CombinedPixelTransform.__init__')


FLAG_PARAMS = ['apply_real_world_transform', 'apply_modality_transform', 'apply_voi_transform',
               'apply_palette_color_lut', 'apply_icc_profile']
FLAG_OUT = ['use_rwvm', 'require_rwvm', 'use_modality', 'require_modality', 'use_voi', 'require_voi',
            'use_palette_color', 'require_palette_color', 'use_icc', 'require_icc']


def build_T6a(tree):
    fn = _init(tree)
    body = strip_doc(fn.body)
    have = {a.arg for a in fn.args.args + fn.args.kwonlyargs}
    for p in FLAG_PARAMS:
        if p not in have:
            raise Unsupported(f'parameter {p} no longer in _CombinedPixelTransform.__init__')
    start = end = None
    for i, st in enumerate(body):
        if isinstance(st, ast.If):
            t = ast.unparse(st.test)
            if start is None and t == 'apply_real_world_transform is None':
                start = i
            if 'require_icc' in t and 'MONOCHROME' in t:
                end = i
    if start is None or end is None or end < start:
        raise Unsupported('flag block of _CombinedPixelTransform.__init__ not found')
    block = body[start:end + 1]
    for st in block:
        if not isinstance(st, ast.If):
            raise Unsupported('flag block contains a non-if statement: ' + ast.unparse(st)[:60])
    stmts = _clone(block, enums=['_ImageColorType']) + [_ret('(' + ', '.join(FLAG_OUT) + ')')]
    text = translate_block(stmts, 'cptFlags', [(p, 'optint') for p in FLAG_PARAMS],
                           {'self._color_type': ('str', 'colorType')},
                           doc='`_CombinedPixelTransform.__init__`: tri-state flags (None / some 0 = False / some 1 = True) and '
                               'colour type -> (use_rwvm, require_rwvm, use_modality, require_modality, use_voi, require_voi, '
                               'use_palette_color, require_palette_color, use_icc, require_icc) or the refusal')
    return text, span_sha(block)


def _walk_ifs(fn, pred):
    return [n for n in ast.walk(fn) if isinstance(n, ast.If) and pred(n)]


def _assigns_self(st, attr):
    return isinstance(st, ast.Assign) and len(st.targets) == 1 and ast.unparse(st.targets[0]) == 'self.' + attr


def build_T6b(tree):
    """effective window centre / width when a window follows a rescale"""
    fn = _init(tree)
    hits = _walk_ifs(fn, lambda n: ast.unparse(n.test) == 'voi_center_width is not None'
                     and any('_effective_window_center_width' in ast.unparse(s) for s in n.body))
    if len(hits) != 1:
        raise Unsupported('window-folding branch not found')
    body = hits[0].body
    if ast.unparse(body[0]) != 'center, width = voi_center_width':
        raise Unsupported('window-folding branch no longer starts with center, width = voi_center_width')
    rest = body[1:]
    keep = []
    passthrough = {'_effective_voi_function': 'voi_function', '_invert': 'invert'}
    seen = set()
    for st in rest:
        done = False
        for attr, val in passthrough.items():
            if _assigns_self(st, attr):
                if ast.unparse(st.value) != val:
                    raise Unsupported(f'self.{attr} is no longer set to {val}')
                seen.add(attr)
                done = True
        if not done:
            keep.append(st)
    if seen != set(passthrough):
        raise Unsupported('window-folding branch no longer passes voi_function / invert through')
    stmts = _clone(keep, self_names=['_effective_window_center_width']) + [_ret('effective_window_center_width')]
    text = translate_block(stmts, 'foldWindow', [('center', 'rat'), ('width', 'rat'), ('intercept', 'rat'), ('slope', 'rat'),
                                                 ('voi_function', 'str')], {},
                           doc='`_CombinedPixelTransform.__init__`: effective (centre, width) applied to *stored* values when a '
                               'window follows the rescale (slope, intercept); function and inversion are passed through unchanged')
    return text, span_sha(body)


def build_T6c(tree):
    """effective slope / intercept when only the presentation inversion follows the rescale"""
    fn = _init(tree)
    hits = _walk_ifs(fn, lambda n: ast.unparse(n.test) == 'invert' and any('eff_slope' in ast.unparse(s) for s in n.body))
    if len(hits) != 1:
        raise Unsupported('inversion-folding branch not found')
    node = hits[0]
    if len(node.orelse) != 1 or ast.unparse(node.orelse[0]) != 'self._effective_slope_intercept = modality_slope_intercept':
        raise Unsupported('non-inverted branch no longer keeps modality_slope_intercept')

    class R(ast.NodeTransformer):
        def visit_Compare(self, n):
            if ast.unparse(n) == 'input_range is None':
                return ast.copy_location(ast.Name(id='float_input', ctx=ast.Load()), n)
            return n
    body = []
    for st in node.body:
        st = R().visit(copy.deepcopy(st))
        body.append(st)
    # `imin, imax = input_range` becomes two parameters

    class D(ast.NodeTransformer):
        def visit_Assign(self, n):
            if ast.unparse(n) == 'imin, imax = input_range':
                return None
            return n
    body = [D().visit(st) for st in body]
    stmts = _clone(body, self_names=['_effective_slope_intercept']) + [_ret('effective_slope_intercept')]
    text = translate_block(stmts, 'foldInvert', [('slope', 'rat'), ('intercept', 'rat'), ('imin', 'int'), ('imax', 'int'),
                                                 ('float_input', 'bool')], {},
                           doc='`_CombinedPixelTransform.__init__`: effective (slope, intercept) of rescale followed by inversion '
                               'within the rescaled stored range [imin, imax] (`float_input`: no integer range known)')
    return text, span_sha(node.body)


def build_T6d(tree):
    """`apply_voi_window` on one value: LINEAR / LINEAR_EXACT result, SIGMOID exponent"""
    fn = find_func(tree, 'apply_voi_window')
    lin = _walk_ifs(fn, lambda n: 'VOILUTFunctionValues.LINEAR_EXACT' in ast.unparse(n.test) and ' in ' in ast.unparse(n.test))
    if len(lin) != 1:
        raise Unsupported('LINEAR/LINEAR_EXACT branch of apply_voi_window not found')
    node = lin[0]
    # output_min, output_max = output_range precedes; they are parameters here
    stmts = _clone(node.body, enums=['VOILUTFunctionValues']) + [_ret('array')]
    t1 = translate_block(stmts, 'voiWindowLinear',
                         [('array', 'rat'), ('window_center', 'rat'), ('window_width', 'rat'), ('voi_lut_function', 'str'),
                          ('output_min', 'rat'), ('output_max', 'rat'), ('invert', 'bool')], {},
                         doc='`apply_voi_window`, LINEAR / LINEAR_EXACT branch, for one pixel value `array`')
    sig = node.orelse
    if len(sig) != 1 or not isinstance(sig[0], ast.If) or 'SIGMOID' not in ast.unparse(sig[0].test):
        raise Unsupported('SIGMOID branch of apply_voi_window not found')
    sbody = sig[0].body
    out = []
    arg = None
    tail = []
    for st in sbody:
        if isinstance(st, ast.Assign) and ast.unparse(st.targets[0]) == 'exp_term':
            v = st.value
            if not (isinstance(v, ast.Call) and ast.unparse(v.func) == 'np.exp' and len(v.args) == 1):
                raise Unsupported('exp_term is no longer np.exp(<argument>)')
            arg = v.args[0]
        elif arg is None:
            out.append(st)
        else:
            tail.append(st)
    if arg is None:
        raise Unsupported('exp_term not found in SIGMOID branch')
    want_tail = 'array = (output_max - output_min) / (1.0 + exp_term) + output_min'
    if len(tail) != 1 or ast.unparse(tail[0]) != want_tail:
        raise Unsupported('SIGMOID result is no longer (output_max - output_min) / (1.0 + exp_term) + output_min')
    stmts2 = _clone(out) + [ast.fix_missing_locations(ast.Return(value=copy.deepcopy(arg)))]
    t2 = translate_block(stmts2, 'voiSigmoidArg', [('array', 'rat'), ('window_center', 'rat'), ('window_width', 'rat'),
                                                   ('invert', 'bool')], {},
                         doc='`apply_voi_window`, SIGMOID branch: the argument of `exp`; the result is '
                             '(output_max - output_min) / (1 + exp arg) + output_min (shape checked textually by the translator)')
    return t1 + '\n\n' + t2, span_sha(node.body + sbody)


def build_T6e(tree):
    """`apply_lut`: position in the table for one value"""
    fn = find_func(tree, 'apply_lut')
    body = strip_doc(fn.body)
    start = None
    for i, st in enumerate(body):
        if isinstance(st, ast.Assign) and ast.unparse(st.targets[0]) == 'last_mapped_value':
            start = i
    if start is None:
        raise Unsupported('last_mapped_value not found in apply_lut')
    block = body[start:]
    last = block[-1]
    if not (isinstance(last, ast.Return) and ast.unparse(last.value) == 'lut_data[array, ...]'):
        raise Unsupported('apply_lut no longer returns lut_data[array, ...]')
    # widening of the integer type is a representation matter: Int is unbounded.  Its statement is dropped after
    # checking its shape (it may only re-type `array`).
    keep = []
    for st in block[:-1]:
        src = ast.unparse(st)
        if isinstance(st, ast.Assign) and ast.unparse(st.targets[0]) == 'array_info':
            continue
        if isinstance(st, ast.If) and 'array_info' in ast.unparse(st.test):
            if [ast.unparse(x) for x in st.body] != ['array = array.astype(np.int64)'] or st.orelse:
                raise Unsupported('type-widening branch of apply_lut changed')
            continue
        keep.append(st)
    stmts = [ast.parse('array = array').body[0]] + _clone(keep) + [_ret('array')]
    attrs = {'array': ('int', 'x'), 'array.min()': ('int', 'x'), 'array.max()': ('int', 'x'), 'len(lut_data)': ('int', 'n')}
    text = translate_block(stmts, 'applyLutIndex', [('first_mapped_value', 'int'), ('clip', 'bool')], attrs,
                           doc='`apply_lut` for one pixel value x and a table of n entries: the position `lut_data[...]` is read at '
                               '(clipped to the table, or refused when clip is off)')
    return text, span_sha(block)


def build_T6f(tree):
    """folding of a VOI LUT through an integer rescale: guards, direction, stride, first stored value"""
    fn = _init(tree)
    hits = _walk_ifs(fn, lambda n: ast.unparse(n.test) == 'voi_lut is not None'
                     and any('get_scaled_lut_data' in ast.unparse(s) for s in n.body)
                     and any('adjusted_first_value' in ast.unparse(s) for s in n.body))
    if len(hits) != 1:
        raise Unsupported('rescale + VOI LUT branch not found')
    body = hits[0].body
    keep = []
    shape = []
    for st in body:
        src = ast.unparse(st)
        if isinstance(st, ast.Assign) and ast.unparse(st.targets[0]) == 'voi_scaled_lut_data' and 'get_scaled_lut_data' in src:
            shape.append('scaled')
            continue
        if isinstance(st, ast.If) and ast.unparse(st.test) == 'slope < 0':
            srcs = [ast.unparse(x) for x in st.body]
            if srcs != ['voi_scaled_lut_data = voi_scaled_lut_data[::-1]', 'voi_first_value += len(voi_scaled_lut_data) - 1'] or st.orelse:
                raise Unsupported('negative-slope branch of the VOI LUT folding changed')
            st = ast.parse('if slope < 0:\n    reversed_table = True\n    voi_first_value += n_entries - 1').body[0]
            keep.append(ast.parse('reversed_table = False').body[0])
            keep.append(st)
            shape.append('reverse')
            continue
        if isinstance(st, ast.If) and ast.unparse(st.test) == 'step != 1':
            want = ("self._effective_lut_data = voi_scaled_lut_data[::step]",
                    "if (len(voi_scaled_lut_data) - 1) % step != 0:\n    self._effective_lut_data = "
                    "np.concatenate([self._effective_lut_data, voi_scaled_lut_data[-1:]])")
            got = tuple(ast.unparse(x) for x in st.body)
            if got != want or [ast.unparse(x) for x in st.orelse] != ['self._effective_lut_data = voi_scaled_lut_data']:
                raise Unsupported('stride branch of the VOI LUT folding changed')
            keep.append(ast.parse('append_last = step != 1 and (n_entries - 1) % step != 0').body[0])
            shape.append('stride')
            continue
        if _assigns_self(st, '_effective_lut_first_mapped_value'):
            keep.append(ast.parse('first_out = ' + ast.unparse(st.value)).body[0])
            continue
        keep.append(st)
    if shape != ['scaled', 'reverse', 'stride']:
        raise Unsupported(f'VOI LUT folding no longer has the shape scaled/reverse/stride: {shape}')
    stmts = _clone(keep) + [_ret('(reversed_table, step, append_last, first_out)')]
    text = translate_block(stmts, 'foldVoiLut', [('slope', 'rat'), ('intercept', 'rat'), ('n_entries', 'int')],
                           {'voi_lut.first_mapped_value': ('int', 'voiFirst')},
                           doc='`_CombinedPixelTransform.__init__`, VOI LUT after a rescale: the scaled table T (n_entries long) is '
                               'reversed if `reversed_table`, then T[::step], plus T[-1:] if `append_last`; it is applied to stored '
                               'values with first mapped value `first_out` (list surgery checked textually by the translator)')
    return text, span_sha(body)


class _InTuple(ast.NodeTransformer):
    """`x in (a, b)` -> `x == a or x == b`; `x not in (...)` -> `not (...)`; `np.float64(v)` -> `v`"""

    def visit_Compare(self, node):
        self.generic_visit(node)
        if len(node.ops) == 1 and isinstance(node.ops[0], (ast.In, ast.NotIn)) and isinstance(node.comparators[0], ast.Tuple):
            alts = [ast.Compare(left=copy.deepcopy(node.left), ops=[ast.Eq()], comparators=[e]) for e in node.comparators[0].elts]
            expr = ast.BoolOp(op=ast.Or(), values=alts)
            if isinstance(node.ops[0], ast.NotIn):
                expr = ast.UnaryOp(op=ast.Not(), operand=expr)
            return ast.copy_location(expr, node)
        return node

    def visit_Call(self, node):
        self.generic_visit(node)
        if ast.unparse(node.func) == 'np.float64' and len(node.args) == 1:
            return node.args[0]
        return node


def build_T6g(tree):
    """`_check_rescale_dtype`: whether an output type may hold the rescaled values"""
    fn = find_func(tree, '_check_rescale_dtype')
    body = strip_doc(fn.body)
    out = []
    for st in body:
        st = copy.deepcopy(st)
        for node in ast.walk(st):
            # `if input_range is not None: input_min, input_max = input_range` -> parameters
            if isinstance(node, ast.If) and ast.unparse(node.test) == 'input_range is not None':
                if [ast.unparse(x) for x in node.body] != ['input_min, input_max = input_range']:
                    raise Unsupported('input_range branch of _check_rescale_dtype changed')
                node.test = ast.Name(id='has_input_range', ctx=ast.Load())
                node.body = [ast.parse('input_min, input_max = (range_min, range_max)').body[0]]
        st = _InTuple().visit(st)
        ast.fix_missing_locations(st)
        out.append(st)
    stmts = out + [_ret('True')]
    attrs = {'output_dtype.kind': ('str', 'outKind'), 'input_dtype.kind': ('str', 'inKind'),
             'np.iinfo(output_dtype).max': ('int', 'outTypeMax'), 'np.iinfo(output_dtype).min': ('int', 'outTypeMin'),
             'np.iinfo(input_dtype).max': ('int', 'inTypeMax'), 'np.iinfo(input_dtype).min': ('int', 'inTypeMin')}
    text = translate_block(stmts, 'checkRescaleDtype',
                           [('slope', 'rat'), ('intercept', 'rat'), ('has_input_range', 'bool'), ('range_min', 'int'), ('range_max', 'int')],
                           attrs, doc='`pixels._check_rescale_dtype`: accepted (`ok true`) or refused; dtype kinds and iinfo limits are parameters')
    return text, span_sha(body)


def _lean_str(x):
    return '"' + x.replace('\\', '\\\\').replace('"', '\\"').replace('\n', ' ') + '"'


def build_T6h(tree):
    """argument forwarding of every construction site of `_CombinedPixelTransform` and of every call of
    `_get_pixels_by_frame` in image.py: (function, kind, ordinal, first argument, in a loop, guards, keywords)"""
    sites = []

    def walk(node, fn_name, in_loop, guards, counter):
        for child in ast.iter_child_nodes(node):
            if isinstance(child, (ast.FunctionDef, ast.AsyncFunctionDef)):
                walk(child, (fn_name + '.' if fn_name and not fn_name[0].islower() else '') + child.name if fn_name else child.name,
                     False, [], {})
                continue
            if isinstance(child, ast.ClassDef):
                walk(child, child.name, False, [], {})
                continue
            if isinstance(child, (ast.For, ast.While)):
                walk(child, fn_name, True, guards, counter)
                continue
            if isinstance(child, ast.If):
                t = ast.unparse(child.test)
                for sub in child.body:
                    walk_stmt(sub, fn_name, in_loop, guards + [t], counter)
                for sub in child.orelse:
                    walk_stmt(sub, fn_name, in_loop, guards + ['not ' + t], counter)
                # calls in the test itself
                visit_expr(child.test, fn_name, in_loop, guards, counter)
                continue
            walk_stmt(child, fn_name, in_loop, guards, counter)

    def walk_stmt(node, fn_name, in_loop, guards, counter):
        if isinstance(node, (ast.FunctionDef, ast.ClassDef, ast.For, ast.While, ast.If, ast.AsyncFunctionDef)):
            holder = ast.Module(body=[node], type_ignores=[])
            walk(holder, fn_name, in_loop, guards, counter)
            return
        visit_expr(node, fn_name, in_loop, guards, counter)
        # compound statements (with, try) carry bodies
        for field in ('body', 'orelse', 'finalbody', 'handlers'):
            for sub in getattr(node, field, []) or []:
                if isinstance(sub, ast.AST):
                    walk_stmt(sub, fn_name, in_loop, guards, counter)

    def visit_expr(node, fn_name, in_loop, guards, counter):
        stack = [node]
        while stack:
            n = stack.pop()
            if isinstance(n, ast.Call):
                f = ast.unparse(n.func)
                kind = ('transform' if f == '_CombinedPixelTransform' else 'pixels_by_frame' if f.endswith('._get_pixels_by_frame')
                        else 'total_pixel_matrix' if f.endswith('.get_total_pixel_matrix') else None)
                if kind and fn_name:
                    k = counter.get((fn_name, kind), 0)
                    counter[(fn_name, kind)] = k + 1
                    sites.append({'fn': fn_name, 'kind': kind, 'ordinal': k,
                                  'target': ast.unparse(n.args[0]) if n.args else (f.rsplit('.', 1)[0] if kind != 'transform' else ''),
                                  'in_loop': in_loop, 'guards': list(guards),
                                  'kws': [(kw.arg or '**', ast.unparse(kw.value)) for kw in n.keywords],
                                  'line': n.lineno})
            for c in ast.iter_child_nodes(n):
                if not isinstance(c, (ast.stmt,)) or c is node:
                    stack.append(c)

    counters = {}
    for top in tree.body:
        if isinstance(top, ast.ClassDef):
            for item in top.body:
                if isinstance(item, ast.FunctionDef):
                    c = {}
                    walk(item, top.name + '.' + item.name, False, [], c)
        elif isinstance(top, ast.FunctionDef):
            c = {}
            walk(top, top.name, False, [], c)
    sites = [s_ for s_ in sites if not s_['fn'].startswith('_CombinedPixelTransform')]
    if not sites:
        raise Unsupported('no construction site of _CombinedPixelTransform found in image.py')
    sites.sort(key=lambda s_: s_['line'])
    rows = []
    for s_ in sites:
        kws = ', '.join(f'({_lean_str(k)}, {_lean_str(v)})' for k, v in s_['kws'])
        gs = ', '.join(_lean_str(g) for g in s_['guards'])
        rows.append(f'⟨{_lean_str(s_["fn"])}, {_lean_str(s_["kind"])}, {s_["ordinal"]}, {_lean_str(s_["target"])}, '
                    f'{"true" if s_["in_loop"] else "false"}, [{gs}], [{kws}]⟩')
    text = ('/-- a call site: enclosing function, what is called (`transform` = `_CombinedPixelTransform(...)`, `pixels_by_frame` = '
            '`self._get_pixels_by_frame(...)`, `total_pixel_matrix` = `self.get_total_pixel_matrix(...)`), ordinal inside the function, first argument / receiver, whether inside a loop, the '
            'enclosing `if` tests (`not ` = else branch), keyword arguments as (name, value expression) -/\n'
            'structure CallSite where\n  fn : String\n  kind : String\n  ordinal : Nat\n  target : String\n  inLoop : Bool\n'
            '  guards : List String\n  kws : List (String × String)\n  deriving DecidableEq, Repr\n\n'
            '/-- every construction site of the pixel transform in image.py, in source order -/\n'
            'def cptCallSites : List CallSite :=\n  [' + ',\n   '.join(rows) + ']')
    import hashlib
    sha = hashlib.sha256(repr([(s_['fn'], s_['kind'], s_['ordinal'], s_['target'], s_['in_loop'], s_['guards'], s_['kws']) for s_ in sites]).encode()).hexdigest()
    return text, sha


def build_T6i(tree):
    """whether the presentation stage inverts: PresentationLUTShape, else MONOCHROME1"""
    fn = _init(tree)
    hits = _walk_ifs(fn, lambda n: ast.unparse(n.test) == 'apply_presentation_lut'
                     and any('PresentationLUTShape' in ast.unparse(x) for x in n.body))
    if len(hits) != 1:
        raise Unsupported('presentation-shape block not found')
    node = hits[0]

    class R(ast.NodeTransformer):
        def visit_Compare(self, n):
            if ast.unparse(n) == "'PresentationLUTShape' in image":
                return ast.copy_location(ast.Name(id='has_shape', ctx=ast.Load()), n)
            return self.generic_visit(n)
    body = [R().visit(copy.deepcopy(st)) for st in node.body]
    stmts = [ast.parse('invert = False').body[0], ast.If(test=ast.Name(id='apply_presentation_lut', ctx=ast.Load()), body=body, orelse=[]),
             _ret('invert')]
    for st in stmts:
        ast.fix_missing_locations(st)
    # the variable must start as False before the block
    init = [n for n in ast.walk(fn) if isinstance(n, ast.Assign) and ast.unparse(n) == 'invert = False']
    if not init:
        raise Unsupported('invert is no longer initialised to False')
    text = translate_block(stmts, 'presentationInverts', [('apply_presentation_lut', 'bool'), ('has_shape', 'bool')],
                           {'image.PresentationLUTShape': ('str', 'shape'), 'image.PhotometricInterpretation': ('str', 'photometric')},
                           doc='`_CombinedPixelTransform.__init__`: does the presentation stage invert (`has_shape`: PresentationLUTShape present)')
    return text, span_sha(node.body)


TARGETS = {
    'T6i': {'file': 'image.py', 'build': build_T6i},
    'T6h': {'file': 'image.py', 'build': build_T6h},
    'T6g': {'file': 'pixels.py', 'build': build_T6g},
    'T6a': {'file': 'image.py', 'build': build_T6a},
    'T6b': {'file': 'image.py', 'build': build_T6b},
    'T6c': {'file': 'image.py', 'build': build_T6c},
    'T6d': {'file': 'pixels.py', 'build': build_T6d},
    'T6e': {'file': 'pixels.py', 'build': build_T6e},
    'T6f': {'file': 'image.py', 'build': build_T6f},
}
