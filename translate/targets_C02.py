"""Translation targets owned by C02 (read side of seg/sop.py).

T8   `_get_unsigned_dtype`: the thresholds.  numpy dtypes are rendered as integer codes (see `DT`).
T8b  head of `Segmentation._get_pixels_by_seg_frame`: the largest output value (`max_output_val`), whether the
     result is rescaled (`will_be_rescaled`) and the output dtype chosen when the caller passes none.
T8c  LABELMAP branch of `_get_pixels_by_seg_frame`: `need_remap` and the intermediate dtype.
T8d  BINARY/FRACTIONAL branch: intermediate dtype, the float-dtype requirement of a rescaled read and the refusal
     to combine a FRACTIONAL segmentation without rescaling.
T8e  LABELMAP branch, `if need_remap:`: size and dtype of the remapping table and the value of one cell (both loops).
T8f  `get_pixels_by_source_frame`: the checks every requested source frame number must pass.
T8g  `_check_numpy_value_representation`: dispatch on the dtype kind and comparison with the dtype's largest value.
T8h  effect summaries (rebinding vs in-place, sharing of right-hand sides) of the three functions a read runs through.

dtype codes (shared with Model/SegRead.lean `DType.ofCode`): uintN -> N, intN -> 100+N, floatN -> 200+N, bool -> 1.

numpy calls on the request arrays are replaced by *parameters* whose meaning is fixed by the text that is replaced
(checked verbatim here, computed by the hand-written model in `SegRead.lean` and exercised by the correspondence):
  segment_numbers.shape[0], len(segment_numbers)  -> nRequested
  segment_numbers.max()                           -> maxRequested
  len(np.setxor1d(segment_numbers, self.segment_numbers)) -> nXor   (size of the symmetric difference)
  np.array_equal(segment_numbers, np.arange(1, E)) -> (nRequested == max(E - 1, 0) and requestedIsOneToN)
      (`arange(1, E)` has max(E-1, 0) elements 1, 2, ...; requestedIsOneToN says segment_numbers[i] == i + 1 for all i)
Calls of `_get_unsigned_dtype` are inlined from the *current* AST of that function.
"""
from __future__ import annotations

import ast
import copy

from py2lean import Unsupported, find_func, span_sha, strip_doc, translate_block

DT = {'np.uint8': 8, 'np.uint16': 16, 'np.uint32': 32, 'np.uint64': 64, 'np.int8': 108, 'np.int16': 116, 'np.int32': 132,
      'np.int64': 164, 'np.float32': 232, 'np.float64': 264, 'np.bool_': 1}


def _norm(node):
    return ''.join(ast.unparse(node).split())


class _DtypeLit(ast.NodeTransformer):
    """`np.dtype(X)` -> X ; `np.uint8` ... -> integer code"""
    def visit_Call(self, node):
        node = self.generic_visit(node)
        if isinstance(node, ast.Call) and ast.unparse(node.func) in ('np.dtype', 'numpy.dtype') and len(node.args) == 1 \
                and not node.keywords:
            return node.args[0]
        return node

    def visit_Attribute(self, node):
        txt = ast.unparse(node)
        if txt in DT:
            return ast.copy_location(ast.Constant(value=DT[txt]), node)
        return self.generic_visit(node)


def _clean(stmts):
    out = [_DtypeLit().visit(copy.deepcopy(s)) for s in stmts]
    for s in out:
        ast.fix_missing_locations(s)
    return out


def _unsigned_body(tree):
    fn = find_func(tree, '_get_unsigned_dtype')
    if [a.arg for a in fn.args.args] != ['max_val']:
        raise Unsupported('_get_unsigned_dtype no longer takes exactly (max_val)')
    return fn, strip_doc(fn.body)


def build_T8(tree):
    fn, body = _unsigned_body(tree)
    text = translate_block(_clean(body), 'unsignedDtype', [('max_val', 'int')], {},
                           doc='`seg.sop._get_unsigned_dtype` (whole body); result = dtype code (uintN -> N)')
    return text, span_sha(body)


def _inline_unsigned(tree, arg):
    """Expression for `_get_unsigned_dtype(arg)` built from the current AST of the function, which must have the
    shape  if/elif/else assigning one variable, then `return` of that variable."""
    fn, body = _unsigned_body(tree)
    body = _clean(body)
    if len(body) != 2 or not isinstance(body[0], ast.If) or not isinstance(body[1], ast.Return) \
            or not isinstance(body[1].value, ast.Name):
        raise Unsupported('_get_unsigned_dtype is no longer an if-chain followed by a return')
    var = body[1].value.id

    def conv(stmts):
        if len(stmts) == 1 and isinstance(stmts[0], ast.Assign) and len(stmts[0].targets) == 1 \
                and isinstance(stmts[0].targets[0], ast.Name) and stmts[0].targets[0].id == var:
            return stmts[0].value
        if len(stmts) == 1 and isinstance(stmts[0], ast.If):
            i = stmts[0]
            return ast.IfExp(test=i.test, body=conv(i.body), orelse=conv(i.orelse))
        raise Unsupported('_get_unsigned_dtype branch is not a single assignment')
    expr = conv([body[0]])

    class Sub(ast.NodeTransformer):
        def visit_Name(self, node):
            if node.id == 'max_val':
                return copy.deepcopy(arg)
            return node
    return Sub().visit(copy.deepcopy(expr))


class _InlineUnsigned(ast.NodeTransformer):
    def __init__(self, tree):
        self.tree = tree
        self.count = 0

    def visit_Call(self, node):
        node = self.generic_visit(node)
        if isinstance(node, ast.Call) and ast.unparse(node.func) == '_get_unsigned_dtype' and len(node.args) == 1:
            self.count += 1
            return _inline_unsigned(self.tree, node.args[0])
        return node


def _seg_frame(tree):
    return find_func(tree, 'Segmentation._get_pixels_by_seg_frame')


def _top_if(fn, pred, what):
    for s in fn.body:
        if isinstance(s, ast.If) and pred(_norm(s.test)):
            return s
    raise Unsupported(f'{what} not found at the top level of _get_pixels_by_seg_frame')


def _top_assign(fn, name):
    for s in fn.body:
        if isinstance(s, ast.Assign) and len(s.targets) == 1 and isinstance(s.targets[0], ast.Name) and s.targets[0].id == name:
            return s
    raise Unsupported(f'assignment to {name} not found at the top level of _get_pixels_by_seg_frame')


ATTR_HEAD = {
    'segment_numbers.shape[0]': ('int', 'nRequested'),
    'len(segment_numbers)': ('int', 'nRequested'),
    'segment_numbers.max()': ('int', 'maxRequested'),
    'self.segmentation_type == SegmentationTypeValues.FRACTIONAL': ('bool', 'isFractional'),
    'self.MaximumFractionalValue': ('int', 'mfv'),
}


def build_T8b(tree):
    fn = _seg_frame(tree)
    i_max = _top_if(fn, lambda t: t == 'combine_segments', '`if combine_segments:` (max_output_val)')
    a_resc = _top_assign(fn, 'will_be_rescaled')
    i_dt = _top_if(fn, lambda t: t == 'dtypeisNone', '`if dtype is None:`')
    order = [fn.body.index(i_max), fn.body.index(a_resc), fn.body.index(i_dt)]
    if order != sorted(order):
        raise Unsupported('max_output_val / will_be_rescaled / dtype default no longer in this order')
    # the capacity check must still be applied to exactly these two quantities
    if not any(isinstance(s, ast.Expr) and _norm(s) == '_check_numpy_value_representation(max_output_val,dtype)' for s in fn.body):
        raise Unsupported('_check_numpy_value_representation(max_output_val, dtype) is no longer called')
    block = [i_max, a_resc, i_dt]
    inl = _InlineUnsigned(tree)
    stmts = [inl.visit(s) for s in _clean(block)]
    stmts.append(ast.parse('return (max_output_val, will_be_rescaled, dtype)').body[0])
    for s in stmts:
        ast.fix_missing_locations(s)
    text = translate_block(
        stmts, 'readHead',
        [('combine_segments', 'bool'), ('relabel', 'bool'), ('rescale_fractional', 'bool'), ('dtype', 'optint')], ATTR_HEAD,
        doc='head of `_get_pixels_by_seg_frame`: (max_output_val, will_be_rescaled, output dtype code); the capacity check '
            '`_check_numpy_value_representation(max_output_val, dtype)` follows')
    return text, span_sha(block) + span_sha(_unsigned_body(tree)[1])[:8]


class _ArrayEqual(ast.NodeTransformer):
    """np.array_equal(segment_numbers, <name bound to np.arange(1, E)>)  ->  (nReq == max(E - 1, 0) and requestedIsOneToN)"""
    def __init__(self, arange_of):
        self.arange_of = arange_of
        self.count = 0

    def visit_Call(self, node):
        node = self.generic_visit(node)
        if isinstance(node, ast.Call) and ast.unparse(node.func) in ('np.array_equal', 'numpy.array_equal') and len(node.args) == 2:
            a, b = node.args
            if ast.unparse(a) == 'segment_numbers' and isinstance(b, ast.Name) and b.id in self.arange_of:
                e = self.arange_of[b.id]
                self.count += 1
                src = f'(len(segment_numbers) == max(({ast.unparse(e)}) - 1, 0) and requested_is_one_to_n)'
                return ast.parse(src, mode='eval').body
            raise Unsupported('np.array_equal with unexpected arguments: ' + ast.unparse(node))
        return node


def build_T8c(tree):
    fn = _seg_frame(tree)
    lm = _top_if(fn, lambda t: t == 'self.segmentation_type==SegmentationTypeValues.LABELMAP', 'LABELMAP branch')
    body = lm.body
    first = body[0]
    if not (isinstance(first, ast.If) and _norm(first.test) == 'apply_palette_color_lut'):
        raise Unsupported('LABELMAP branch no longer starts with `if apply_palette_color_lut:`')
    second = body[1]
    if not (isinstance(second, ast.Assign) and _norm(second.targets[0]) == 'intermediate_dtype'):
        raise Unsupported('LABELMAP branch: `intermediate_dtype = ...` no longer follows the need_remap decision')
    # the frames must still be read with that dtype and remapped iff need_remap
    rest = ''.join(_norm(s) for s in body[2:])
    for needle in ('dtype=intermediate_dtype', 'ifneed_remap:', 'out_array=remapping[out_array]'):
        if needle not in rest:
            raise Unsupported(f'LABELMAP branch: `{needle}` not found after the decision')
    dec = copy.deepcopy(first)

    # drop the palette bookkeeping, record what arange() each name is bound to
    arange_of = {}

    class Strip(ast.NodeTransformer):
        def visit_Assign(self, node):
            t = node.targets[0]
            if isinstance(t, ast.Name) and t.id == 'remove_palette_color_values':
                return ast.Pass()
            if isinstance(t, ast.Name) and isinstance(node.value, ast.Call) and ast.unparse(node.value.func) in ('np.arange', 'numpy.arange'):
                a = node.value.args
                if len(a) == 2 and isinstance(a[0], ast.Constant) and a[0].value == 1 and not node.value.keywords:
                    arange_of[t.id] = a[1]
                    return ast.Pass()
                raise Unsupported('np.arange with unexpected arguments: ' + ast.unparse(node))
            return node
    dec = Strip().visit(dec)
    ae = _ArrayEqual(arange_of)
    dec = ae.visit(dec)
    inl = _InlineUnsigned(tree)
    stmts = [inl.visit(s) for s in _clean([dec, second])]
    stmts.append(ast.parse('return (need_remap, intermediate_dtype)').body[0])
    for s in stmts:
        ast.fix_missing_locations(s)
    attrs = {
        'len(segment_numbers)': ('int', 'nRequested'),
        'len(np.setxor1d(segment_numbers, self.segment_numbers))': ('int', 'nXor'),
        'requested_is_one_to_n': ('bool', 'requestedIsOneToN'),
        'self.BitsStored': ('int', 'bitsStored'),
    }
    text = translate_block(
        stmts, 'labelmapDecision',
        [('apply_palette_color_lut', 'bool'), ('combine_segments', 'bool'), ('relabel', 'bool'), ('dtype', 'int')], attrs,
        doc='LABELMAP branch of `_get_pixels_by_seg_frame`: (need_remap, dtype code the stored frames are first read into)')
    return text, span_sha([first, second]) + span_sha(_unsigned_body(tree)[1])[:8]


def build_T8d(tree):
    fn = _seg_frame(tree)
    i_resc = _top_if(fn, lambda t: t == 'will_be_rescaled', '`if will_be_rescaled:` (intermediate dtype)')
    i_comb = None
    for s in fn.body[fn.body.index(i_resc) + 1:]:
        if isinstance(s, ast.If) and _norm(s.test) == 'combine_segments':
            i_comb = s
    if i_comb is None:
        raise Unsupported('`if combine_segments:` of the BINARY/FRACTIONAL branch not found')
    guard = i_comb.body[0]
    if not (isinstance(guard, ast.If) and 'FRACTIONAL' in _norm(guard.test)):
        raise Unsupported('refusal to combine an unrescaled FRACTIONAL segmentation not found')
    stmts = _clean([i_resc, guard])
    stmts.append(ast.parse('return intermediate_dtype').body[0])
    for s in stmts:
        ast.fix_missing_locations(s)
    # `combine_segments` guards the refusal: wrap it
    wrapped = [stmts[0], ast.If(test=ast.Name(id='combine_segments', ctx=ast.Load()), body=[stmts[1]], orelse=[]), stmts[2]]
    for s in wrapped:
        ast.fix_missing_locations(s)
    attrs = {
        'self.segmentation_type == SegmentationTypeValues.FRACTIONAL': ('bool', 'isFractional'),
        "dtype.kind != 'f'": ('bool', 'dtypeNotFloat'),
    }
    text = translate_block(
        wrapped, 'stackDecision',
        [('will_be_rescaled', 'bool'), ('combine_segments', 'bool'), ('rescale_fractional', 'bool'), ('dtype', 'int')], attrs,
        doc='BINARY/FRACTIONAL branch of `_get_pixels_by_seg_frame`: dtype code the frames are read into; refusals of a '
            'non-float dtype for a rescaled read and of combining an unrescaled FRACTIONAL segmentation')
    return text, span_sha([i_resc, guard])


def build_T8e(tree):
    """LABELMAP branch, `if need_remap:` — the remapping table, one cell at a time.

    `remapping = np.zeros(SIZE, dtype=DT)` followed by `for s in range(E): remapping[s] = V` is rendered as
    `entry = 0` and `entry = V if 0 <= s < E else entry` for a symbolic cell index `s` (a cell the loop does not
    reach keeps the zero of `np.zeros`); the result is (SIZE, DT, entry).  The table must still be applied as
    `out_array = remapping[out_array]`."""
    fn = _seg_frame(tree)
    lm = _top_if(fn, lambda t: t == 'self.segmentation_type==SegmentationTypeValues.LABELMAP', 'LABELMAP branch')
    nr = None
    for st in lm.body:
        if isinstance(st, ast.If) and _norm(st.test) == 'need_remap':
            nr = st
    if nr is None or nr.orelse:
        raise Unsupported('`if need_remap:` (without else) not found in the LABELMAP branch')
    body = copy.deepcopy(nr.body)
    if not (isinstance(body[-1], ast.Assign) and _norm(body[-1]) == 'out_array=remapping[out_array]'):
        raise Unsupported('the remapping is no longer applied as out_array = remapping[out_array]')
    out = []
    seen_zeros = False

    def conv_for(node):
        if not (isinstance(node.target, ast.Name) and node.target.id == 's' and isinstance(node.iter, ast.Call)
                and ast.unparse(node.iter.func) == 'range' and len(node.iter.args) == 1 and not node.orelse
                and len(node.body) == 1 and isinstance(node.body[0], ast.Assign)
                and _norm(node.body[0].targets[0]) == 'remapping[s]'):
            raise Unsupported('remapping loop is no longer `for s in range(E): remapping[s] = V`')
        e = ast.unparse(node.iter.args[0])
        v = ast.unparse(node.body[0].value)
        return ast.parse(f'entry = (({v}) if (0 <= s and s < ({e})) else entry)').body[0]

    def conv(stmts):
        nonlocal seen_zeros
        res = []
        for st in stmts:
            if isinstance(st, ast.Assign) and _norm(st.targets[0]) == 'remapping':
                v = st.value
                if not (isinstance(v, ast.Call) and ast.unparse(v.func) in ('np.zeros', 'numpy.zeros') and len(v.args) == 1
                        and len(v.keywords) == 1 and v.keywords[0].arg == 'dtype'):
                    raise Unsupported('remapping is no longer np.zeros(SIZE, dtype=DT)')
                seen_zeros = True
                res.append(ast.parse(f'table_len = {ast.unparse(v.args[0])}').body[0])
                res.append(ast.parse(f'table_dtype = {ast.unparse(v.keywords[0].value)}').body[0])
                res.append(ast.parse('entry = 0').body[0])
            elif isinstance(st, ast.For):
                if not seen_zeros:
                    raise Unsupported('remapping loop before the table is created')
                res.append(conv_for(st))
            elif isinstance(st, ast.If):
                st.body = conv(st.body)
                st.orelse = conv(st.orelse)
                res.append(st)
            else:
                res.append(st)
        return res
    stmts = conv(body[:-1])
    stmts.append(ast.parse('return (table_len, table_dtype, entry)').body[0])
    stmts = _clean(stmts)
    attrs = {
        'max(self.segment_numbers)': ('int', 'maxStored'),
        "self.get('PixelPaddingValue', 0)": ('int', 'paddingValue'),
        's in segment_numbers': ('bool', 'sRequested'),
        'np.nonzero(segment_numbers == s)[0][0]': ('int', 'firstIndex'),
    }
    text = translate_block(
        stmts, 'remapCell',
        [('combine_segments', 'bool'), ('relabel', 'bool'), ('dtype', 'int'), ('intermediate_dtype', 'int'), ('s', 'int')], attrs,
        doc='LABELMAP branch, `if need_remap:`: (length of the remapping table, its dtype code, the value of cell `s`)')
    return text, span_sha(nr.body)


TARGETS = {
    'T8e': {'file': 'seg/sop.py', 'build': build_T8e},
    'T8': {'file': 'seg/sop.py', 'build': build_T8},
    'T8b': {'file': 'seg/sop.py', 'build': build_T8b},
    'T8c': {'file': 'seg/sop.py', 'build': build_T8c},
    'T8d': {'file': 'seg/sop.py', 'build': build_T8d},
}


def build_T8f(tree):
    """`get_pixels_by_source_frame`: what is asked of every requested source frame number `f` — positive, and (unless
    the caller asserts that missing frames are empty) not above the highest referenced frame number."""
    fn = find_func(tree, 'Segmentation.get_pixels_by_source_frame')
    pos = None
    miss = None
    for st in fn.body:
        if isinstance(st, ast.If):
            t = _norm(st.test)
            if t.startswith('notall((') and t.endswith('forfinsource_frame_numbers))'):
                pos = st
            if t == 'notassert_missing_frames_are_empty':
                miss = st
    if pos is None or miss is None:
        raise Unsupported('frame number checks of get_pixels_by_source_frame not found')
    gen = pos.test.operand.args[0]
    if not (isinstance(gen, ast.GeneratorExp) and len(gen.generators) == 1 and not gen.generators[0].ifs
            and isinstance(gen.generators[0].target, ast.Name) and gen.generators[0].target.id == 'f'):
        raise Unsupported('positivity check is no longer all(E for f in source_frame_numbers)')
    s1 = ast.If(test=ast.UnaryOp(op=ast.Not(), operand=gen.elt), body=pos.body, orelse=[])
    loops = [x for x in miss.body if isinstance(x, ast.For)]
    if len(loops) != 1 or _norm(loops[0].iter) != 'source_frame_numbers' or not isinstance(loops[0].target, ast.Name) \
            or loops[0].target.id != 'f' or miss.orelse:
        raise Unsupported('missing-frame check is no longer a loop over source_frame_numbers')
    def nomsg(stmts):
        out = []
        for x in stmts:
            if isinstance(x, ast.Assign) and isinstance(x.value, (ast.JoinedStr, ast.Constant)) and \
                    (isinstance(x.value, ast.JoinedStr) or isinstance(x.value.value, str)):
                continue          # error message text
            if isinstance(x, ast.If):
                x = ast.If(test=x.test, body=nomsg(x.body), orelse=nomsg(x.orelse))
            out.append(x)
        return out
    inner = nomsg([x for x in miss.body if not isinstance(x, ast.For)] + loops[0].body)
    s2 = ast.If(test=miss.test, body=inner, orelse=[])
    # a refused number must not be swallowed later: the numbers reach the frame query unchanged
    if "'ReferencedFrameNumber':list(source_frame_numbers)" not in ''.join(_norm(x) for x in fn.body):
        raise Unsupported('source_frame_numbers no longer reach the stack query unchanged')
    stmts = [s1, s2, ast.parse('return f').body[0]]
    stmts = [copy.deepcopy(x) for x in stmts]
    for x in stmts:
        ast.fix_missing_locations(x)
    text = translate_block(
        stmts, 'frameAdmitted', [('f', 'int'), ('assert_missing_frames_are_empty', 'bool')],
        {'self._get_max_referenced_frame_number()': ('int', 'maxReferenced')},
        doc='`get_pixels_by_source_frame`: the checks every requested source frame number must pass (result = the number)')
    return text, span_sha([pos, miss])


TARGETS['T8f'] = {'file': 'seg/sop.py', 'build': build_T8f}


# ---------------------------------------------------------------- effect summaries (purity of reads)
_STORED_ATTRS = ('self.pixel_array', 'self._pixel_array', 'self.PixelData')
_STORED_CALLS = ('self.get_stored_frame', 'self.get_stored_frames', 'self.get_frame', 'self.get_frames')
_VIEW_METHODS = ('reshape', 'view', 'squeeze', 'ravel', 'transpose', 'swapaxes', '__getitem__')
_FRESH_METHODS = ('astype', 'flatten', 'copy', 'tolist', 'max', 'min', 'sum', 'all', 'any', 'item', 'tobytes')
_FRESH_CALLS = ('list', 'set', 'sorted', 'dict', 'np.array', 'UID', 'np.zeros', 'np.ones', 'np.empty', 'np.eye', 'np.arange', 'np.maximum', 'np.minimum', 'np.isin', 'np.unique',
                'np.logical_and', 'np.logical_or', 'np.any', 'np.all', 'np.setxor1d', 'np.array_equal', 'np.nonzero',
                'np.dtype', 'np.concatenate', 'np.stack', 'np.iinfo', 'np.finfo', 'len', 'max', 'min', 'range', 'int', 'float',
                'bool', 'tuple', 'isinstance', 'decode_frame', 'apply_lut', 'apply_voi_window', '_get_unsigned_dtype',
                'ValueError', 'RuntimeError', 'TypeError', 'IndexError', 'nullcontext')
_MUTATING_METHODS = ('sort', 'fill', 'put', 'resize', 'itemset', 'setfield', 'setflags', 'partition', 'byteswap', 'append',
                     'extend', 'insert', 'remove', 'pop', 'clear', 'update', 'setdefault', 'reverse')
_MUTATING_CALLS = ('np.copyto', 'np.put', 'np.place', 'np.putmask', 'np.fill_diagonal')
_VIEW_CALLS = ('np.asarray', 'np.atleast_1d', 'np.atleast_2d', 'np.atleast_3d', 'np.squeeze', 'np.reshape', 'np.transpose')


def _names(node):
    return sorted({n.id for n in ast.walk(node) if isinstance(n, ast.Name)})


def _classify(e, fresh_self_calls):
    """Right-hand side -> ('stored' | 'view' | 'unknown' | 'fresh', names)."""
    txt = ast.unparse(e)
    if isinstance(e, (ast.Constant, ast.JoinedStr, ast.BinOp, ast.UnaryOp, ast.BoolOp, ast.Compare, ast.ListComp, ast.SetComp,
                      ast.DictComp, ast.GeneratorExp, ast.Dict, ast.Set)):
        return ('fresh', [])            # arithmetic / comparisons / comprehensions build new objects
    if isinstance(e, ast.IfExp):
        a, b = _classify(e.body, fresh_self_calls), _classify(e.orelse, fresh_self_calls)
        order = ['fresh', 'view', 'unknown', 'stored']
        kind = max(a[0], b[0], key=order.index)
        return (kind, sorted(set(a[1]) | set(b[1])))
    if isinstance(e, (ast.Tuple, ast.List)):
        parts = [_classify(x, fresh_self_calls) for x in e.elts]
        if all(p[0] == 'fresh' for p in parts):
            return ('fresh', [])
        if any(p[0] == 'stored' for p in parts):
            return ('stored', [])
        return ('unknown', sorted({n for p in parts for n in p[1]}))
    if isinstance(e, ast.Name):
        return ('view', [e.id])
    if isinstance(e, ast.Attribute):
        if txt in _STORED_ATTRS:
            return ('stored', [])
        if isinstance(e.value, ast.Name) and e.value.id != 'self' and e.attr in ('T', 'real', 'imag', 'flat'):
            return ('view', [e.value.id])
        return ('unknown', _names(e))
    if isinstance(e, ast.Subscript):
        base = _classify(e.value, fresh_self_calls)
        if base[0] == 'fresh':
            return ('fresh', [])        # indexing a new array
        if base[0] == 'stored':
            return ('stored', [])
        return (base[0] if base[0] == 'view' else 'unknown', base[1])
    if isinstance(e, ast.Call):
        f = ast.unparse(e.func)
        if f in _STORED_CALLS:
            return ('stored', [])
        if f in _FRESH_CALLS or f in fresh_self_calls:
            return ('fresh', [])
        if f in _VIEW_CALLS:
            return ('view', _names(ast.Tuple(elts=list(e.args), ctx=ast.Load())))
        if isinstance(e.func, ast.Attribute):
            recv = _classify(e.func.value, fresh_self_calls)
            if e.func.attr in _FRESH_METHODS:
                return ('fresh', [])
            if e.func.attr in _VIEW_METHODS:
                return recv if recv[0] != 'fresh' else ('fresh', [])
        return ('unknown', _names(e))
    return ('unknown', _names(e))


def _effects(fn, fresh_self_calls=()):
    """Every statement of `fn` that binds or writes a name, in source order: (target base name, inplace?, rhs class, names)."""
    out = []

    def base_of(t):
        while isinstance(t, (ast.Subscript, ast.Attribute)):
            t = t.value
        return t.id if isinstance(t, ast.Name) else None

    def add_target(t, inplace, cls):
        if isinstance(t, (ast.Tuple, ast.List)):
            for x in t.elts:
                add_target(x.value if isinstance(x, ast.Starred) else x, inplace, cls if cls[0] != 'view' else ('unknown', cls[1]))
            return
        b = base_of(t)
        if b is None:
            raise Unsupported('assignment target without a base name: ' + ast.unparse(t))
        out.append((b, inplace or not isinstance(t, ast.Name), cls[0], cls[1]))

    class V(ast.NodeVisitor):
        def visit_Assign(self, node):
            cls = _classify(node.value, fresh_self_calls)
            for t in node.targets:
                add_target(t, False, cls)
            self.visit(node.value)

        def visit_AnnAssign(self, node):
            if node.value is not None:
                add_target(node.target, False, _classify(node.value, fresh_self_calls))

        def visit_AugAssign(self, node):
            add_target(node.target, True, _classify(node.value, fresh_self_calls))
            self.visit(node.value)

        def visit_For(self, node):
            add_target(node.target, False, ('unknown', _names(node.iter)))
            for x in node.body + node.orelse:
                self.visit(x)

        def visit_With(self, node):
            for it in node.items:
                if it.optional_vars is not None:
                    add_target(it.optional_vars, False, _classify(it.context_expr, fresh_self_calls))
            for x in node.body:
                self.visit(x)

        def visit_NamedExpr(self, node):
            add_target(node.target, False, _classify(node.value, fresh_self_calls))

        def visit_Call(self, node):
            # `f(..., out=x)` writes into x; `x.sort()`, `x.fill(v)`, `np.copyto(x, y)` ... mutate x
            for kw in node.keywords:
                if kw.arg == 'out' and not (isinstance(kw.value, ast.Constant) and kw.value.value is None):
                    add_target(kw.value, True, ('fresh', []))
            f = node.func
            if isinstance(f, ast.Attribute) and f.attr in _MUTATING_METHODS and base_of(f.value) is not None:
                add_target(f.value, True, ('fresh', []))
            if ast.unparse(f) in _MUTATING_CALLS and node.args:
                add_target(node.args[0], True, ('fresh', []))
            self.generic_visit(node)

        def visit_FunctionDef(self, node):
            raise Unsupported('nested function in ' + fn.name)

        def visit_Lambda(self, node):
            return
    for st in strip_doc(fn.body):
        V().visit(st)
    return out


def _lean_effects(name, rows, doc, ids):
    def nid(n):
        if n not in ids:
            ids[n] = len(ids)
        return ids[n]

    def rhs(k, ns):
        lst = '[' + ', '.join(str(nid(n)) for n in ns) + ']'
        return {'stored': '.stored', 'fresh': '.fresh', 'view': f'.view {lst}', 'unknown': f'.unknown {lst}'}[k]
    lines = []
    for t, ip, k, ns in rows:
        what = ('in place ' if ip else '') + k + (' ' + ' '.join(ns) if ns else '')
        lines.append(f'⟨{nid(t)}, {"true" if ip else "false"}, {rhs(k, ns)}⟩' + f'   -- {t}: {what}')
    body = '\n   '.join((ln.split('   --')[0] + (',' if i < len(lines) - 1 else '') + '   --' + ln.split('   --')[1])
                        for i, ln in enumerate(lines))
    return f'/-- {doc} -/\ndef {name} : List HdVerif.Effects.Stmt :=\n  [{body}\n  ]'


def _returns(fn):
    return sorted({n for r in ast.walk(fn) if isinstance(r, ast.Return) and r.value is not None for n in _names(r.value)})


def build_T8h(tree):
    """Effect summaries of the three functions a segmentation read runs through: `Segmentation._get_pixels_by_seg_frame`
    (seg/sop.py), `_Image._get_pixels_by_frame` and `_CombinedPixelTransform.__call__` (image.py, read from the same tree):
    which statements rebind a name and which write in place, and what each right-hand side may share memory with.
    `self._get_pixels_by_frame(...)` is classed as returning a new array; the table of that function shows it
    (theorem `frame_loop_returns_new_array`)."""
    import os
    fn = _seg_frame(tree)
    repo = os.environ.get('HD_REPO', '/repo')
    itree = ast.parse(open(os.path.join(repo, 'src', 'highdicom', 'image.py')).read())
    f1 = find_func(itree, '_Image._get_pixels_by_frame')
    f2 = find_func(itree, '_CombinedPixelTransform.__call__')
    ids = {'self': 0}
    t0 = _lean_effects('segReadEffects', _effects(fn, fresh_self_calls=('self._get_pixels_by_frame',)),
                       'assignments of `Segmentation._get_pixels_by_seg_frame` (source order)', ids)
    t1 = _lean_effects('frameLoopEffects', _effects(f1), 'assignments of `_Image._get_pixels_by_frame` (source order)', ids)
    t2 = _lean_effects('frameTransformEffects', _effects(f2), 'assignments of `_CombinedPixelTransform.__call__` (source order)', ids)
    ret1 = _returns(f1)
    for n in ret1:
        if n not in ids:
            ids[n] = len(ids)
    names = sorted(ids, key=ids.get)
    t3 = '/-- names occurring in the `return` statements of `_get_pixels_by_frame` -/\ndef frameLoopReturns : List Nat := [' + \
        ', '.join(str(ids[n]) for n in ret1) + ']'
    t4 = '/-- the numbering of the names (index = number) -/\ndef effectNames : List String :=\n  [' + \
        ', '.join('"' + n + '"' for n in names) + ']'
    return '\n\n'.join([t0, t1, t2, t3, t4]), span_sha(strip_doc(fn.body)) + span_sha(strip_doc(f1.body))[:8] + \
        span_sha(strip_doc(f2.body))[:8]


TARGETS['T8h'] = {'file': 'seg/sop.py', 'build': build_T8h, 'imports': ['HdVerif.Model.Effects']}


class _InTuple(ast.NodeTransformer):
    """`x in (a, b, ...)` -> `x == a or x == b or ...` (literal tuples only)"""
    def visit_Compare(self, node):
        node = self.generic_visit(node)
        if len(node.ops) == 1 and isinstance(node.ops[0], ast.In) and isinstance(node.comparators[0], (ast.Tuple, ast.List)):
            elts = node.comparators[0].elts
            if elts and all(isinstance(e, ast.Constant) for e in elts):
                return ast.BoolOp(op=ast.Or(), values=[ast.Compare(left=copy.deepcopy(node.left), ops=[ast.Eq()], comparators=[e])
                                                       for e in elts])
        return node


def build_T8g(tree):
    """`_check_numpy_value_representation`: the dispatch on the dtype kind and the comparison with the dtype's largest
    value; `np.finfo(dtype).max` / `np.iinfo(dtype).max` are parameters (supplied by the model's table of maxima)."""
    fn = find_func(tree, '_check_numpy_value_representation')
    if [a.arg for a in fn.args.args] != ['max_val', 'dtype']:
        raise Unsupported('_check_numpy_value_representation no longer takes (max_val, dtype)')
    body = strip_doc(fn.body)
    stmts = []
    for st in _clean(body):
        if isinstance(st, ast.Assign) and _norm(st) == 'dtype=dtype':
            continue                      # dtype = np.dtype(dtype)
        stmts.append(_InTuple().visit(st))
    stmts.append(ast.parse('return max_val').body[0])
    for x in stmts:
        ast.fix_missing_locations(x)
    attrs = {'dtype.kind': ('str', 'kind'), 'np.finfo(dtype).max': ('int', 'finfoMax'), 'np.iinfo(dtype).max': ('int', 'iinfoMax')}
    text = translate_block(stmts, 'checkReprT', [('max_val', 'int')], attrs,
                           doc='`_check_numpy_value_representation` (whole body; result = the accepted value)')
    return text, span_sha(body)


TARGETS['T8g'] = {'file': 'seg/sop.py', 'build': build_T8g}


# ---------------------------------------------------------------- second pass: expressions of the hand-modelled loops
class _Subst(ast.NodeTransformer):
    """Replace sub-expressions by their unparsed text -> replacement source; map numpy element-wise functions to scalars."""
    def __init__(self, table, funcs=None):
        self.table = table
        self.funcs = funcs or {}

    def generic_visit(self, node):
        if isinstance(node, ast.expr):
            txt = ast.unparse(node)
            if txt in self.table:
                return ast.parse(self.table[txt], mode='eval').body
        return super().generic_visit(node)

    def visit_Call(self, node):
        txt = ast.unparse(node)
        if txt in self.table:
            return ast.parse(self.table[txt], mode='eval').body
        f = ast.unparse(node.func)
        node = super().generic_visit(node)
        if f in self.funcs:
            kind = self.funcs[f]
            if kind in ('max', 'min') and len(node.args) == 2 and not node.keywords:
                return ast.Call(func=ast.Name(id=kind, ctx=ast.Load()), args=node.args, keywords=[])
            if kind == 'and' and len(node.args) == 2 and not node.keywords:
                return ast.BoolOp(op=ast.And(), values=node.args)
            if kind == '+' and len(node.args) == 2 and not node.keywords:
                return ast.BinOp(left=node.args[0], op=ast.Add(), right=node.args[1])
            raise Unsupported(f'{f} used with unexpected arguments: {txt}')
        return node


_ELEMENTWISE = {'np.maximum': 'max', 'np.minimum': 'min', 'np.logical_and': 'and', 'np.add': '+'}


def _ret_expr(e):
    r = ast.Return(value=e)
    ast.fix_missing_locations(r)
    return r


def build_T8j(tree):
    """The combination loop of `_get_pixels_by_seg_frame` (BINARY / FRACTIONAL, `combine_segments`), one pixel at a time:
    which stored values a FRACTIONAL frame may hold, what they are divided by, the overlap test, the update.  The array
    operations are rendered for one pixel `p` of the frame and the pixel `o` of the output it meets
    (`pixel_array` -> p, `out_array[output_indexer]` -> o, `np.maximum/np.logical_and` -> max/and); the reductions
    (`.all()` over the frame's values, `np.any` over the pixels) and the order test - test - update are checked here.
    Model: `SegRead.combineStep`; bridge: Proofs/SegReadTie.lean."""
    fn = _seg_frame(tree)
    i_resc = _top_if(fn, lambda t: t == 'will_be_rescaled', '`if will_be_rescaled:`')
    comb = None
    for s in fn.body[fn.body.index(i_resc) + 1:]:
        if isinstance(s, ast.If) and _norm(s.test) == 'combine_segments':
            comb = s
    if comb is None:
        raise Unsupported('`if combine_segments:` of the BINARY/FRACTIONAL branch not found')
    loops = [s for s in comb.body if isinstance(s, ast.For)]
    if len(loops) != 1 or _norm(loops[0].iter) != 'indices_iterator':
        raise Unsupported('combination loop over indices_iterator not found')
    loop = loops[0]
    tnames = [e.id for e in loop.target.elts] if isinstance(loop.target, ast.Tuple) else []
    if tnames != ['frame_index', 'input_indexer', 'output_indexer', 'seg_n']:
        raise Unsupported(f'combination loop target changed: {tnames}')
    body = loop.body
    src = [_norm(s) for s in body]
    need = ['pix_value=intermediate_dtype.type(seg_n[0])', 'pixel_array=self.get_stored_frame(frame_index+1)',
            'pixel_array=pixel_array[input_indexer]']
    if src[:3] != need:
        raise Unsupported('combination loop no longer starts with pix_value / get_stored_frame / input_indexer')
    frac = [s for s in body if isinstance(s, ast.If) and _norm(s.test) == 'self.segmentation_type==SegmentationTypeValues.FRACTIONAL']
    ovl = [s for s in body if isinstance(s, ast.If) and _norm(s.test) == 'notskip_overlap_checks']
    upd = [s for s in body if isinstance(s, ast.Assign) and _norm(s.targets[0]) == 'out_array[output_indexer]']
    if len(frac) != 1 or len(ovl) != 1 or len(upd) != 1 or not (body.index(frac[0]) < body.index(ovl[0]) < body.index(upd[0])):
        raise Unsupported('combination loop: FRACTIONAL test, overlap test, update not found in this order')
    if len(body) != 6:
        raise Unsupported('combination loop has statements besides the six known ones')
    # ---- FRACTIONAL block
    fb = frac[0].body
    isb = fb[0]
    v = isb.value if isinstance(isb, ast.Assign) else None
    ok = (isinstance(v, ast.Call) and isinstance(v.func, ast.Attribute) and v.func.attr == 'all' and not v.args
          and isinstance(v.func.value, ast.Call) and ast.unparse(v.func.value.func) == 'np.isin'
          and _norm(v.func.value.args[0]) == 'np.unique(pixel_array)'
          and isinstance(v.func.value.args[1], ast.Call) and ast.unparse(v.func.value.args[1].func) == 'np.array'
          and isinstance(v.func.value.args[1].args[0], ast.List))
    if not ok or _norm(isb.targets[0]) != 'is_binary':
        raise Unsupported('is_binary is no longer np.isin(np.unique(pixel_array), np.array([...])).all()')
    allowed = v.func.value.args[1].args[0].elts
    if not (isinstance(fb[1], ast.If) and _norm(fb[1].test) == 'notis_binary' and isinstance(fb[1].body[0], ast.Raise)
            and 'ValueError' in ast.unparse(fb[1].body[0])):
        raise Unsupported('`if not is_binary: raise ValueError` not found')
    div = fb[2]
    if not (isinstance(div, ast.Assign) and _norm(div.targets[0]) == 'pixel_array'):
        raise Unsupported('division of the FRACTIONAL frame not found')
    sub = {'pixel_array': 'p', 'out_array[output_indexer]': 'o'}
    member = ast.BoolOp(op=ast.Or(), values=[ast.Compare(left=ast.Name(id='p', ctx=ast.Load()), ops=[ast.Eq()], comparators=[e])
                                             for e in allowed])
    attrs = {'self.MaximumFractionalValue': ('int', 'mfv')}
    t1 = translate_block([_ret_expr(member)], 'combBinaryValue', [('p', 'int')], attrs,
                         doc='combination loop: a stored value a FRACTIONAL frame may hold (member of the list given to np.isin)')
    t2 = translate_block([_ret_expr(_Subst(sub, _ELEMENTWISE).visit(copy.deepcopy(div.value)))], 'combDivide', [('p', 'int')], attrs,
                         doc='combination loop: the FRACTIONAL frame value after the division')
    # ---- overlap test
    ob = ovl[0].body
    if not (len(ob) == 1 and isinstance(ob[0], ast.If) and isinstance(ob[0].test, ast.Call) and ast.unparse(ob[0].test.func) == 'np.any'
            and len(ob[0].test.args) == 1 and isinstance(ob[0].body[0], ast.Raise) and 'RuntimeError' in ast.unparse(ob[0].body[0])):
        raise Unsupported('overlap test is no longer `if np.any(<elementwise>): raise RuntimeError`')
    t3 = translate_block([_ret_expr(_Subst(sub, _ELEMENTWISE).visit(copy.deepcopy(ob[0].test.args[0])))], 'combOverlapAt',
                         [('p', 'int'), ('o', 'int')], {}, doc='combination loop: the overlap test at one pixel (reduced with np.any)')
    # ---- update
    t4 = translate_block([_ret_expr(_Subst(sub, _ELEMENTWISE).visit(copy.deepcopy(upd[0].value)))], 'combUpdateAt',
                         [('p', 'int'), ('pix_value', 'int'), ('o', 'int')], {},
                         doc='combination loop: the new value of one output pixel')
    return '\n\n'.join([t1, t2, t3, t4]), span_sha(body)


TARGETS['T8j'] = {'file': 'seg/sop.py', 'build': build_T8j}


class _RemapReturns(ast.NodeTransformer):
    """return range(A, B) -> (1, A, B); return segment_numbers -> (2, 0, 0); return None -> (0, 0, 0)"""
    def visit_Return(self, node):
        v = node.value
        if v is None or (isinstance(v, ast.Constant) and v.value is None):
            src = '(0, 0, 0)'
        elif isinstance(v, ast.Name) and v.id == 'segment_numbers':
            src = '(2, 0, 0)'
        elif isinstance(v, ast.Call) and ast.unparse(v.func) == 'range' and len(v.args) == 2 and not v.keywords:
            src = f'(1, {ast.unparse(v.args[0])}, {ast.unparse(v.args[1])})'
        elif isinstance(v, ast.Call) and ast.unparse(v.func) == 'range' and len(v.args) == 1 and not v.keywords:
            src = f'(1, 0, {ast.unparse(v.args[0])})'
        else:
            raise Unsupported('_get_segment_remap_values returns something else: ' + ast.unparse(node))
        return ast.copy_location(ast.parse('return ' + src).body[0], node)


_READ_ENTRIES = ['get_pixels_by_source_instance', 'get_pixels_by_source_frame', 'get_volume',
                 'get_pixels_by_dimension_index_values', 'get_total_pixel_matrix']
_FORWARDED = ['segment_numbers', 'combine_segments', 'relabel', 'rescale_fractional', 'skip_overlap_checks', 'dtype']


def build_T8k(tree):
    """How a request reaches the frame loop: `_get_segment_remap_values` (which output value each requested segment gets),
    the default output channel of `_Image._prepare_channel_tables` (image.py, read from the same tree) and its pairing of
    output channel with requested value, and the options every read entry point hands to `_get_pixels_by_seg_frame`,
    to `_get_segment_remap_values` and to the channel table.  Model: `remapValues`, `chanTable`, `read` (the request is passed on
    unchanged); bridges in Proofs/SegReadTie.lean."""
    import os
    fn = find_func(tree, 'Segmentation._get_segment_remap_values')
    rv_body = strip_doc(fn.body)
    if rv_body and isinstance(rv_body[0], ast.If) and 'np.unique(segment_numbers)' in _norm(rv_body[0].test):
        rv_body = rv_body[1:]          # the check for repeated numbers is T8p's
    body = [_RemapReturns().visit(copy.deepcopy(s)) for s in rv_body]
    for s in body:
        ast.fix_missing_locations(s)
    t1 = translate_block(body, 'remapKind', [('combine_segments', 'bool'), ('relabel', 'bool')],
                         {'len(segment_numbers)': ('int', 'nRequested')},
                         doc='`_get_segment_remap_values`: (0,_,_) = None, (1,a,b) = range(a, b), (2,_,_) = the segment numbers themselves')
    repo = os.environ.get('HD_REPO', '/repo')
    itree = ast.parse(open(os.path.join(repo, 'src', 'highdicom', 'image.py')).read())
    pc = find_func(itree, '_Image._prepare_channel_tables')
    default = [n for n in ast.walk(pc) if isinstance(n, ast.Assign) and _norm(n.targets[0]) == 'output_channel_indices'
               and isinstance(n.value, ast.Call) and ast.unparse(n.value.func) == 'range']
    if len(default) != 1:
        raise Unsupported('_prepare_channel_tables: default `output_channel_indices = range(...)` not found')
    ra = default[0].value.args
    lo, hi = ('0', ast.unparse(ra[0])) if len(ra) == 1 else (ast.unparse(ra[0]), ast.unparse(ra[1]))
    t2 = translate_block([ast.parse(f'return ({lo}, {hi})').body[0]], 'defaultChannels', [('num_channels', 'int')], {},
                         doc='`_prepare_channel_tables`: output channels when no remapping is given: range(lo, hi)')
    zips = [n for n in ast.walk(pc) if isinstance(n, ast.Call) and ast.unparse(n.func) == 'zip']
    if len(zips) != 1 or [_norm(a) for a in zips[0].args] != ['output_channel_indices', '*channel_indices_dict.values()']:
        raise Unsupported('_prepare_channel_tables: rows are no longer zip(output_channel_indices, *values)')
    if "OutputChannelIndexINTEGERUNIQUENOTNULL" not in _norm(pc):
        raise Unsupported('_prepare_channel_tables: OutputChannelIndex is no longer the first, UNIQUE column')
    rows = []
    for name in _READ_ENTRIES:
        ef = find_func(tree, 'Segmentation.' + name)
        calls = [n for n in ast.walk(ef) if isinstance(n, ast.Call)]
        core = [c for c in calls if ast.unparse(c.func) in ('self._get_pixels_by_seg_frame', 'self.get_total_pixel_matrix')
                and any(k.arg == 'combine_segments' for k in c.keywords)]
        if not core:
            raise Unsupported(f'{name}: call of _get_pixels_by_seg_frame not found')
        for c in core:
            kws = {k.arg: ast.unparse(k.value) for k in c.keywords}
            for opt in _FORWARDED:
                if opt not in kws:
                    raise Unsupported(f'{name}: option {opt} is not handed on')
                rows.append((name, 'frames:' + opt, kws[opt]))
        rm = [c for c in calls if ast.unparse(c.func) == 'self._get_segment_remap_values']
        if len(rm) != 1:
            raise Unsupported(f'{name}: call of _get_segment_remap_values not found')
        args = [ast.unparse(a) for a in rm[0].args] + [''] * 3
        kws = {k.arg: ast.unparse(k.value) for k in rm[0].keywords}
        rows.append((name, 'remap:segment_numbers', kws.get('segment_numbers', args[0])))
        rows.append((name, 'remap:combine_segments', kws.get('combine_segments', args[1])))
        rows.append((name, 'remap:relabel', kws.get('relabel', args[2])))
        ch = [n for n in ast.walk(ef) if isinstance(n, ast.Dict) and len(n.keys) == 1 and isinstance(n.keys[0], ast.Constant)
              and n.keys[0].value == 'ReferencedSegmentNumber' and isinstance(n.values[0], (ast.Name, ast.Call))]
        if not ch:
            raise Unsupported(f'{name}: channel indices {{ReferencedSegmentNumber: ...}} not found')
        for c in ch:
            rows.append((name, 'channel:segment_numbers', ast.unparse(c.values[0])))
        it = [c for c in calls if ast.unparse(c.func) in ('self._iterate_indices_for_stack', 'self._iterate_indices_for_tiled_region')]
        for c in it:
            kws = {k.arg: ast.unparse(k.value) for k in c.keywords}
            rows.append((name, 'iterate:remap_channel_indices', kws.get('remap_channel_indices', '?')))
            rows.append((name, 'iterate:channel_indices', kws.get('channel_indices', '?')))
    drows = []
    for name in _READ_ENTRIES:
        ef = find_func(tree, 'Segmentation.' + name)
        a = ef.args
        pos = a.posonlyargs + a.args
        dmap = {x.arg: ast.unparse(dv) for x, dv in zip(pos[len(pos) - len(a.defaults):], a.defaults)}
        dmap.update({x.arg: ast.unparse(dv) for x, dv in zip(a.kwonlyargs, a.kw_defaults) if dv is not None})
        for opt in _FORWARDED + ['assert_missing_frames_are_empty']:
            if opt in dmap:
                drows.append((name, opt, dmap[opt]))
            elif opt != 'assert_missing_frames_are_empty':
                raise Unsupported(f'{name}: option {opt} has no default')
    t4 = ('/-- the default of every read option of every entry point: (entry point, keyword, default) -/\n'
          'def optionDefaults : List (String × String × String) :=\n  [' +
          ',\n   '.join('("%s", "%s", "%s")' % r for r in drows) + ']')
    t3 = ('/-- what every read entry point hands on: (entry point, receiver:parameter, argument expression) -/\n'
          'def forwarding : List (String × String × String) :=\n  [' +
          ',\n   '.join('("%s", "%s", "%s")' % (a, b, c.replace('"', '\\"')) for a, b, c in rows) + ']')
    return '\n\n'.join([t1, t2, t3, t4]), span_sha(strip_doc(fn.body)) + hashlib.sha256(repr(rows + drows).encode()).hexdigest()[:12]


import hashlib  # noqa: E402

TARGETS['T8k'] = {'file': 'seg/sop.py', 'build': build_T8k}


def build_T8m(tree):
    """What happens to the frames after they are read: LABELMAP one-hot expansion (`np.eye(SIZE)[values]`, columns from START
    on) and the FRACTIONAL rescaling (guard on the largest value, divisor).  Model: `oneHot`, the tail of `stackRead`."""
    fn = _seg_frame(tree)
    lm = _top_if(fn, lambda t: t == 'self.segmentation_type==SegmentationTypeValues.LABELMAP', 'LABELMAP branch')
    oh = [s for s in lm.body if isinstance(s, ast.If) and _norm(s.test) == 'notcombine_segments']
    if len(oh) != 1:
        raise Unsupported('LABELMAP branch: `if not combine_segments:` (one-hot) not found')
    eye = [n for n in ast.walk(oh[0]) if isinstance(n, ast.Subscript) and isinstance(n.value, ast.Call)
           and ast.unparse(n.value.func) == 'np.eye' and _norm(n.slice) == 'flat_array']
    if len(eye) != 1 or len(eye[0].value.args) != 1:
        raise Unsupported('one-hot is no longer np.eye(SIZE, dtype=...)[flat_array]')
    if not any(isinstance(s, ast.Assign) and _norm(s) == 'flat_array=out_array.flatten()' for s in oh[0].body):
        raise Unsupported('flat_array = out_array.flatten() not found')
    cut = [n for n in ast.walk(oh[0]) if isinstance(n, ast.Subscript) and _norm(n.value) == 'out_array'
           and isinstance(n.slice, ast.Tuple) and len(n.slice.elts) == 2 and isinstance(n.slice.elts[1], ast.Slice)]
    if len(cut) != 1 or _norm(cut[0].slice.elts[0]) != ':' or cut[0].slice.elts[1].upper is not None or cut[0].slice.elts[1].step is not None:
        raise Unsupported('background column is no longer removed as out_array[:, START:]')
    start = cut[0].slice.elts[1].lower or ast.Constant(value=0)
    shp = [s for s in oh[0].body if isinstance(s, ast.Assign) and _norm(s.targets[0]) == 'out_shape']
    if len(shp) != 1 or _norm(shp[0].value) != '(*shape,num_output_segments)':
        raise Unsupported('out_shape is no longer (*shape, num_output_segments)')
    t1 = translate_block([ast.parse(f'return ({ast.unparse(eye[0].value.args[0])}, {ast.unparse(start)})').body[0]], 'oneHotShape',
                         [('num_output_segments', 'int')], {},
                         doc='LABELMAP one-hot: (size of the identity matrix, first column kept)')
    # ---- rescaling
    tail = [s for s in ast.walk(fn) if isinstance(s, ast.If) and _norm(s.test) == 'rescale_fractional'
            and any(isinstance(x, ast.If) and 'FRACTIONAL' in _norm(x.test) for x in s.body)]
    if len(tail) != 1:
        raise Unsupported('`if rescale_fractional: if FRACTIONAL:` tail not found')
    inner = [x for x in tail[0].body if isinstance(x, ast.If)][0].body
    if len(inner) != 3 or not isinstance(inner[0], ast.If) or not isinstance(inner[1], ast.Assign) or not isinstance(inner[2], ast.Assign):
        raise Unsupported('rescaling tail is no longer guard / max_val / division')
    if _norm(inner[2]) != 'out_array=out_array.astype(dtype)/max_val' or _norm(inner[1].targets[0]) != 'max_val':
        raise Unsupported('rescaling is no longer out_array.astype(dtype) / max_val')
    blk = [copy.deepcopy(inner[0]), copy.deepcopy(inner[1]), ast.parse('return max_val').body[0]]
    for s in blk:
        ast.fix_missing_locations(s)
    t2 = translate_block(blk, 'rescaleGuard', [], {'out_array.max()': ('int', 'outMax'), 'self.MaximumFractionalValue': ('int', 'mfv')},
                         doc='FRACTIONAL rescaling: refusal on the largest value read, else the divisor')
    return t1 + '\n\n' + t2, span_sha(oh[0].body) + span_sha(inner)[:8]


TARGETS['T8m'] = {'file': 'seg/sop.py', 'build': build_T8m}



_ACCESSORS = ['segment_numbers', 'number_of_segments', 'get_segment_numbers', 'get_tracking_ids',
              'segmented_property_categories', 'segmented_property_types']


def build_T8n(tree):
    """The list-valued accessors of `Segmentation` hand out NEW lists: effect tables of `segment_numbers`, `number_of_segments`,
    `get_segment_numbers`, `get_tracking_ids`, `segmented_property_categories/types`, each `return e` rendered as an assignment
    of `e` to a result name.  Theorem `accessors_return_new_values`: no result name may refer to the object's state (a value
    kept on `self` and handed out could be edited by the caller) and no statement writes to the object."""
    ids = {'self': 0}
    rows, rets = [], []
    cls = find_func(tree, 'Segmentation')
    for name in _ACCESSORS:
        fn = [n for n in cls.body if isinstance(n, ast.FunctionDef) and n.name == name]
        if len(fn) != 1:
            raise Unsupported(f'accessor {name} not found')
        fn = fn[0]
        eff = [(f'{name}.{t}' if t != 'self' else t, ip, k, [f'{name}.{n}' if n != 'self' else n for n in ns])
               for t, ip, k, ns in _effects_allow_lambda(fn)]
        rname = f'{name}.<result>'
        for r in ast.walk(fn):
            if isinstance(r, ast.Return) and r.value is not None:
                k, ns = _classify(r.value, ())
                eff.append((rname, False, k, [f'{name}.{n}' if n != 'self' else n for n in ns]))
        rows += eff
        rets.append(rname)
    t0 = _lean_effects('accessorEffects', rows, 'assignments and returns of the list-valued accessors of `Segmentation`', ids)
    for n in rets:
        if n not in ids:
            ids[n] = len(ids)
    t1 = '/-- the result names of the accessors -/\ndef accessorResults : List Nat := [' + ', '.join(str(ids[n]) for n in rets) + ']'
    t2 = '/-- the numbering of the names (index = number) -/\ndef accessorNames : List String :=\n  [' + \
        ', '.join('"' + n + '"' for n in sorted(ids, key=ids.get)) + ']'
    return '\n\n'.join([t0, t1, t2]), hashlib.sha256(repr(rows).encode()).hexdigest()


def _effects_allow_lambda(fn):
    return _effects(fn)


TARGETS['T8n'] = {'file': 'seg/sop.py', 'build': build_T8n, 'imports': ['HdVerif.Model.Effects']}


def build_T8p(tree):
    """Validation of the requested segment numbers: no number may be requested twice — tested by `_get_segment_remap_values`,
    which every read entry point calls with the caller's `segment_numbers` before any query is opened (T8k checks that call in
    all five) — and every number must be one the object describes — tested at the head of `_get_pixels_by_seg_frame`, before
    the output value / dtype head (T8b).  `np.all(np.isin(segment_numbers, self.segment_numbers))`,
    `len(np.unique(segment_numbers))` and `len(segment_numbers)` are parameters (computed by the model: `List.all … contains`,
    `(uniq segs).length`, `segs.length`)."""
    fn = _seg_frame(tree)
    known = _top_if(fn, lambda t: 'np.isin(segment_numbers,self.segment_numbers)' in t, 'check of the requested numbers against the described ones')
    i_max = _top_if(fn, lambda t: t == 'combine_segments', '`if combine_segments:` (max_output_val)')
    if not fn.body.index(known) < fn.body.index(i_max):
        raise Unsupported('the validation of segment_numbers no longer precedes the output-value head')
    rv = find_func(tree, 'Segmentation._get_segment_remap_values')
    rbody = strip_doc(rv.body)
    if not (rbody and isinstance(rbody[0], ast.If) and 'np.unique(segment_numbers)' in _norm(rbody[0].test)):
        raise Unsupported('_get_segment_remap_values no longer starts with the check for repeated segment numbers '
                          '(it must come before any query: the UNIQUE constraint of the temporary channel table fires otherwise)')
    dup = rbody[0]
    for s_ in (known, dup):
        if s_.orelse or not (len(s_.body) == 1 and isinstance(s_.body[0], ast.Raise) and 'ValueError' in ast.unparse(s_.body[0])):
            raise Unsupported('validation of segment_numbers is no longer `if …: raise ValueError(…)`')
    stmts = [copy.deepcopy(dup), copy.deepcopy(known), ast.parse('return len(segment_numbers)').body[0]]
    for s_ in stmts:
        ast.fix_missing_locations(s_)
    attrs = {
        'np.all(np.isin(segment_numbers, self.segment_numbers))': ('bool', 'allKnown'),
        'len(np.unique(segment_numbers))': ('int', 'nDistinct'),
        'len(segment_numbers)': ('int', 'nRequested'),
    }
    text = translate_block(stmts, 'requestAdmitted', [], attrs,
                           doc='`_get_segment_remap_values` (first statement) + head of `_get_pixels_by_seg_frame`: the requested '
                               'numbers are pairwise different and all described (result = their count)')
    return text, span_sha([known, dup])


TARGETS['T8p'] = {'file': 'seg/sop.py', 'build': build_T8p}


def build_T8q(tree):
    """`_Image._check_indexing_with_source_frames` (image.py, read from the same tree): when reading by source instance / source
    frame is refused — TILED_FULL, spatial locations not stated as preserved (unless `ignore_spatial_locations`), a frame with
    several sources — and which of the five read entry points apply it, with which argument, before anything else."""
    import os
    repo = os.environ.get('HD_REPO', '/repo')
    itree = ast.parse(open(os.path.join(repo, 'src', 'highdicom', 'image.py')).read())
    fn = find_func(itree, '_Image._check_indexing_with_source_frames')
    if [a.arg for a in fn.args.args] != ['self', 'ignore_spatial_locations']:
        raise Unsupported('_check_indexing_with_source_frames no longer takes (ignore_spatial_locations)')
    body = [copy.deepcopy(s) for s in strip_doc(fn.body)]
    body.append(ast.parse('return ignore_spatial_locations').body[0])
    for s in body:
        ast.fix_missing_locations(s)
    attrs = {
        'self._is_tiled_full': ('bool', 'isTiledFull'),
        'self._locations_preserved is None': ('bool', 'locationsUnknown'),
        'self._locations_preserved == SpatialLocationsPreservedValues.NO': ('bool', 'locationsNotPreserved'),
        'self._single_source_frame_per_frame': ('bool', 'singleSourcePerFrame'),
    }
    t1 = translate_block(body, 'sourceIndexingAllowed', [('ignore_spatial_locations', 'bool')], attrs,
                         doc='`_Image._check_indexing_with_source_frames` (whole body; result = the flag)')
    rows = []
    for name in _READ_ENTRIES:
        ef = find_func(tree, 'Segmentation.' + name)
        b = strip_doc(ef.body)
        calls = [(i, n) for i, s in enumerate(b) for n in ast.walk(s)
                 if isinstance(n, ast.Call) and ast.unparse(n.func) == 'self._check_indexing_with_source_frames']
        if not calls:
            rows.append((name, 'none', ''))
            continue
        if len(calls) != 1 or calls[0][0] != 0 or not isinstance(b[0], ast.Expr):
            raise Unsupported(f'{name}: _check_indexing_with_source_frames is no longer the first statement')
        c = calls[0][1]
        arg = ast.unparse(c.args[0]) if c.args else {k.arg: ast.unparse(k.value) for k in c.keywords}.get('ignore_spatial_locations', '')
        rows.append((name, 'first', arg))
    t2 = ('/-- which read entry point applies the check, where, and with which argument -/\n'
          'def indexingChecked : List (String × String × String) :=\n  [' +
          ',\n   '.join('("%s", "%s", "%s")' % r for r in rows) + ']')
    return t1 + '\n\n' + t2, span_sha(strip_doc(fn.body)) + hashlib.sha256(repr(rows).encode()).hexdigest()[:12]


TARGETS['T8q'] = {'file': 'seg/sop.py', 'build': build_T8q}


def build_T8s(tree):
    """`segmented_property_categories` / `segmented_property_types` / `get_segment_description`: the shape of the loops —
    which attribute of the description is collected, which items are skipped, how membership is tested, what is appended; and
    for `get_segment_description` which attribute is compared and what happens when nothing matches.  Model:
    `SegMeta.propertyCategories`, `propertyTypes`, `getSegmentDescription`."""
    cls = find_func(tree, 'Segmentation')
    rows = []
    for name in ('segmented_property_categories', 'segmented_property_types'):
        fn = [n for n in cls.body if isinstance(n, ast.FunctionDef) and n.name == name]
        if len(fn) != 1:
            raise Unsupported(f'{name} not found')
        body = strip_doc(fn[0].body)
        if len(body) != 3 or not isinstance(body[0], ast.Assign) or not isinstance(body[1], ast.For) or not isinstance(body[2], ast.Return):
            raise Unsupported(f'{name} is no longer `acc = []; for …; return acc`')
        acc = _norm(body[0].targets[0])
        if _norm(body[0].value) != '[]' or _norm(body[2].value) != acc:
            raise Unsupported(f'{name}: accumulator is not an empty list that is returned')
        loop = body[1]
        if _norm(loop.iter) != 'self.SegmentSequence' or not isinstance(loop.target, ast.Name) or loop.orelse:
            raise Unsupported(f'{name}: loop is not over self.SegmentSequence')
        v = loop.target.id
        if len(loop.body) != 2 or not all(isinstance(x, ast.If) for x in loop.body):
            raise Unsupported(f'{name}: loop body is no longer skip-test + membership-test')
        skip, memb = loop.body
        if not (len(skip.body) == 1 and isinstance(skip.body[0], ast.Continue) and not skip.orelse):
            raise Unsupported(f'{name}: the skip test no longer `continue`s')
        t = memb.test
        if not (isinstance(t, ast.Compare) and len(t.ops) == 1 and isinstance(t.ops[0], (ast.NotIn, ast.In)) and not memb.orelse
                and len(memb.body) == 1 and isinstance(memb.body[0], ast.Expr) and isinstance(memb.body[0].value, ast.Call)):
            raise Unsupported(f'{name}: membership test changed')
        call = memb.body[0].value
        rows.append((name, 'skip', _norm(skip.test).replace(v + '.', 'desc.')))
        rows.append((name, 'test', ('not in' if isinstance(t.ops[0], ast.NotIn) else 'in') + ' ' + _norm(t.comparators[0]).replace(acc, 'acc')))
        rows.append((name, 'collect', _norm(t.left).replace(v + '.', 'desc.')))
        rows.append((name, 'do', _norm(call).replace(acc, 'acc').replace(v + '.', 'desc.')))
    fn = [n for n in cls.body if isinstance(n, ast.FunctionDef) and n.name == 'get_segment_description']
    if len(fn) != 1:
        raise Unsupported('get_segment_description not found')
    body = strip_doc(fn[0].body)
    if len(body) != 2 or not isinstance(body[0], ast.For) or not isinstance(body[1], ast.Raise):
        raise Unsupported('get_segment_description is no longer `for …: if …: return …` followed by `raise`')
    loop = body[0]
    if _norm(loop.iter) != 'self.SegmentSequence' or len(loop.body) != 1 or not isinstance(loop.body[0], ast.If) \
            or len(loop.body[0].body) != 1 or not isinstance(loop.body[0].body[0], ast.Return) or loop.body[0].orelse or loop.orelse:
        raise Unsupported('get_segment_description: loop body changed')
    v = loop.target.id
    rows.append(('get_segment_description', 'test', _norm(loop.body[0].test).replace(v + '.', 'desc.')))
    rows.append(('get_segment_description', 'do', 'return ' + _norm(loop.body[0].body[0].value).replace(v, 'desc')))
    exc = body[1].exc
    rows.append(('get_segment_description', 'else', 'raise ' + (ast.unparse(exc.func) if isinstance(exc, ast.Call) else ast.unparse(exc))))
    t = ('/-- the shape of the description accessors: (function, role, normalised source text) -/\n'
         'def descriptionAccessors : List (String × String × String) :=\n  [' +
         ',\n   '.join('("%s", "%s", "%s")' % (a, b, c.replace('\\', '\\\\').replace('"', '\\"')) for a, b, c in rows) + ']')
    return t, hashlib.sha256(repr(rows).encode()).hexdigest()


TARGETS['T8s'] = {'file': 'seg/sop.py', 'build': build_T8s}


# ---------------------------------------------------------------- state kept between reads
def _sql_kind(node, env):
    """Classify the SQL text an execute/executemany call is given: literal / f-string, or a name bound to one in `env`."""
    if isinstance(node, ast.Name) and node.id in env:
        node = env[node.id]
    if isinstance(node, ast.JoinedStr):
        txt = ''.join(v.value if isinstance(v, ast.Constant) else '{}' for v in node.values)
    elif isinstance(node, ast.Constant) and isinstance(node.value, str):
        txt = node.value
    else:
        raise Unsupported('SQL text of an execute call is not a (formatted) string literal: ' + ast.unparse(node))
    t = ' '.join(txt.split()).upper()
    if t.startswith('CREATE TABLE IF NOT EXISTS') or t.startswith('DROP TABLE IF EXISTS') or t.startswith('INSERT OR'):
        # a table that survives keeps its ROWS: the model's state (a table exists or does not) would no longer be enough
        raise Unsupported('conditional SQL statement in _generate_temp_tables (rows of a surviving table are not modelled): ' + txt[:60])
    for prefix, kind in (('DROP TABLE', 'drop'), ('CREATE TABLE', 'create'), ('INSERT INTO', 'insert'),
                         ('SELECT COUNT(*) FROM SQLITE_MASTER', 'exists?')):
        if t.startswith(prefix):
            return kind
    raise Unsupported('unknown SQL statement in _generate_temp_tables: ' + txt[:60])


def _temp_ops(stmts, env=None, state=None):
    """The database operations of a statement list, in order; `if <count of sqlite_master> > 0: DROP` is one guarded drop."""
    env = {} if env is None else env
    state = {'exists': None} if state is None else state
    ops = []
    exists_var = state['exists']
    for st in stmts:
        if isinstance(st, ast.Assign) and len(st.targets) == 1 and isinstance(st.targets[0], ast.Name):
            env[st.targets[0].id] = st.value
            calls = [n for n in ast.walk(st.value) if isinstance(n, ast.Call) and isinstance(n.func, ast.Attribute)
                     and n.func.attr in ('execute', 'executemany', 'executescript')]
            for c in calls:
                if _sql_kind(c.args[0], env) != 'exists?':
                    raise Unsupported('a statement other than the existence query is executed in an assignment')
                exists_var = st.targets[0].id
                state['exists'] = exists_var
            continue
        if isinstance(st, ast.If):
            if exists_var is None or _norm(st.test) != exists_var + '>0' or st.orelse:
                raise Unsupported('conditional database operation that is not `if <table exists>:`: ' + _norm(st.test))
            inner = _temp_ops(st.body, env, state)
            if inner != ['drop']:
                raise Unsupported('`if <table exists>:` does something else than dropping the table')
            ops.append('dropIfExists')
            continue
        if isinstance(st, ast.With):
            if [_norm(i.context_expr) for i in st.items] != ['self._db_con']:
                raise Unsupported('with-block other than `with self._db_con:`')
            ops += _temp_ops(st.body, env, state)
            continue
        if isinstance(st, ast.Expr) and isinstance(st.value, ast.Call) and isinstance(st.value.func, ast.Attribute) \
                and st.value.func.attr in ('execute', 'executemany'):
            ops.append(_sql_kind(st.value.args[0], env))
            continue
        raise Unsupported('statement not understood in _generate_temp_tables: ' + ast.unparse(st)[:80])
    return ops


def _self_writes(fn):
    out = []
    for n in ast.walk(fn):
        tgts = []
        if isinstance(n, ast.Assign):
            tgts = n.targets
        elif isinstance(n, (ast.AugAssign, ast.AnnAssign)):
            tgts = [n.target]
        elif isinstance(n, ast.Delete):
            tgts = n.targets
        elif isinstance(n, ast.Call) and ast.unparse(n.func) in ('setattr', 'delattr') and n.args and _norm(n.args[0]) == 'self':
            out.append(ast.unparse(n.args[1]) if len(n.args) > 1 else '?')
        for t in tgts:
            for x in (t.elts if isinstance(t, (ast.Tuple, ast.List)) else [t]):
                while isinstance(x, ast.Subscript):
                    x = x.value
                if isinstance(x, ast.Attribute) and isinstance(x.value, ast.Name) and x.value.id == 'self':
                    out.append(x.attr)
                if isinstance(x, ast.Attribute) and _norm(x.value) == 'self.__dict__':
                    out.append('__dict__')
    return out


def build_T8r(tree):
    """What a read leaves behind on the object.  (1) `_Image._generate_temp_tables` (image.py): the database operations applied to
    every temporary table before the `yield` and after it, and whether the `yield` sits in a `try … finally` (so that the
    clean-up also runs when the body raises).  (2) every attribute of `self` that any function reachable from the five read
    entry points through `self.<method>(…)` calls or `self.<property>` reads (methods of Segmentation / _Image) assigns or deletes."""
    import os
    repo = os.environ.get('HD_REPO', '/repo')
    itree = ast.parse(open(os.path.join(repo, 'src', 'highdicom', 'image.py')).read())
    fn = find_func(itree, '_Image._generate_temp_tables')
    body = strip_doc(fn.body)
    guarded = False
    if len(body) == 2 and isinstance(body[1], ast.Try) is False and isinstance(body[0], ast.For) and False:
        pass
    # shapes accepted:  for … ; yield ; for …      or      for … ; try: yield  finally: for …
    if len(body) == 3 and isinstance(body[0], ast.For) and isinstance(body[1], ast.Expr) and isinstance(body[1].value, ast.Yield) \
            and isinstance(body[2], ast.For):
        pre_loop, post_loop = body[0], body[2]
    elif len(body) == 2 and isinstance(body[0], ast.For) and isinstance(body[1], ast.Try) and not body[1].handlers \
            and len(body[1].body) == 1 and isinstance(body[1].body[0], ast.Expr) and isinstance(body[1].body[0].value, ast.Yield) \
            and len(body[1].finalbody) == 1 and isinstance(body[1].finalbody[0], ast.For):
        # accepted only if no query on the tables can still be open when the clean-up runs (checked below, part 3): otherwise
        # SQLite refuses the DROP ("database table is locked"), which the model's `guarded` branch does not describe
        pre_loop, post_loop, guarded = body[0], body[1].finalbody[0], True
    else:
        raise Unsupported('_generate_temp_tables is no longer  for-loop / yield / for-loop')
    for lp in (pre_loop, post_loop):
        if _norm(lp.iter) != 'table_defs' or lp.orelse:
            raise Unsupported('_generate_temp_tables: a loop is not over table_defs')
    pre = [o for o in _temp_ops(pre_loop.body)]
    post = [o for o in _temp_ops(post_loop.body)]
    names = {'dropIfExists': '.dropIfExists', 'drop': '.drop', 'create': '.create', 'insert': '.insert'}
    for o in pre + post:
        if o not in names:
            raise Unsupported('unexpected database operation ' + o)
    if not any(isinstance(d, ast.Attribute) and d.attr == 'contextmanager' or isinstance(d, ast.Name) and d.id == 'contextmanager'
               for d in fn.decorator_list):
        raise Unsupported('_generate_temp_tables is no longer a @contextmanager')
    # ---- (2) attribute writes along the read paths
    classes = {}
    for t in (tree, itree):
        for c in t.body:
            if isinstance(c, ast.ClassDef) and c.name in ('Segmentation', '_Image'):
                classes[c.name] = {n.name: n for n in c.body if isinstance(n, ast.FunctionDef)}
    def lookup(name):
        for cn in ('Segmentation', '_Image'):
            if name in classes.get(cn, {}):
                return cn, classes[cn][name]
        return None
    todo = [('Segmentation', classes['Segmentation'][n]) for n in _READ_ENTRIES]
    seen, writes = set(), []
    while todo:
        cn, f = todo.pop()
        if (cn, f.name) in seen:
            continue
        seen.add((cn, f.name))
        for a in _self_writes(f):
            writes.append((f'{cn}.{f.name}', a))
        for n in ast.walk(f):
            if isinstance(n, ast.Attribute) and isinstance(n.value, ast.Name) and n.value.id == 'self':
                hit = lookup(n.attr)
                if hit is not None:
                    todo.append(hit)
            if isinstance(n, ast.Attribute) and isinstance(n.value, ast.Call) and _norm(n.value) == 'super()':
                hit = classes.get('_Image', {}).get(n.attr)
                if hit is not None:
                    todo.append(('_Image', hit))
    writes = sorted(set(writes))
    reach = sorted(f'{a}.{b}' for a, b in seen)
    # ---- (3) the frame query of the two iterators: run before the yield, its cursor closed in a `finally` around the yield
    # (an open cursor keeps the temporary tables locked while the caller holds on to the exception of a failed read; the
    # model's "a table exists or not" is all there is only if no lock survives a read)
    cur_rows = []
    for name in ('_iterate_indices_for_stack', '_iterate_indices_for_tiled_region'):
        f = classes['_Image'].get(name)
        if f is None:
            raise Unsupported(name + ' not found')
        ok = False
        for t in ast.walk(f):
            if isinstance(t, ast.Try) and t.finalbody and not t.handlers \
                    and any(isinstance(x, ast.Expr) and isinstance(x.value, ast.Yield) for x in t.body):
                closes = [c for fb in t.finalbody for c in ast.walk(fb) if isinstance(c, ast.Call)
                          and isinstance(c.func, ast.Attribute) and c.func.attr == 'close' and isinstance(c.func.value, ast.Name)]
                for c in closes:
                    cname = c.func.value.id
                    bound = any(isinstance(a, ast.Assign) and len(a.targets) == 1 and isinstance(a.targets[0], ast.Name)
                                and a.targets[0].id == cname and isinstance(a.value, ast.Call)
                                and _norm(a.value.func) == 'self._db_con.execute' for a in ast.walk(f))
                    lazy = any(isinstance(g, ast.GeneratorExp) and any(isinstance(n, ast.Call) and _norm(n.func) == 'self._db_con.execute'
                                                                       for n in ast.walk(g)) for g in ast.walk(t))
                    if bound and not lazy:
                        ok = True
        cur_rows.append((name, ok))
    # ---- (4) EVERY query executed on a read path: how its cursor ends.  'statement' = no rows wanted (DDL / INSERT as an
    # expression statement or inside `with self._db_con:`); 'consumed' = handed at once to list / set / next / fetchone /
    # fetchall / an eager comprehension (exhausted, or the only reference dropped, before the statement ends);
    # 'closed-on-exit' = bound to a name that a `finally` around the `yield` closes; anything else ('lazy': iterated by a
    # generator expression that outlives the statement, 'other') can still be open when a read is left by an exception.
    eager_calls = ('list', 'set', 'tuple', 'sorted', 'next', 'dict', 'len', 'any', 'all')
    uses = []
    for (cn, fname) in sorted(seen):
        f = classes[cn][fname]
        parent = {}
        for n in ast.walk(f):
            for ch in ast.iter_child_nodes(n):
                parent[ch] = n
        closed_names = set()
        for t in ast.walk(f):
            if isinstance(t, ast.Try) and t.finalbody and any(isinstance(x, ast.Expr) and isinstance(x.value, ast.Yield) for x in t.body):
                for fb in t.finalbody:
                    for c in ast.walk(fb):
                        if isinstance(c, ast.Call) and isinstance(c.func, ast.Attribute) and c.func.attr == 'close' \
                                and isinstance(c.func.value, ast.Name):
                            closed_names.add(c.func.value.id)
        for n in ast.walk(f):
            if not (isinstance(n, ast.Call) and isinstance(n.func, ast.Attribute) and n.func.attr in ('execute', 'executemany', 'executescript')):
                continue
            recv = _norm(n.func.value)
            if recv not in ('self._db_con', 'cur', 'cursor', 'self._db_con.cursor()'):
                continue
            par = parent.get(n)
            kind = 'other'
            if isinstance(par, ast.Expr):
                kind = 'statement'
            elif isinstance(par, ast.Call) and isinstance(par.func, ast.Name) and par.func.id in eager_calls:
                kind = 'consumed'
            elif isinstance(par, ast.Attribute) and par.attr in ('fetchone', 'fetchall'):
                kind = 'consumed'
            elif isinstance(par, ast.comprehension):
                comp = parent.get(par)
                kind = 'lazy' if isinstance(comp, ast.GeneratorExp) and not (
                    isinstance(parent.get(comp), ast.Call) and isinstance(parent[comp].func, ast.Name)
                    and parent[comp].func.id in eager_calls) else 'consumed'
            elif isinstance(par, ast.Assign) and len(par.targets) == 1 and isinstance(par.targets[0], ast.Name):
                nm = par.targets[0].id
                if nm in closed_names:
                    kind = 'closed-on-exit'
                else:
                    # bound to a name that the NEXT statement hands to list / set / tuple / fetchall (exhausted at once)
                    blk = parent.get(par)
                    body_list = next((getattr(blk, a) for a in ('body', 'orelse', 'finalbody')
                                      if isinstance(getattr(blk, a, None), list) and par in getattr(blk, a)), None)
                    nxt = body_list[body_list.index(par) + 1] if body_list and body_list.index(par) + 1 < len(body_list) else None
                    if nxt is not None and any(
                            isinstance(c, ast.Call) and ((isinstance(c.func, ast.Name) and c.func.id in ('list', 'set', 'tuple')
                                                          and len(c.args) == 1 and _norm(c.args[0]) == nm)
                                                         or (isinstance(c.func, ast.Attribute) and c.func.attr == 'fetchall'
                                                             and _norm(c.func.value) == nm)) for c in ast.walk(nxt)):
                        kind = 'consumed'
            uses.append((f'{cn}.{fname}', kind))
    uses = sorted(set(uses))
    all_closed = all(k in ('statement', 'consumed', 'closed-on-exit') for _, k in uses) and all(ok for _, ok in cur_rows)
    if guarded and not all(ok for _, ok in cur_rows):
        raise Unsupported('_generate_temp_tables cleans up in try/finally while an iterator may still hold its frame query open '
                          '(SQLite: table is locked); not the modelled program')
    t1 = ('/-- `_generate_temp_tables`: operations on every table before the `yield` -/\n'
          'def tempTablesPre : List HdVerif.SegState.TempOp := [' + ', '.join(names[o] for o in pre) + ']\n\n'
          '/-- … and after it -/\n'
          'def tempTablesPost : List HdVerif.SegState.TempOp := [' + ', '.join(names[o] for o in post) + ']\n\n'
          '/-- the `yield` is inside `try … finally` -/\n'
          f'def tempTablesGuarded : Bool := {"true" if guarded else "false"}')
    t2 = ('/-- (function, attribute of `self` it assigns or deletes) over everything reachable from the read entry points -/\n'
          'def readPathSelfWrites : List (String × String) :=\n  [' + ',\n   '.join('("%s", "%s")' % w for w in writes) + ']')
    t3 = ('/-- the functions reached -/\ndef readPathFunctions : List String :=\n  [' + ', '.join('"' + x + '"' for x in reach) + ']')
    t4 = ('/-- (iterator, the cursor of its frame query is closed in a `finally` around the `yield`) -/\n'
          'def frameQueryCursorClosed : List (String × Bool) :=\n  [' +
          ', '.join('("%s", %s)' % (a, 'true' if b else 'false') for a, b in cur_rows) + ']')
    t5 = ('/-- (function on a read path, how the cursor of a query it executes ends) -/\n'
          'def queryCursorUse : List (String × String) :=\n  [' + ',\n   '.join('("%s", "%s")' % u for u in uses) + ']\n\n'
          '/-- no query on a read path can still be open when the read is left, by `return` or by an exception -/\n'
          f'def cursorsClosedOnExit : Bool := {"true" if all_closed else "false"}')
    return '\n\n'.join([t1, t2, t3, t4, t5]), span_sha(body) + hashlib.sha256(repr(writes + reach + cur_rows + uses).encode()).hexdigest()[:12]


TARGETS['T8r'] = {'file': 'seg/sop.py', 'build': build_T8r, 'imports': ['HdVerif.Model.SegReadState']}
