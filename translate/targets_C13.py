"""Translation targets of C13 (sr/value_types.py, sr/enum.py).

T13s  -> Generated/T13s.lean   (from sr/value_types.py)
  * `srRequiredAttrs`        the literal dict `required_attrs` of `_assert_value_type` (value type -> keywords)
  * `srAssertHead`           the two guards of `_assert_value_type` before the loop (ValueType present / equal),
                             `hasattr(dataset, 'ValueType')` and `dataset.ValueType == value_type.value` as inputs
  * `srAssertAttr`           the body of its `for attr in required_attrs[value_type]` loop, `hasattr(dataset, attr)` as input
  * `srDispatch`             the literal dict `python_types` of `_get_content_item_class` (value type -> class name);
                             `_from_dataset_derived` is checked to go `ValueTypeValues(dataset.ValueType)` ->
                             `_get_content_item_class` -> `<class>.from_dataset(dataset, copy=False)`
  * `srFromDatasetAsserts`   per `*ContentItem` class the value type its `from_dataset` passes to `_assert_value_type`
                             (each checked to call `_assert_value_type(dataset_copy, ...)` and then `_from_dataset_base`)
  * `srCtorValueType`        per class the value type its `__init__` passes to `ContentItem.__init__`
  * `c13OptionalNameClasses`  the tuple `value_types_with_optional_name` of `_from_dataset_base`
  * `srBaseGuards`           the guards of `_from_dataset_base` (ValueType present; name present or optional) as a
                             decision tree: result 1 = default name inserted, 0 = dataset taken as it is
  * `srCheckDatasetRel`      the relationship-type guard of `ContentSequence._check_dataset`
  * `scoordCheck`            the coordinate-count decision tree of `ScoordContentItem.__init__`
  * `scoord3dCheck`          the same for `Scoord3DContentItem.__init__` incl. the closed-polygon and coplanarity
                             guards; `np.array_equal(graphic_data[0], graphic_data[-1])` and
                             `are_points_coplanar(graphic_data)` are inputs
T13se -> Generated/T13se.lean  (from sr/enum.py): member (name, value) pairs of ValueTypeValues, RelationshipTypeValues,
  GraphicTypeValues, GraphicTypeValues3D, TemporalRangeTypeValues, PixelOriginInterpretationValues.
T13v -> Generated/T13v.lean  (bridges of Proofs/SRItemsTie.lean): `numValueOrder` (attempt order of NumContentItem.value),
  `numWritesFloat` (guard of FloatingPointValue in NumContentItem.__init__), `wfRangeStart/Stop/Step`, `wfFirstIndex`,
  `wfSecondIndex` (the comprehension of referenced_waveform_channels), `scoordReshapeWidth`, `scoord3dReshapeWidth`;
  the flattening `graphic_data.astype(np.float32).flatten().tolist()` of both constructors is checked textually.

Everything is read off the *current* AST; a shape that is not recognised raises Unsupported.
"""
from __future__ import annotations

import ast
import hashlib

from py2lean import Unsupported, find_func, lean_table, span_sha, strip_doc, translate_block


def _s(x):
    return '"' + x.replace('\\', '\\\\').replace('"', '\\"') + '"'


def _norm(node):
    return ''.join(ast.unparse(node).split())


def _enum_member(node, enum_names, what):
    """`ValueTypeValues.CODE` -> 'CODE'"""
    if isinstance(node, ast.Attribute) and isinstance(node.value, ast.Name) and node.value.id in enum_names:
        return node.attr
    raise Unsupported(f'{what}: expected a member of {enum_names}, got {ast.unparse(node)}')


def _dict_assign(fn, name):
    for st in ast.walk(fn):
        if isinstance(st, ast.Assign) and len(st.targets) == 1 and isinstance(st.targets[0], ast.Name) \
                and st.targets[0].id == name and isinstance(st.value, ast.Dict):
            return st
        if isinstance(st, ast.AnnAssign) and isinstance(st.target, ast.Name) and st.target.id == name \
                and isinstance(st.value, ast.Dict):
            return st
    raise Unsupported(f'literal dict {name} not found in {fn.name}')


def _fresh(stmts):
    out = [ast.parse(ast.unparse(s)).body[0] for s in stmts]
    for s in out:
        ast.fix_missing_locations(s)
    return out


class _Rewrite(ast.NodeTransformer):
    """Replace sub-expressions (keyed by their normalised source text) by names / constants."""

    def __init__(self, table, enums=()):
        self.table = table
        self.enums = enums

    def generic_visit(self, node):
        if isinstance(node, ast.expr):
            key = _norm(node)
            if key in self.table:
                return ast.copy_location(ast.Name(id=self.table[key], ctx=ast.Load()), node)
            if isinstance(node, ast.Attribute) and isinstance(node.value, ast.Name) and node.value.id in self.enums:
                return ast.copy_location(ast.Constant(value=node.attr), node)
            if isinstance(node, ast.Compare) and len(node.ops) == 1 and isinstance(node.ops[0], ast.In) \
                    and isinstance(node.comparators[0], (ast.Tuple, ast.List)):
                left = self.visit(node.left)
                vals = [ast.Compare(left=left, ops=[ast.Eq()], comparators=[self.visit(e)]) for e in node.comparators[0].elts]
                return ast.copy_location(ast.BoolOp(op=ast.Or(), values=vals), node)
        return super().generic_visit(node)


def _rewrite(stmts, table, enums=()):
    out = []
    for s in stmts:
        s2 = _Rewrite(table, enums).visit(ast.parse(ast.unparse(s)).body[0])
        ast.fix_missing_locations(s2)
        out.append(ast.parse(ast.unparse(s2)).body[0])
    return out


def _ret(expr):
    return ast.parse(f'return {expr}').body[0]


def _if_with(fn, needle):
    """first `if` statement directly in `fn.body` whose test mentions `needle`"""
    for st in fn.body:
        if isinstance(st, ast.If) and needle in _norm(st.test):
            return st
    raise Unsupported(f'if-statement testing {needle!r} not found at the top level of {fn.name}')


VT = ('ValueTypeValues',)


def build_T13(tree):
    out, shas = [], []

    # ---------------------------------------------------------------- _assert_value_type
    fn = find_func(tree, '_assert_value_type')
    body = strip_doc(fn.body)
    shas.append(span_sha(body))
    dct = _dict_assign(fn, 'required_attrs')
    rows = []
    for k, v in zip(dct.value.keys, dct.value.values):
        key = _enum_member(k, VT, 'required_attrs key')
        if not (isinstance(v, (ast.List, ast.Tuple)) and all(isinstance(e, ast.Constant) and isinstance(e.value, str) for e in v.elts)):
            raise Unsupported('required_attrs value is not a literal list of strings')
        rows.append(f'({_s(key)}, [' + ', '.join(_s(e.value) for e in v.elts) + '])')
    out.append(lean_table('srRequiredAttrs', 'List (String × List String)', rows,
                          doc='`required_attrs` of `_assert_value_type`: value type -> required attribute keywords'))
    head = [st for st in body if isinstance(st, ast.If)]
    loops = [st for st in body if isinstance(st, ast.For)]
    if len(head) != 2 or len(loops) != 1 or body.index(loops[0]) < body.index(head[1]):
        raise Unsupported('_assert_value_type is no longer two guards followed by one loop')
    loop = loops[0]
    if _norm(loop.iter) != 'required_attrs[value_type]' or not isinstance(loop.target, ast.Name) or loop.orelse:
        raise Unsupported('_assert_value_type: loop is no longer `for attr in required_attrs[value_type]`')
    tbl = {"hasattr(dataset,'ValueType')": 'has_value_type', 'dataset.ValueType==value_type.value': 'value_type_matches',
           'value_type.value==dataset.ValueType': 'value_type_matches'}
    out.append(translate_block(_rewrite(head, tbl) + [_ret('True')], 'srAssertHead',
                               [('has_value_type', 'bool'), ('value_type_matches', 'bool')], {},
                               doc='guards of `_assert_value_type` before the attribute loop'))
    tbl = {f'hasattr(dataset,{loop.target.id})': 'has_attr'}
    out.append(translate_block(_rewrite(loop.body, tbl) + [_ret('True')], 'srAssertAttr', [('has_attr', 'bool')], {},
                               doc='body of the loop over the required attributes in `_assert_value_type`'))

    # ---------------------------------------------------------------- _get_content_item_class / _from_dataset_derived
    fn = find_func(tree, '_get_content_item_class')
    body = strip_doc(fn.body)
    shas.append(span_sha(body))
    dct = _dict_assign(fn, 'python_types')
    rows = []
    for k, v in zip(dct.value.keys, dct.value.values):
        if not isinstance(v, ast.Name):
            raise Unsupported('python_types value is not a class name')
        rows.append(f'({_s(_enum_member(k, VT, "python_types key"))}, {_s(v.id)})')
    if not (isinstance(body[-1], ast.Return) and _norm(body[-1].value) == 'python_types[value_type]'):
        raise Unsupported('_get_content_item_class no longer returns python_types[value_type]')
    out.append(lean_table('srDispatch', 'List (String × String)', rows,
                          doc='`python_types` of `_get_content_item_class`: value type -> class'))
    fn = find_func(tree, 'ContentItem._from_dataset_derived')
    body = strip_doc(fn.body)
    shas.append(span_sha(body))
    txt = ''.join(_norm(s) for s in body)
    for needle in ('value_type=ValueTypeValues(dataset.ValueType)', 'content_item_cls=_get_content_item_class(value_type)',
                   'returncontent_item_cls.from_dataset(dataset,copy=False)'):
        if needle not in txt:
            raise Unsupported('_from_dataset_derived changed (missing ' + needle + ')')

    # ---------------------------------------------------------------- the classes
    asserts, ctors = [], []
    for node in tree.body:
        if not (isinstance(node, ast.ClassDef) and node.name.endswith('ContentItem') and node.name != 'ContentItem'):
            continue
        fd = find_func(tree, f'{node.name}.from_dataset')
        fbody = strip_doc(fd.body)
        shas.append(span_sha(fbody))
        calls = [c for c in ast.walk(fd) if isinstance(c, ast.Call) and _norm(c.func) == '_assert_value_type']
        if len(calls) != 1 or len(calls[0].args) != 2 or _norm(calls[0].args[0]) != 'dataset_copy':
            raise Unsupported(f'{node.name}.from_dataset: exactly one _assert_value_type(dataset_copy, ...) expected')
        asserts.append(f'({_s(node.name)}, {_s(_enum_member(calls[0].args[1], VT, node.name + ".from_dataset"))})')
        ftxt = ''.join(_norm(s) for s in fbody)
        a, b = ftxt.find('_assert_value_type(dataset_copy'), ftxt.find('item=super()._from_dataset_base(dataset_copy)')
        if a < 0 or b < 0 or b < a:
            raise Unsupported(f'{node.name}.from_dataset no longer asserts the value type before _from_dataset_base')
        init = find_func(tree, f'{node.name}.__init__')
        sup = [c for c in ast.walk(init) if isinstance(c, ast.Call) and _norm(c.func) == 'super().__init__']
        if len(sup) != 1 or len(sup[0].args) != 3 or _norm(sup[0].args[2]) != 'relationship_type' or _norm(sup[0].args[1]) != 'name':
            raise Unsupported(f'{node.name}.__init__: super().__init__(<value type>, name, relationship_type) expected')
        ctors.append(f'({_s(node.name)}, {_s(_enum_member(sup[0].args[0], VT, node.name + ".__init__"))})')
    out.append(lean_table('srFromDatasetAsserts', 'List (String × String)', asserts,
                          doc='class -> value type its `from_dataset` asserts'))
    out.append(lean_table('srCtorValueType', 'List (String × String)', ctors,
                          doc='class -> value type its constructor writes'))

    # ---------------------------------------------------------------- _from_dataset_base
    fn = find_func(tree, 'ContentItem._from_dataset_base')
    body = strip_doc(fn.body)
    shas.append(span_sha(body))
    opt = None
    for st in body:
        if isinstance(st, ast.Assign) and isinstance(st.targets[0], ast.Name) and st.targets[0].id == 'value_types_with_optional_name':
            if not (isinstance(st.value, (ast.Tuple, ast.List)) and all(isinstance(e, ast.Constant) for e in st.value.elts)):
                raise Unsupported('value_types_with_optional_name is not a literal tuple of strings')
            opt = [e.value for e in st.value.elts]
    if opt is None:
        raise Unsupported('value_types_with_optional_name not found')
    out.append(lean_table('c13OptionalNameClasses', 'List String', [_s(x) for x in opt],
                          doc='`value_types_with_optional_name` of `ContentItem._from_dataset_base`'))
    g1 = _if_with(fn, "hasattr(dataset,'ValueType')")
    g2 = _if_with(fn, "hasattr(dataset,'ConceptNameCodeSequence')")
    inner = g2.body[0] if g2.body and isinstance(g2.body[0], ast.If) else None
    if inner is None or _norm(inner.test) != 'cls.__name__invalue_types_with_optional_name' or len(g2.body) != 1 or g2.orelse:
        raise Unsupported('_from_dataset_base: name guard changed')
    sets_default = any(isinstance(s, ast.Assign) and _norm(s.targets[0]) == 'dataset.ConceptNameCodeSequence' for s in inner.body)
    if not sets_default:
        raise Unsupported('_from_dataset_base: the default name is no longer assigned for optional-name classes')
    g2b = ast.parse(ast.unparse(g2)).body[0]
    g2b.body[0].test = ast.Name(id='name_optional', ctx=ast.Load())
    g2b.body[0].body = [_ret('1')]
    tbl = {"hasattr(dataset,'ValueType')": 'has_value_type', "hasattr(dataset,'ConceptNameCodeSequence')": 'has_name'}
    out.append(translate_block(_rewrite([g1, g2b], tbl) + [_ret('0')], 'srBaseGuards',
                               [('has_value_type', 'bool'), ('has_name', 'bool'), ('name_optional', 'bool')], {},
                               doc='guards of `ContentItem._from_dataset_base`: 1 = default name inserted, 0 = unchanged'))
    rest = ''.join(_norm(s) for s in body)
    for needle in ("ifhasattr(item,'ContentSequence'):item.ContentSequence=ContentSequence.from_sequence(item.ContentSequence,copy=False)",
                   'item.__class__=cls'):
        if needle not in rest:
            raise Unsupported('_from_dataset_base changed (missing ' + needle + ')')

    # ---------------------------------------------------------------- ContentSequence._check_dataset (relationship guard)
    fn = find_func(tree, 'ContentSequence._check_dataset')
    g = _if_with(fn, "hasattr(dataset,'RelationshipType')")
    shas.append(span_sha([g]))
    out.append(translate_block(_rewrite([g], {"hasattr(dataset,'RelationshipType')": 'has_relationship'}) + [_ret('True')],
                               'srCheckDatasetRel', [('has_relationship', 'bool'), ('is_root', 'bool'), ('is_sr', 'bool')], {},
                               doc='relationship-type guard of `ContentSequence._check_dataset`'))
    fs = find_func(tree, 'ContentSequence.from_sequence')
    ftxt = ''.join(_norm(s) for s in strip_doc(fs.body))
    for needle in ('cls._check_dataset(dataset,is_root=is_root,is_sr=is_sr,index=i)', 'item=ContentItem._from_dataset_derived(dataset_copy)',
                   'returnContentSequence(content_items,is_root=is_root,is_sr=is_sr)'):
        if needle not in ftxt:
            raise Unsupported('ContentSequence.from_sequence changed (missing ' + needle + ')')
    shas.append(hashlib.sha256(ftxt.encode()).hexdigest())

    # ---------------------------------------------------------------- coordinate-count rules
    tbl = {'graphic_data.shape[0]': 'n_points', 'graphic_data.shape[1]': 'n_dims',
           'np.array_equal(graphic_data[0],graphic_data[-1])': 'first_eq_last',
           'are_points_coplanar(graphic_data)': 'coplanar'}
    tbl['graphic_data.ndim'] = 'n_axes'
    for cname, lean in (('ScoordContentItem', 'scoordAxesCheck'), ('Scoord3DContentItem', 'scoord3dAxesCheck')):
        fn = find_func(tree, cname + '.__init__')
        g = _if_with(fn, 'graphic_data.ndim')
        first_shape = _if_with(fn, 'graphic_type==GraphicTypeValues')
        if fn.body.index(g) > fn.body.index(first_shape):
            raise Unsupported(cname + '.__init__: the dimensionality guard no longer precedes the shape rules')
        shas.append(span_sha([g]))
        out.append(translate_block(_rewrite([g], tbl) + [_ret('True')], lean, [('n_axes', 'int')], {},
                                   doc=f'`{cname}.__init__`: the array must be two-dimensional'))
    fn = find_func(tree, 'ScoordContentItem.__init__')
    chain = _if_with(fn, 'graphic_type==GraphicTypeValues.POINT')
    shas.append(span_sha([chain]))
    out.append(translate_block(_rewrite([chain], tbl, ('GraphicTypeValues',)) + [_ret('True')], 'scoordCheck',
                               [('graphic_type', 'str'), ('n_points', 'int'), ('n_dims', 'int')], {},
                               doc='`ScoordContentItem.__init__`: shape rules per graphic type'))
    fn = find_func(tree, 'Scoord3DContentItem.__init__')
    chain = _if_with(fn, 'graphic_type==GraphicTypeValues3D.POINT')
    cop = _if_with(fn, 'graphic_typein(')
    if fn.body.index(cop) < fn.body.index(chain):
        raise Unsupported('Scoord3DContentItem.__init__: coplanarity guard now precedes the shape rules')
    shas.append(span_sha([chain, cop]))
    out.append(translate_block(_rewrite([chain, cop], tbl, ('GraphicTypeValues3D',)) + [_ret('True')], 'scoord3dCheck',
                               [('graphic_type', 'str'), ('n_points', 'int'), ('n_dims', 'int'), ('first_eq_last', 'bool'),
                                ('coplanar', 'bool')], {},
                               doc='`Scoord3DContentItem.__init__`: shape rules, closed polygon, coplanarity'))
    return '\n\n'.join(out), hashlib.sha256(''.join(shas).encode()).hexdigest()


ENUMS = [('ValueTypeValues', 'c13ValueTypes'), ('RelationshipTypeValues', 'c13RelationshipTypes'),
         ('GraphicTypeValues', 'c13GraphicTypes'), ('GraphicTypeValues3D', 'c13GraphicTypes3D'),
         ('TemporalRangeTypeValues', 'c13TemporalRangeTypes'), ('PixelOriginInterpretationValues', 'c13PixelOrigins')]


def build_T13e(tree):
    out, shas = [], []
    for cls, lean in ENUMS:
        node = None
        for n in tree.body:
            if isinstance(n, ast.ClassDef) and n.name == cls:
                node = n
        if node is None:
            raise Unsupported(f'enumeration {cls} not found')
        rows = []
        for st in node.body:
            if isinstance(st, ast.Assign) and len(st.targets) == 1 and isinstance(st.targets[0], ast.Name):
                if not (isinstance(st.value, ast.Constant) and isinstance(st.value.value, str)):
                    raise Unsupported(f'{cls}.{st.targets[0].id} is not a string literal')
                rows.append(f'({_s(st.targets[0].id)}, {_s(st.value.value)})')
        if not rows:
            raise Unsupported(f'enumeration {cls} has no members')
        shas.append(hashlib.sha256(';'.join(rows).encode()).hexdigest())
        out.append(lean_table(lean, 'List (String × String)', rows, doc=f'members (name, value) of `sr.enum.{cls}`'))
    return '\n\n'.join(out), hashlib.sha256(''.join(shas).encode()).hexdigest()


TARGETS = {
    'T13s': {'file': 'sr/value_types.py', 'build': build_T13},
    'T13se': {'file': 'sr/enum.py', 'build': build_T13e},
}


# ======================================================================================================
# T13k: which attributes every constructor writes and every accessor reads (keyword tables per class)
# ======================================================================================================

def _kw(name):
    return bool(name) and name[0].isupper() and not name.isupper() or name in ('UID',)


def _ctor_writes(cls_node):
    """rows (path, always) in source order; path = 'Keyword' or 'ParentSequence/Keyword'"""
    init = None
    for n in cls_node.body:
        if isinstance(n, ast.FunctionDef) and n.name == '__init__':
            init = n
    if init is None:
        raise Unsupported(f'{cls_node.name}.__init__ not found')
    body = strip_doc(init.body)
    parent = {}          # local item variable -> sequence keyword it ends up in
    for st in ast.walk(init):
        if isinstance(st, ast.Assign) and len(st.targets) == 1 and isinstance(st.targets[0], ast.Attribute) \
                and _norm(st.targets[0].value) == 'self' and _kw(st.targets[0].attr) \
                and isinstance(st.value, ast.List) and len(st.value.elts) == 1 and isinstance(st.value.elts[0], ast.Name):
            parent[st.value.elts[0].id] = st.targets[0].attr
        if isinstance(st, ast.Expr) and isinstance(st.value, ast.Call) and isinstance(st.value.func, ast.Attribute) \
                and st.value.func.attr == 'append' and isinstance(st.value.func.value, ast.Attribute) \
                and _norm(st.value.func.value.value) == 'self' and len(st.value.args) == 1 and isinstance(st.value.args[0], ast.Name):
            parent[st.value.args[0].id] = st.value.func.value.attr
    rows = []

    def targets_of(st):
        tg = []
        if isinstance(st, ast.Assign):
            tg = st.targets
        elif isinstance(st, ast.AnnAssign):
            tg = [st.target]
        out = []
        for t in tg:
            if isinstance(t, ast.Attribute) and isinstance(t.value, ast.Name) and _kw(t.attr):
                if t.value.id == 'self':
                    out.append(t.attr)
                elif t.value.id in parent:
                    out.append(parent[t.value.id] + '/' + t.attr)
                else:
                    raise Unsupported(f'{cls_node.name}.__init__: attribute {t.attr} written on {t.value.id}, which is stored nowhere')
        return out

    def walk(stmts, always):
        for st in stmts:
            for p in targets_of(st):
                rows.append((p, always))
            if isinstance(st, ast.If):
                branches = [st.body]
                cur = st
                while cur.orelse and len(cur.orelse) == 1 and isinstance(cur.orelse[0], ast.If):
                    cur = cur.orelse[0]
                    branches.append(cur.body)
                has_else = bool(cur.orelse)
                if has_else:
                    branches.append(cur.orelse)
                sets = []
                for b in branches:
                    s = set()
                    for x in b:
                        for sub in ast.walk(x):
                            s.update(targets_of(sub) if isinstance(sub, (ast.Assign, ast.AnnAssign)) else [])
                    sets.append(s)
                every = set.intersection(*sets) if (has_else or all(any(isinstance(y, ast.Raise) for y in ast.walk(ast.Module(body=b, type_ignores=[]))) for b in branches[-1:] if not has_else)) and sets else set()
                if not has_else:
                    every = set()
                seen = set()
                for b in branches:
                    for x in b:
                        for sub in ast.walk(x):
                            if isinstance(sub, (ast.Assign, ast.AnnAssign)):
                                for p in targets_of(sub):
                                    if p not in seen:
                                        seen.add(p)
                                        rows.append((p, always and p in every))
            elif isinstance(st, (ast.For, ast.While, ast.With, ast.Try)):
                raise Unsupported(f'{cls_node.name}.__init__: compound statement {type(st).__name__} not handled')
    walk(body, True)
    # one row per path: always if any unconditional row
    merged = {}
    order = []
    for p, a in rows:
        if p not in merged:
            order.append(p)
            merged[p] = a
        else:
            merged[p] = merged[p] or a
    return [(p, merged[p]) for p in order]


def _accessor_reads(cls_node):
    out = []
    for n in cls_node.body:
        if isinstance(n, ast.FunctionDef) and any(_norm(d) == 'property' for d in n.decorator_list):
            keys = []
            for sub in ast.walk(n):
                k = None
                if isinstance(sub, ast.Attribute) and _kw(sub.attr) and not (isinstance(sub.value, ast.Name) and sub.value.id[0].isupper()):
                    k = sub.attr
                if isinstance(sub, ast.Call) and _norm(sub.func) == 'hasattr' and len(sub.args) == 2 and isinstance(sub.args[1], ast.Constant):
                    k = sub.args[1].value
                if k and k not in keys:
                    keys.append(k)
            out.append((n.name, sorted(keys)))
    return out


def build_T13k(tree):
    top, nested, reads = [], [], []
    for node in tree.body:
        if isinstance(node, ast.ClassDef) and node.name.endswith('ContentItem'):
            for prop, keys in _accessor_reads(node):
                reads.append(f'({_s(node.name)}, {_s(prop)}, [' + ', '.join(_s(k) for k in keys) + '])')
            for p, a in _ctor_writes(node):
                if '/' in p:
                    par, kw = p.split('/')
                    nested.append(f'({_s(node.name)}, {_s(par)}, {_s(kw)}, {"true" if a else "false"})')
                else:
                    top.append(f'({_s(node.name)}, {_s(p)}, {"true" if a else "false"})')
    sha = hashlib.sha256(';'.join(top + nested + reads).encode()).hexdigest()
    out = [lean_table('srCtorWritesTop', 'List (String × String × Bool)', top,
                      doc='(class, keyword, written on every path through `__init__`): attributes a constructor writes on the item itself'),
           lean_table('srCtorWritesNested', 'List (String × String × String × Bool)', nested,
                      doc='(class, sequence keyword, keyword, always): attributes written on the single item of a sequence attribute'),
           lean_table('srAccessorReads', 'List (String × String × List String)', reads,
                      doc='(class, property, attribute keywords the property reads)')]
    return '\n\n'.join(out), sha


TARGETS['T13k'] = {'file': 'sr/value_types.py', 'build': build_T13k}


# ======================================================================================================
# T13v: expressions of the value accessors / constructors that the hand-written model copies (bridges in
# Proofs/SRItemsTie.lean): NUM read order and float guard, WAVEFORM channel pairing, SCOORD reshape widths
# ======================================================================================================

def build_T13v(tree):
    out, shas = [], []
    # ---- NumContentItem.value: which attribute is tried first, which is the fall-back
    fn = find_func(tree, 'NumContentItem.value')
    body = strip_doc(fn.body)
    shas.append(span_sha(body))
    tr = [s for s in body if isinstance(s, ast.Try)]
    if len(tr) != 1 or len(tr[0].body) != 1 or len(tr[0].handlers) != 1 or _norm(tr[0].handlers[0].type) != 'AttributeError' \
            or len(tr[0].handlers[0].body) != 1:
        raise Unsupported('NumContentItem.value is no longer try: return … except AttributeError: return …')

    def read_attr(st):
        m = _re_full(r'returnfloat\(item\.(\w+)\)', _norm(st))
        if not m:
            raise Unsupported('NumContentItem.value: return float(item.<Keyword>) expected, got ' + ast.unparse(st))
        return m
    order = [read_attr(tr[0].body[0]), read_attr(tr[0].handlers[0].body[0])]
    out.append(lean_table('numValueOrder', 'List String', [_s(k) for k in order],
                          doc='`NumContentItem.value`: the attribute read first and the fall-back when it is absent'))
    # ---- NumContentItem.__init__: when FloatingPointValue is written
    fn = find_func(tree, 'NumContentItem.__init__')
    g = [s for s in fn.body if isinstance(s, ast.If) and 'FloatingPointValue' in _norm(s)]
    if len(g) != 1 or g[0].orelse or len(g[0].body) != 1 or \
            _norm(g[0].body[0]) != 'measured_value_sequence_item.FloatingPointValue=value':
        raise Unsupported('NumContentItem.__init__: the FloatingPointValue guard changed')
    shas.append(span_sha(g))
    gi = ast.parse(ast.unparse(g[0])).body[0]
    gi.body = [_ret('True')]
    out.append(translate_block(_rewrite([gi], {'isinstance(value,float)': 'is_float', 'isinstance(value,(float,))': 'is_float'}) + [_ret('False')],
                               'numWritesFloat', [('is_float', 'bool')], {},
                               doc='`NumContentItem.__init__`: whether FloatingPointValue is written'))
    # ---- WaveformContentItem.referenced_waveform_channels: the pairing
    fn = find_func(tree, 'WaveformContentItem.referenced_waveform_channels')
    ret = [s for s in strip_doc(fn.body) if isinstance(s, ast.Return) and isinstance(s.value, ast.ListComp)]
    if len(ret) != 1:
        raise Unsupported('referenced_waveform_channels no longer returns a list comprehension')
    lc = ret[0].value
    shas.append(span_sha(ret))
    gen = lc.generators[0]
    if len(lc.generators) != 1 or gen.ifs or not isinstance(gen.target, ast.Name) or _norm(gen.iter.func) != 'range' \
            or len(gen.iter.args) != 3 or not isinstance(lc.elt, ast.Tuple) or len(lc.elt.elts) != 2:
        raise Unsupported('referenced_waveform_channels: [(a, b) for i in range(start, stop, step)] expected')
    iv = gen.target.id
    tbl = {'len(val)': 'n'}
    for nm, e in zip(('wfRangeStart', 'wfRangeStop', 'wfRangeStep'), gen.iter.args):
        out.append(translate_block([ast.fix_missing_locations(ast.Return(value=_Rewrite(tbl).visit(ast.parse(ast.unparse(e), mode='eval').body)))],
                                   nm, [('n', 'int')], {}, doc='`referenced_waveform_channels`: argument of range(…)'))
    for nm, e in zip(('wfFirstIndex', 'wfSecondIndex'), lc.elt.elts):
        m = _re_full(rf'int\(val\[(.+)\]\)', _norm(e), raw=True)
        if m is None:
            raise Unsupported('referenced_waveform_channels: int(val[<index>]) expected')
        idx = e.args[0].slice
        out.append(translate_block([ast.fix_missing_locations(ast.Return(value=idx))], nm, [(iv, 'int')], {},
                                   doc='`referenced_waveform_channels`: index of a pair component'))
    # ---- reshape widths of the coordinate accessors
    for cname, lean in (('ScoordContentItem', 'scoordReshapeWidth'), ('Scoord3DContentItem', 'scoord3dReshapeWidth')):
        fn = find_func(tree, cname + '.value')
        body = strip_doc(fn.body)
        shas.append(span_sha(body))
        m = _re_full(r'returnnp\.array\(self\.GraphicData\)\.reshape\(-1,(\d+)\)', _norm(body[-1])) if len(body) == 1 else None
        if not m:
            raise Unsupported(cname + '.value is no longer np.array(self.GraphicData).reshape(-1, <width>)')
        out.append(f'/-- `{cname}.value`: numbers per row of `reshape(-1, …)` -/\ndef {lean} : Nat := {m}')
    # ---- the flattening in the constructors: row-major, after the cast
    for cname in ('ScoordContentItem', 'Scoord3DContentItem'):
        fn = find_func(tree, cname + '.__init__')
        st = [s for s in fn.body if isinstance(s, ast.Assign) and _norm(s.targets[0]) == 'self.GraphicData']
        if len(st) != 1 or _norm(st[0].value) != 'graphic_data.astype(np.float32).flatten().tolist()':
            raise Unsupported(cname + '.__init__: GraphicData is no longer graphic_data.astype(np.float32).flatten().tolist()')
        shas.append(span_sha(st))
    return '\n\n'.join(out), hashlib.sha256(''.join(shas).encode()).hexdigest()


def _re_full(pat, text, raw=False):
    import re
    m = re.fullmatch(pat, text)
    if not m:
        return None
    return m if raw else m.group(1)


TARGETS['T13v'] = {'file': 'sr/value_types.py', 'build': build_T13v}


# ======================================================================================================
# T13sa: how the constructors treat their ARGUMENTS (round 2): which of the three TCOORD arguments wins and that an
# empty one is refused, the frame / segment number arguments of IMAGE (scalar vs sequence, empty refused), the channel
# pairs of WAVEFORM, the type guard of NUM, the list-or-scalar branch of the IMAGE accessors, the read order of
# TcoordContentItem.value, the default values of every optional parameter, the two ContinuityOfContent strings
# ======================================================================================================

def _replace_stmt(stmts, pred, new):
    """copy of `stmts` (recursively through if-bodies) with every statement satisfying `pred` replaced by `new(stmt)`
    (a list of statements); returns (statements, number of replacements)"""
    out, n = [], 0
    for st in stmts:
        if pred(st):
            out.extend(new(st))
            n += 1
        elif isinstance(st, ast.If):
            st2 = ast.parse(ast.unparse(st)).body[0]
            st2.body, a = _replace_stmt(st.body, pred, new)
            st2.orelse, b = _replace_stmt(st.orelse, pred, new)
            if not st2.body:
                raise Unsupported('an if-branch holds nothing but the statement that was to be dropped: ' + _norm(st.test))
            n += a + b
            out.append(st2)
        else:
            out.append(st)
    return out, n


def _writes(st, owner=None):
    """keyword written by `self.Keyword = …` / `item.Keyword = …`, else None"""
    if isinstance(st, (ast.Assign, ast.AnnAssign)):
        t = st.targets[0] if isinstance(st, ast.Assign) else st.target
        if isinstance(t, ast.Attribute) and isinstance(t.value, ast.Name) and _kw(t.attr) and (owner is None or t.value.id == owner):
            return t.attr
    return None


def _int_guard(stmts, arg, flag, where):
    """the call `_assert_integers(<arg>, '<arg>')` (exactly one) becomes `if <flag>: raise ValueError()`"""
    text = f"_assert_integers({arg},'{arg}')"
    out, n = _replace_stmt(stmts, lambda s: isinstance(s, ast.Expr) and _norm(s) == text,
                           lambda s: ast.parse(f'if {flag}:\n    raise ValueError()').body)
    if n != 1:
        raise Unsupported(f'{where}: exactly one call {text} expected')
    return out


def build_T13sa(tree):
    out, shas = [], []

    # ---- the shared guard of the integer-valued arguments
    fn = find_func(tree, '_assert_integers')
    body = strip_doc(fn.body)
    shas.append(span_sha(body))
    if len(body) != 1 or not isinstance(body[0], ast.If) or _norm(body[0].test) != 'np.any(np.mod(np.asarray(values,dtype=float),1)!=0)':
        raise Unsupported('_assert_integers is no longer `if np.any(np.mod(np.asarray(values, dtype=float), 1) != 0): raise`')
    out.append(translate_block(_rewrite(body, {'np.any(np.mod(np.asarray(values,dtype=float),1)!=0)': 'some_fractional'}) + [_ret('True')],
                               'integersCheck', [('some_fractional', 'bool')], {},
                               doc='`_assert_integers`: ValueError when one of the numbers has a fractional part'))

    # ---- TcoordContentItem.__init__: the if / elif / else chain over the three arguments
    fn = find_func(tree, 'TcoordContentItem.__init__')
    chain = _if_with(fn, 'referenced_sample_positionsisnotNone')
    shas.append(span_sha([chain]))
    order = []

    def branch_ret(st):
        order.append(_writes(st, 'self'))
        return [_ret(str(len(order)))]
    stmts, n = _replace_stmt([chain], lambda s: _writes(s, 'self') is not None, branch_ret)
    if n != 3 or len(set(order)) != 3:
        raise Unsupported('TcoordContentItem.__init__: three branches writing three different attributes expected')
    stmts = _int_guard(stmts, 'referenced_sample_positions', 'fractional_1', 'TcoordContentItem.__init__')
    tbl = {}
    args = []
    for kw in order:
        cand = [a.arg for a in fn.args.args if a.arg.replace('_', '').lower().rstrip('s') == ('referenced' + kw[len('Referenced'):]).lower().rstrip('s')]
        if len(cand) != 1:
            raise Unsupported(f'TcoordContentItem.__init__: no parameter for {kw}')
        args.append(cand[0])
    for i, a in enumerate(args, 1):
        tbl[f'{a}isnotNone'] = f'has_{i}'
        tbl[f'len({a})'] = f'n_{i}'
    params = []
    for i in (1, 2, 3):
        params += [(f'has_{i}', 'bool'), (f'n_{i}', 'int')]
    params.append(('fractional_1', 'bool'))
    out.append(translate_block(_rewrite(stmts, tbl), 'tcoordArgCheck', params, {},
                               doc='`TcoordContentItem.__init__`: which of the three time-point arguments is written (1, 2, 3 in '
                                   'source order; has_i = argument i is not None, n_i = its length, fractional_1 = a sample position has a fractional part); '
                                   'an empty one, a fractional sample position and none at all are refused'))
    out.append(lean_table('tcoordBranchKeywords', 'List String', [_s(k) for k in order],
                          doc='`TcoordContentItem.__init__`: the attribute written by branch 1, 2, 3'))
    out.append(lean_table('tcoordBranchArgs', 'List String', [_s(k) for k in args],
                          doc='`TcoordContentItem.__init__`: the parameter tested by branch 1, 2, 3'))

    # ---- TcoordContentItem.value: nested try / except AttributeError
    fn = find_func(tree, 'TcoordContentItem.value')
    body = strip_doc(fn.body)
    shas.append(span_sha(body))
    reads = []
    cur = body
    while True:
        tr = [s for s in cur if isinstance(s, ast.Try)]
        if len(tr) == 1:
            t = tr[0]
            if len(t.body) != 1 or len(t.handlers) != 1 or _norm(t.handlers[0].type) != 'AttributeError':
                raise Unsupported('TcoordContentItem.value: try: value = self.X except AttributeError: … expected')
            m = _re_full(r'value=self\.(\w+)', _norm(t.body[0]))
            if not m:
                raise Unsupported('TcoordContentItem.value: value = self.<Keyword> expected in try')
            reads.append(m)
            cur = t.handlers[0].body
        else:
            m = [_re_full(r'value=self\.(\w+)', _norm(s)) for s in cur if isinstance(s, ast.Assign)]
            m = [x for x in m if x]
            if len(m) != 1:
                raise Unsupported('TcoordContentItem.value: innermost fall-back value = self.<Keyword> expected')
            reads.append(m[0])
            break
    out.append(lean_table('tcoordReadOrder', 'List String', [_s(k) for k in reads],
                          doc='`TcoordContentItem.value`: the attributes in the order they are tried'))

    # ---- ImageContentItem.__init__: frame / segment numbers
    fn = find_func(tree, 'ImageContentItem.__init__')
    for arg, kw, lean in (('referenced_frame_numbers', 'ReferencedFrameNumber', 'imageFramesCheck'),
                          ('referenced_segment_numbers', 'ReferencedSegmentNumber', 'imageSegmentsCheck')):
        g = _if_with(fn, f'{arg}isnotNone')
        shas.append(span_sha([g]))
        if g.orelse:
            raise Unsupported(f'ImageContentItem.__init__: else branch on {arg}')
        stmts, n = _replace_stmt([g], lambda s: _writes(s, 'item') == kw and _norm(s.value) == arg, lambda s: [_ret('1')])
        if n != 1:
            raise Unsupported(f'ImageContentItem.__init__: item.{kw} = {arg} expected exactly once')
        stmts, n = _replace_stmt(stmts, lambda s: _norm(s) == f'{arg}=list({arg})', lambda s: [])
        if n != 1:
            raise Unsupported(f'ImageContentItem.__init__: {arg} = list({arg}) expected exactly once')
        stmts = _int_guard(stmts, arg, 'fractional', 'ImageContentItem.__init__')
        tbl = {f'{arg}isnotNone': 'given', f'np.ndim({arg})': 'n_axes', f'len({arg})': 'n'}
        out.append(translate_block(_rewrite(stmts, tbl) + [_ret('0')], lean,
                                   [('given', 'bool'), ('n_axes', 'int'), ('n', 'int'), ('fractional', 'bool')], {},
                                   doc=f'`ImageContentItem.__init__`: 1 = {kw} written (a sequence, n_axes > 0, as a list; a scalar as it '
                                       'is), 0 = not written; an empty sequence and a number with a fractional part are refused'))

    # ---- WaveformContentItem.__init__: channels
    fn = find_func(tree, 'WaveformContentItem.__init__')
    g = _if_with(fn, 'referenced_waveform_channelsisnotNone')
    shas.append(span_sha([g]))
    flat = 'item.ReferencedWaveformChannels=[iforiteminreferenced_waveform_channelsforiinitem]'
    stmts, n = _replace_stmt([g], lambda s: _norm(s) == flat, lambda s: [_ret('1')])
    if n != 1 or g.orelse:
        raise Unsupported('WaveformContentItem.__init__: the flattening of the channel pairs changed')
    stmts = _int_guard(stmts, 'referenced_waveform_channels', 'fractional', 'WaveformContentItem.__init__')
    tbl = {'referenced_waveform_channelsisnotNone': 'given', 'len(referenced_waveform_channels)': 'n',
           'any((len(pair)!=2forpairinreferenced_waveform_channels))': 'some_not_pair'}
    out.append(translate_block(_rewrite(stmts, tbl) + [_ret('0')], 'waveformChannelsCheck',
                               [('given', 'bool'), ('n', 'int'), ('some_not_pair', 'bool'), ('fractional', 'bool')], {},
                               doc='`WaveformContentItem.__init__`: 1 = the flattened pairs are written, 0 = nothing; an empty '
                                   'list, items that are not pairs and numbers with a fractional part are refused (in this order)'))

    # ---- NumContentItem.__init__: type guard
    fn = find_func(tree, 'NumContentItem.__init__')
    g = [s for s in fn.body if isinstance(s, ast.If) and 'isinstance(value,' in _norm(s.test) and 'TypeError' in _norm(s)]
    if len(g) != 1:
        raise Unsupported('NumContentItem.__init__: type guard of value not found')
    shas.append(span_sha(g))
    call = [c for c in ast.walk(g[0].test) if isinstance(c, ast.Call) and _norm(c.func) == 'isinstance']
    if len(call) != 1 or not isinstance(call[0].args[1], ast.Tuple) or not all(isinstance(e, ast.Name) for e in call[0].args[1].elts):
        raise Unsupported('NumContentItem.__init__: isinstance(value, (<types>)) expected')
    out.append(lean_table('numAcceptedTypes', 'List String', [_s(e.id) for e in call[0].args[1].elts],
                          doc='`NumContentItem.__init__`: the types `value` may be an instance of'))
    out.append(translate_block(_rewrite(g, {_norm(call[0]): 'is_accepted_type'}) + [_ret('True')], 'numTypeGuard',
                               [('is_accepted_type', 'bool')], {}, doc='`NumContentItem.__init__`: TypeError unless value is an instance of the accepted types'))
    pos = [fn.body.index(g[0]), [i for i, s in enumerate(fn.body) if 'NumericValue=DS(value,auto_format=True)' in _norm(s)]]
    if len(pos[1]) != 1 or pos[1][0] < pos[0]:
        raise Unsupported('NumContentItem.__init__: NumericValue = DS(value, auto_format=True) no longer follows the type guard')

    # ---- the list-or-scalar branch of the two IMAGE accessors
    for prop, kw, lean in (('referenced_frame_numbers', 'ReferencedFrameNumber', 'imageFramesRead'),
                           ('referenced_segment_numbers', 'ReferencedSegmentNumber', 'imageSegmentsRead')):
        fn = find_func(tree, 'ImageContentItem.' + prop)
        body = strip_doc(fn.body)
        shas.append(span_sha(body))
        shapes = {'returnNone': '0', 'return[int(val)]': '1', 'return[int(v)forvinval]': '2'}
        stmts, n = _replace_stmt(body, lambda s: isinstance(s, ast.Return) and _norm(s) in shapes, lambda s: [_ret(shapes[_norm(s)])])
        stmts = [s for s in stmts if not (isinstance(s, ast.Assign) and _norm(s) == f'val=self.ReferencedSOPSequence[0].{kw}')]
        if n != 3 or len(stmts) != len(body) - 1:
            raise Unsupported(f'ImageContentItem.{prop}: return None / [int(val)] / [int(v) for v in val] and val = …[0].{kw} expected')
        tbl = {f"hasattr(self.ReferencedSOPSequence[0],'{kw}')": 'present', 'isinstance(val,(MultiValue,list))': 'is_list'}
        out.append(translate_block(_rewrite(stmts, tbl), lean, [('present', 'bool'), ('is_list', 'bool')], {},
                                   doc=f'`ImageContentItem.{prop}`: 0 = None, 1 = the bare value wrapped in a list, 2 = the list, item by item'))

    # ---- defaults of every optional parameter of the constructors and of the parsing entry points
    rows = []
    for node in tree.body:
        if not isinstance(node, ast.ClassDef) or not (node.name.endswith('ContentItem') or node.name == 'ContentSequence'):
            continue
        for f in node.body:
            if isinstance(f, ast.FunctionDef) and f.name in ('__init__', 'from_dataset', 'from_sequence'):
                a = f.args
                names = [x.arg for x in a.args]
                for nm, dv in zip(names[len(names) - len(a.defaults):], a.defaults):
                    rows.append(f'({_s(node.name + "." + f.name)}, {_s(nm)}, {_s(ast.unparse(dv))})')
                if a.kwonlyargs or a.vararg or a.kwarg:
                    raise Unsupported(f'{node.name}.{f.name}: keyword-only / variadic parameters')
    shas.append(hashlib.sha256(';'.join(rows).encode()).hexdigest())
    out.append(lean_table('srDefaults', 'List (String × String × String)', rows,
                          doc='(class.method, parameter, default value as written in the source) for every optional parameter'))

    # ---- ContainerContentItem.__init__: the two ContinuityOfContent strings
    fn = find_func(tree, 'ContainerContentItem.__init__')
    g = _if_with(fn, 'is_content_continuous')
    if _norm(g.test) != 'is_content_continuous' or len(g.body) != 1 or len(g.orelse) != 1:
        raise Unsupported('ContainerContentItem.__init__: if is_content_continuous: … else: … expected')
    vals = []
    for st in (g.body[0], g.orelse[0]):
        if _writes(st, 'self') != 'ContinuityOfContent' or not isinstance(st.value, ast.Constant) or not isinstance(st.value.value, str):
            raise Unsupported('ContainerContentItem.__init__: self.ContinuityOfContent = <string> expected in both branches')
        vals.append(st.value.value)
    shas.append(span_sha([g]))
    out.append(lean_table('containerContinuity', 'List (Bool × String)', [f'(true, {_s(vals[0])})', f'(false, {_s(vals[1])})'],
                          doc='`ContainerContentItem.__init__`: ContinuityOfContent for is_content_continuous true / false'))
    mr = [s for s in ast.walk(fn) if isinstance(s, ast.Assign) and _norm(s.targets[0]) == 'item.MappingResource']
    if len(mr) != 1 or not isinstance(mr[0].value, ast.Constant):
        raise Unsupported('ContainerContentItem.__init__: item.MappingResource = <string> expected')
    out.append(f'/-- `ContainerContentItem.__init__`: the mapping resource written with a template identifier -/\ndef containerMappingResource : String := {_s(mr[0].value.value)}')
    return '\n\n'.join(out), hashlib.sha256(''.join(shas).encode()).hexdigest()


TARGETS['T13sa'] = {'file': 'sr/value_types.py', 'build': build_T13sa}
