"""Translation targets owned by C03.

TC03pyr  seg/pyramid.py `create_segmentation_pyramid`, single-source branch: the assignments that lead to
         `row_spacing` / `column_spacing` of a level (-> Gen.pyramidSpacing) and the size of a down-sampled
         level `output_size` for a factor `f` (-> Gen.pyramidLevelSize).
"""
from __future__ import annotations

import ast
import re

from py2lean import Unsupported, find_func, span_sha, strip_doc, translate_block
from targets import assigns_to, find_if, ret_tuple


def build_pyr(tree):
    fn = find_func(tree, 'create_segmentation_pyramid')
    # the branch that builds PixelMeasuresSequence(pixel_spacing=(row_spacing, column_spacing), ...)
    cands = [n for n in ast.walk(fn) if isinstance(n, ast.If) and 'n_sources == 1' in ast.unparse(n.test)
             and any(isinstance(s, ast.Assign) and isinstance(s.targets[0], ast.Name) and s.targets[0].id == 'row_spacing'
                     for s in n.body)]
    if len(cands) != 1 or 'PixelMeasuresSequence' not in ast.unparse(cands[0]):
        raise Unsupported('single-source spacing branch of create_segmentation_pyramid not found')
    iff = cands[0]
    names = {'row_spacing', 'column_spacing'}
    # every statement of the branch body that only assigns plain names and (transitively) feeds the two spacings
    body = list(iff.body)
    keep = []
    needed = set(names)
    for s in reversed(body):
        tg = None
        if isinstance(s, ast.Assign) and len(s.targets) == 1 and isinstance(s.targets[0], ast.Name):
            tg = {s.targets[0].id}
            used = {n.id for n in ast.walk(s.value) if isinstance(n, ast.Name)}
        elif isinstance(s, ast.If):
            tg = {t.targets[0].id for t in ast.walk(s) if isinstance(t, ast.Assign) and isinstance(t.targets[0], ast.Name)}
            used = {n.id for n in ast.walk(s) if isinstance(n, ast.Name) and isinstance(n.ctx, ast.Load)}
        if tg and tg & needed:
            keep.append(s)
            needed |= used
    keep.reverse()
    if not keep:
        raise Unsupported('assignments to row_spacing/column_spacing not found')
    attrs = {
        'src_pixel_spacing[0]': ('rat', 'srcRowSpacing'), 'src_pixel_spacing[1]': ('rat', 'srcColSpacing'),
        'pixel_arrays[0].ndim': ('int', 'ndim0'), 'pixel_arrays[0].shape[0]': ('int', 'shape0_0'),
        'pixel_arrays[0].shape[1]': ('int', 'shape0_1'), 'pixel_arrays[0].shape[2]': ('int', 'shape0_2'),
        'pixel_array.ndim': ('int', 'ndim'), 'pixel_array.shape[0]': ('int', 'shape_0'),
        'pixel_array.shape[1]': ('int', 'shape_1'), 'pixel_array.shape[2]': ('int', 'shape_2'),
    }
    # src_pixel_spacing itself is an attribute read (a DS multi-value): drop its assignment, keep the indexed reads
    keep = [s for s in keep if not (isinstance(s, ast.Assign) and s.targets[0].id in
                                    ('src_pixel_spacing', 'source_pixel_measures', 'src_slice_thickness'))]
    block = keep + [ret_tuple(['row_spacing', 'column_spacing'])]
    for s in block:
        ast.fix_missing_locations(s)
    t1 = translate_block(block, 'pyramidSpacing', [], attrs,
                         doc='`create_segmentation_pyramid`, single source: (row_spacing, column_spacing) of a level from the '
                             'rank/shape of `pixel_arrays[0]` and of the level array `pixel_array`')
    # size of a down-sampled level
    sizes = [n for n in ast.walk(fn) if isinstance(n, ast.Assign) and isinstance(n.targets[0], ast.Name)
             and n.targets[0].id == 'output_size' and 'downsample_factors' not in ast.unparse(n.value)
             and '/ f' in ast.unparse(n.value)]
    if len(sizes) != 1 or not isinstance(sizes[0].value, ast.Tuple) or len(sizes[0].value.elts) != 2:
        raise Unsupported('output_size = (int(columns / f), int(rows / f)) not found')
    ret = ast.Return(value=sizes[0].value)
    ast.fix_missing_locations(ret)
    t2 = translate_block([ret], 'pyramidLevelSize', [('f', 'rat')],
                         {'source_images[0].TotalPixelMatrixColumns': ('int', 'totalColumns'),
                          'source_images[0].TotalPixelMatrixRows': ('int', 'totalRows')},
                         doc='`create_segmentation_pyramid`: `output_size` (columns, rows) of the level for factor `f`')
    return t1 + '\n\n' + t2, span_sha(keep + [sizes[0]])


TARGETS = {'TC03pyr': {'file': 'seg/pyramid.py', 'build': build_pyr}}


# ---------------------------------------------------------------------------------------------- get_volume slicing
def _slice3(node, what):
    """(lower, upper) expression pairs of a 3-axis subscript `x[s0, s1, s2]`; axis 0 must be `:`."""
    if not (isinstance(node, ast.Subscript) and isinstance(node.slice, ast.Tuple) and len(node.slice.elts) == 3
            and all(isinstance(e, ast.Slice) and e.step is None for e in node.slice.elts)):
        raise Unsupported(f'{what}: not a subscript with three plain slices')
    s0, s1, s2 = node.slice.elts
    if s0.lower is not None or s0.upper is not None:
        raise Unsupported(f'{what}: first axis is not `:`')
    return s1, s2


def _volume_slicing(tree, qual, prefix):
    fn = find_func(tree, qual)
    branches = [n for n in ast.walk(fn) if isinstance(n, ast.If) and ast.unparse(n.test) == 'self.is_tiled'
                and any(isinstance(s, ast.Assign) and ast.unparse(s.targets[0]) == 'affine' for s in n.body)
                and any(isinstance(s, ast.Assign) and ast.unparse(s.targets[0]) == 'affine' for s in n.orelse)]
    if len(branches) != 1:
        raise Unsupported(f'{qual}: `if self.is_tiled:` with an `affine = ...` in both branches not found')
    iff = branches[0]
    params = [('row_start', 'int'), ('row_end', 'int'), ('column_start', 'int'), ('column_end', 'int')]

    def affine_sub(stmts, what):
        a = [s for s in stmts if isinstance(s, ast.Assign) and ast.unparse(s.targets[0]) == 'affine']
        v = a[-1].value
        if not (isinstance(v, ast.Attribute) and v.attr == 'affine' and isinstance(v.value, ast.Subscript)
                and ast.unparse(v.value.value) == 'volume_geometry'):
            raise Unsupported(f'{what}: affine is not volume_geometry[...].affine')
        return a[-1], v.value

    def ret(exprs):
        r = ast.Return(value=ast.Tuple(elts=list(exprs), ctx=ast.Load()))
        ast.fix_missing_locations(r)
        return r
    # tiled branch: volume_geometry[:, lo1:, lo2:]
    st_t, sub_t = affine_sub(iff.body, f'{qual} tiled branch')
    s1, s2 = _slice3(sub_t, f'{qual} tiled branch')
    if s1.lower is None or s2.lower is None or s1.upper is not None or s2.upper is not None:
        raise Unsupported(f'{qual} tiled branch: expected volume_geometry[:, a:, b:]')
    t1 = translate_block([ret([s1.lower, s2.lower])], prefix + 'TiledGeomLower', params, {},
                         doc=f'`{qual}`, tiled branch: lower bounds (rows, columns) of the slice taken of the geometry')
    # stacked branch: array = array[:, a:b, c:d]; affine = volume_geometry[:, a:b, c:d].affine
    st_s, sub_s = affine_sub(iff.orelse, f'{qual} stacked branch')
    g1, g2 = _slice3(sub_s, f'{qual} stacked branch (geometry)')
    arrs = [s for s in iff.orelse if isinstance(s, ast.Assign) and ast.unparse(s.targets[0]) == 'array'
            and isinstance(s.value, ast.Subscript) and ast.unparse(s.value.value) == 'array']
    if len(arrs) != 1:
        raise Unsupported(f'{qual} stacked branch: array = array[...] not found')
    a1, a2 = _slice3(arrs[0].value, f'{qual} stacked branch (array)')
    for s in (g1, g2, a1, a2):
        if s.lower is None or s.upper is None:
            raise Unsupported(f'{qual} stacked branch: expected explicit bounds a:b')
    t2 = translate_block([ret([g1.lower, g1.upper, g2.lower, g2.upper])], prefix + 'StackGeomSlice', params, {},
                         doc=f'`{qual}`, stacked branch: (row lower, row upper, column lower, column upper) of the slice '
                             'taken of the geometry')
    t3 = translate_block([ret([a1.lower, a1.upper, a2.lower, a2.upper])], prefix + 'StackArraySlice', params, {},
                         doc=f'`{qual}`, stacked branch: the same bounds of the slice taken of the pixel array')
    return t1 + '\n\n' + t2 + '\n\n' + t3, span_sha([st_t, st_s, arrs[0]])


TARGETS['TC03segvol'] = {'file': 'seg/sop.py', 'build': lambda tree: _volume_slicing(tree, 'Segmentation.get_volume', 'seg')}
TARGETS['TC03imgvol'] = {'file': 'image.py', 'build': lambda tree: _volume_slicing(tree, 'Image.get_volume', 'img')}


def build_stack(tree):
    """`_Image._get_stacked_volume_geometry`: the slice taken of the geometry and the frame filter / output slot"""
    fn = find_func(tree, '_Image._get_stacked_volume_geometry')
    gs = [s for s in ast.walk(fn) if isinstance(s, ast.Assign) and ast.unparse(s.targets[0]) == 'geometry'
          and isinstance(s.value, ast.Subscript) and ast.unparse(s.value.value) == 'geometry']
    if len(gs) != 1 or not isinstance(gs[0].value.slice, ast.Slice) or gs[0].value.slice.step is not None \
            or gs[0].value.slice.lower is None or gs[0].value.slice.upper is None:
        raise Unsupported('geometry = geometry[a:b] not found in _get_stacked_volume_geometry')
    sl = gs[0].value.slice
    r1 = ast.Return(value=ast.Tuple(elts=[sl.lower, sl.upper], ctx=ast.Load()))
    loops = [n for n in ast.walk(fn) if isinstance(n, ast.For) and 'volume_positions' in ast.unparse(n.iter)
             and ast.unparse(n.target) == '(f, vol_pos)']
    if len(loops) != 1 or len(loops[0].body) != 1 or not isinstance(loops[0].body[0], ast.If) or loops[0].body[0].orelse:
        raise Unsupported('frame filter loop `for f, vol_pos in zip(frame_numbers, volume_positions)` not found')
    iff = loops[0].body[0]
    if ast.unparse(loops[0].iter) != 'zip(frame_numbers, volume_positions)':
        raise Unsupported('frame filter loop no longer zips frame_numbers with volume_positions')
    if len(iff.body) != 1 or not (isinstance(iff.body[0], ast.Expr) and isinstance(iff.body[0].value, ast.Call)
                                  and ast.unparse(iff.body[0].value.func) == 'frame_positions.append'):
        raise Unsupported('frame filter body is not frame_positions.append(...)')
    arg = iff.body[0].value.args[0]
    if not (isinstance(arg, ast.Tuple) and len(arg.elts) == 2 and ast.unparse(arg.elts[0]) == 'f'):
        raise Unsupported('appended item is not (f, <slot>)')
    r2 = ast.Return(value=ast.Tuple(elts=[iff.test, arg.elts[1]], ctx=ast.Load()))
    nin = [s for s in ast.walk(fn) if isinstance(s, ast.Assign) and ast.unparse(s.targets[0]) == 'initial_number_of_slices']
    if len(nin) != 1 or ast.unparse(nin[0].value) != 'max(volume_positions) + 1':
        raise Unsupported('initial_number_of_slices = max(volume_positions) + 1 not found')
    r3 = ast.Return(value=ast.parse('max_volume_position + 1').body[0].value)
    oi = [s for s in ast.walk(fn) if isinstance(s, ast.Assign) and ast.unparse(s.targets[0]) == 'origin_slice_index']
    if len(oi) != 1 or ast.unparse(oi[0].value) != 'volume_positions.index(0)':
        raise Unsupported('origin_slice_index = volume_positions.index(0) not found')
    for r in (r1, r2, r3):
        ast.fix_missing_locations(r)
    t1 = translate_block([r1], 'stackGeomSlice', [('slice_start', 'int'), ('slice_end', 'int')], {},
                         doc='`_get_stacked_volume_geometry`: bounds of `geometry[a:b]`')
    t2 = translate_block([r2], 'stackFrameSlot', [('vol_pos', 'int'), ('slice_start', 'int'), ('slice_end', 'int')], {},
                         doc='`_get_stacked_volume_geometry`: (frame kept?, output slot) for a frame at volume position `vol_pos`')
    t3 = translate_block([r3], 'stackInitialSlices', [('max_volume_position', 'int')], {},
                         doc='`_get_stacked_volume_geometry`: number of slices before slicing, from `max(volume_positions)`; '
                             'the origin is the frame at `volume_positions.index(0)` (checked textually)')
    return t1 + '\n\n' + t2 + '\n\n' + t3, span_sha([gs[0], loops[0], nin[0], oi[0]])


TARGETS['TC03stack'] = {'file': 'image.py', 'build': build_stack}


# ---------------------------------------------------------------------------------------------- wiring tables
# Source text of the expressions that decide WHICH value goes WHERE (affine column -> attribute, attribute -> argument),
# with single-assignment locals inlined so that renaming a local does not change the table.
import copy
import hashlib


def _simple_assigns(fn):
    """name -> value node for locals assigned exactly once by a plain `name = value`."""
    cnt, val = {}, {}
    for n in ast.walk(fn):
        tg = []
        if isinstance(n, ast.Assign):
            for t in n.targets:
                tg += [e.id for e in ast.walk(t) if isinstance(e, ast.Name)]
            if len(n.targets) == 1 and isinstance(n.targets[0], ast.Name):
                val[n.targets[0].id] = n.value
        elif isinstance(n, (ast.AugAssign, ast.AnnAssign)) and isinstance(n.target, ast.Name):
            tg = []                      # in-place normalisation (`v /= norm`) does not re-wire anything
        elif isinstance(n, (ast.For, ast.comprehension)):
            tg = [e.id for e in ast.walk(n.target) if isinstance(e, ast.Name)]
            for t in tg:
                cnt[t] = cnt.get(t, 0) + 5
        for t in tg:
            cnt[t] = cnt.get(t, 0) + 1
    params = {a.arg for a in fn.args.args + fn.args.kwonlyargs}
    return {k: v for k, v in val.items() if cnt.get(k) == 1 and k not in params}


def _inline(fn, node, depth=6):
    env = _simple_assigns(fn)

    class T(ast.NodeTransformer):
        def __init__(self, d):
            self.d = d

        def visit_Name(self, n):
            if isinstance(n.ctx, ast.Load) and n.id in env and self.d > 0:
                return T(self.d - 1).visit(copy.deepcopy(env[n.id]))
            return n
    return ast.unparse(T(depth).visit(copy.deepcopy(node)))


def _kwargs_of_call(fn, callee, what, nth=0, count=1, depth=6):
    calls = [n for n in ast.walk(fn) if isinstance(n, ast.Call) and ast.unparse(n.func).endswith(callee)]
    calls.sort(key=lambda n: n.lineno)
    if len(calls) != count:
        raise Unsupported(f'{what}: expected {count} call(s) of {callee}, found {len(calls)}')
    c = calls[nth]
    if c.args:
        raise Unsupported(f'{what}: positional arguments in the call of {callee}')
    return [(k.arg, _inline(fn, k.value, depth)) for k in c.keywords]


def _lean_str(x):
    return '"' + x.replace('\\', '\\\\').replace('"', '\\"') + '"'


def _table(name, rows, doc):
    body = ',\n   '.join(f'({_lean_str(k)}, {_lean_str(v)})' for k, v in rows)
    return f'/-- {doc} -/\ndef {name} : List (String × String) :=\n  [{body}]'


def _return_inlined(fn, what):
    r = [n for n in ast.walk(fn) if isinstance(n, ast.Return) and n.value is not None]
    if len(r) != 1:
        raise Unsupported(f'{what}: expected one return')
    return _inline(fn, r[0].value)


_AUG = {ast.Div: '/', ast.Mult: '*', ast.Add: '+', ast.Sub: '-', ast.FloorDiv: '//', ast.Mod: '%', ast.Pow: '**',
        ast.MatMult: '@'}


def _inplace_inlined(fn, what):
    """Every in-place statement of the function (`x /= e`, `x[...] = e`, `del`, ...) with locals inlined, sorted: what happens
    to a value between its single assignment and the return is part of the pinned text.  Anything that is not a plain
    assignment, a docstring, a return or an augmented assignment of a local makes the pin refuse."""
    env = _simple_assigns(fn)
    out = []
    for st in strip_doc(fn.body):
        if isinstance(st, (ast.Return,)):
            continue
        if isinstance(st, ast.Assign) and len(st.targets) == 1 and isinstance(st.targets[0], ast.Name):
            continue
        if isinstance(st, ast.AugAssign) and isinstance(st.target, ast.Name) and type(st.op) in _AUG:
            tgt = _inline(fn, ast.Name(id=st.target.id, ctx=ast.Load())) if st.target.id in env else st.target.id
            out.append(f'{tgt} {_AUG[type(st.op)]}= {_inline(fn, st.value)}')
            continue
        raise Unsupported(f'{what}: statement outside the pinned fragment: {ast.unparse(st)[:80]}')
    return ' ; '.join(sorted(out))


def build_wire_volume(tree):
    """volume.py: which affine columns become orientation / spacings / positions, and how attributes become an affine"""
    rows = []
    for prop in ('direction_cosines', 'pixel_spacing', 'spacing_between_slices'):
        f = find_func(tree, '_VolumeBase.' + prop)
        rows.append((prop, _return_inlined(f, prop)))
        rows.append((prop + '.inplace', _inplace_inlined(f, prop)))
    f = find_func(tree, '_VolumeBase.get_plane_positions')
    calls = [n for n in ast.walk(f) if isinstance(n, ast.Call) and ast.unparse(n.func) == 'self.map_indices_to_reference']
    if len(calls) != 1:
        raise Unsupported('get_plane_positions: map_indices_to_reference call not found')
    rows.append(('get_plane_positions', _inline(f, calls[0])))
    f = find_func(tree, '_VolumeBase.get_pixel_measures')
    rows += [('get_pixel_measures.' + k, v) for k, v in _kwargs_of_call(f, 'PixelMeasuresSequence', 'get_pixel_measures')]
    rows.append(('get_plane_orientation', _return_inlined(find_func(tree, '_VolumeBase.get_plane_orientation'), 'get_plane_orientation')))
    f = find_func(tree, 'VolumeGeometry.from_attributes')
    rows += [('from_attributes.' + k, v) for k, v in _kwargs_of_call(f, 'create_affine_matrix_from_attributes', 'from_attributes')]
    rows += [('from_attributes.cls.' + k, v) for k, v in _kwargs_of_call(f, 'cls', 'from_attributes')]
    text = _table('wiringVolume', rows, 'volume.py: affine columns -> recorded orientation / spacings / plane positions, and '
                                        'attributes -> affine (source text, single-assignment locals inlined)')
    return text, hashlib.sha256(repr(rows).encode()).hexdigest()


def build_wire_image(tree):
    """image.py: the attributes handed to VolumeGeometry.from_attributes in the stacked, tiled and single-frame case"""
    rows = []
    f = find_func(tree, '_Image._get_stacked_volume_geometry')
    rows += [('stacked.' + k, v) for k, v in _kwargs_of_call(f, 'VolumeGeometry.from_attributes', 'stacked geometry', depth=1)]
    rows += [('stacked.get_volume_positions.' + k, v) for k, v in _kwargs_of_call(f, 'get_volume_positions', 'stacked geometry', depth=1)]
    f = find_func(tree, '_Image._get_volume_geometry')
    rows += [('tiled.' + k, v) for k, v in _kwargs_of_call(f, 'VolumeGeometry.from_attributes', 'tiled geometry', 0, 2)]
    rows += [('single.' + k, v) for k, v in _kwargs_of_call(f, 'VolumeGeometry.from_attributes', 'single-frame geometry', 1, 2)]
    text = _table('wiringImage', rows, 'image.py: the attributes handed to VolumeGeometry.from_attributes for stacked, tiled and '
                                       'single-frame images (source text, single-assignment locals inlined)')
    return text, hashlib.sha256(repr(rows).encode()).hexdigest()


TARGETS['TC03wireV'] = {'file': 'volume.py', 'build': build_wire_volume}
TARGETS['TC03wireI'] = {'file': 'image.py', 'build': build_wire_image}


# ---------------------------------------------------------------------------------------------- Segmentation.__init__ wiring
def _block_env(stmts):
    env = {}
    for st in stmts:
        for n in ast.walk(st):
            if isinstance(n, ast.Assign) and len(n.targets) == 1 and isinstance(n.targets[0], ast.Name):
                env.setdefault(n.targets[0].id, []).append(n.value)
    return {k: v[0] for k, v in env.items() if len(v) == 1}


def _inline_env(node, env, depth=5):
    class T(ast.NodeTransformer):
        def __init__(self, d):
            self.d = d

        def visit_Name(self, n):
            if isinstance(n.ctx, ast.Load) and n.id in env and self.d > 0:
                return T(self.d - 1).visit(copy.deepcopy(env[n.id]))
            return n
    return ast.unparse(T(depth).visit(copy.deepcopy(node)))


def build_wire_seg(tree):
    """seg/sop.py Segmentation.__init__ / _add_slide_coordinate_metadata: what placement is recorded"""
    fn = find_func(tree, 'Segmentation.__init__')
    rows = []
    # (1) placement taken from a volume
    ifs = [n for n in ast.walk(fn) if isinstance(n, ast.If) and ast.unparse(n.test) == 'from_volume']
    if len(ifs) != 1:
        raise Unsupported('`if from_volume:` not found')
    env = _block_env(ifs[0].body)
    for name in ('plane_positions', 'plane_orientation', 'pixel_measures'):
        if name not in env:
            raise Unsupported(f'from_volume block: {name} is not assigned exactly once')
        rows.append(('from_volume.' + name, ast.unparse(env[name])))
    # (2) inference of SpacingBetweenSlices
    ifs = [n for n in ast.walk(fn) if isinstance(n, ast.If) and "'SpacingBetweenSlices' not in pixel_measures[0]" in ast.unparse(n.test)]
    if len(ifs) != 1:
        raise Unsupported("`if 'SpacingBetweenSlices' not in pixel_measures[0]:` not found")
    blk = ifs[0]
    env = _block_env(blk.body)
    calls = [n for n in ast.walk(blk) if isinstance(n, ast.Call) and ast.unparse(n.func) == 'get_volume_positions']
    if len(calls) != 1 or calls[0].args:
        raise Unsupported('spacing inference: one keyword-only call of get_volume_positions expected')
    for k in calls[0].keywords:
        rows.append(('spacing_inference.' + k.arg, _inline_env(k.value, env)))
    rec = [n for n in ast.walk(blk) if isinstance(n, ast.Assign) and ast.unparse(n.targets[0]) == 'pixel_measures[0].SpacingBetweenSlices']
    if len(rec) != 1:
        raise Unsupported('spacing inference: assignment of pixel_measures[0].SpacingBetweenSlices not found')
    rows.append(('spacing_inference.recorded', ast.unparse(rec[0].value)))
    guards = [n for n in ast.walk(blk) if isinstance(n, ast.If) and n is not blk]
    rows.append(('spacing_inference.recorded_if', ' ; '.join(ast.unparse(g.test) for g in guards)))
    rows.append(('spacing_inference.only_if', ast.unparse(blk.test)))
    # (3) user-placed total pixel matrix
    ifs = [n for n in ast.walk(fn) if isinstance(n, ast.If) and ast.unparse(n.test) == 'plane_positions is None'
           and any(isinstance(x, ast.Assign) and ast.unparse(x.targets[0]) == 'origin_preserved' for x in n.body)]
    if len(ifs) != 1:
        raise Unsupported('tiled placement: `if plane_positions is None:` with origin_preserved not found')
    user = ifs[0].orelse
    env = _block_env(user)
    for name in ('x_offset', 'y_offset', 'z_offset'):
        if name not in env:
            raise Unsupported(f'tiled placement: {name} not assigned once in the user branch')
        rows.append(('tiled.user_' + name, _inline_env(env[name], {k: v for k, v in env.items() if k == 'pp'})))
    outer = _simple_assigns(fn)
    for name in ('src_x_offset', 'src_y_offset', 'src_z_offset', 'image_position', 'are_total_pixel_matrix_locations_preserved'):
        if name not in outer:
            raise Unsupported(f'tiled placement: {name} not assigned exactly once')
        rows.append(('tiled.' + name, _inline_env(outer[name], {k: v for k, v in outer.items() if k == 'src_origin_seq'})))
    rows += [('tiled.tile_positions.' + k, v) for k, v in _kwargs_of_call(fn, 'compute_tile_positions_per_frame', 'tile positions', depth=0)]
    rows += [('slide_metadata.call.' + k, v) for k, v in _kwargs_of_call(fn, 'self._add_slide_coordinate_metadata', 'slide metadata call', depth=0)]
    # origin_preserved as an executable definition
    op = [x for x in user if isinstance(x, ast.Assign) and ast.unparse(x.targets[0]) == 'origin_preserved']
    if len(op) != 1:
        raise Unsupported('tiled placement: origin_preserved of the user branch not found')
    ret = ast.Return(value=op[0].value)
    ast.fix_missing_locations(ret)
    t_op = translate_block([ret], 'originPreserved',
                           [(n, 'rat') for n in ('x_offset', 'y_offset', 'z_offset', 'src_x_offset', 'src_y_offset', 'src_z_offset')], {},
                           doc='`Segmentation.__init__`, tile_pixel_array with a user-supplied plane position: `origin_preserved`')
    # (4) what _add_slide_coordinate_metadata records as origin
    f2 = find_func(tree, 'Segmentation._add_slide_coordinate_metadata')
    top = [n for n in f2.body if isinstance(n, ast.If)]
    if len(top) != 1:
        raise Unsupported('_add_slide_coordinate_metadata: one top-level if/elif/else expected')
    rows.append(('slide_metadata.copy_source_origin_if', ast.unparse(top[0].test)))
    cp = [n for n in top[0].body if isinstance(n, ast.Assign) and ast.unparse(n.targets[0]) == 'self.TotalPixelMatrixOriginSequence']
    if len(cp) != 1:
        raise Unsupported('_add_slide_coordinate_metadata: copy of the source origin not found')
    rows.append(('slide_metadata.copied_origin', ast.unparse(cp[0].value)))
    env2 = _simple_assigns(f2)
    for name in ('x_origin', 'y_origin', 'z_origin'):
        if name not in env2:
            raise Unsupported(f'_add_slide_coordinate_metadata: {name} not assigned exactly once')
        rows.append(('slide_metadata.' + name, _inline(f2, env2[name], 4)))
    text = _table('wiringSeg', rows, 'seg/sop.py: which placement a Segmentation records (source text, block-local single-assignment '
                                     'locals inlined)')
    return t_op + '\n\n' + text, hashlib.sha256(repr(rows).encode()).hexdigest() + span_sha([op[0]])[:8]


TARGETS['TC03wireS'] = {'file': 'seg/sop.py', 'build': build_wire_seg}


def build_single(tree):
    """image.py `_get_volume_geometry`, single-frame branch: how the recorded SpacingBetweenSlices becomes the slice spacing"""
    fn = find_func(tree, '_Image._get_volume_geometry')
    outer = [n for n in fn.body if isinstance(n, ast.If) and 'is_multiframe_image' in ast.unparse(n.test)]
    if len(outer) != 1 or not outer[0].orelse:
        raise Unsupported('single-frame branch of _get_volume_geometry not found')
    inner = [n for n in outer[0].orelse if isinstance(n, ast.If)]
    if len(inner) != 1:
        raise Unsupported('single-frame branch: one guarded block expected')
    stmts = []
    for st in inner[0].body:
        txt = ast.unparse(st)
        if isinstance(st, ast.Assign) and ast.unparse(st.targets[0]) == 'spacing_between_slices':
            stmts.append(st)
        elif isinstance(st, ast.If) and 'spacing_between_slices' in txt:
            stmts.append(st)
    call = [n for n in ast.walk(inner[0]) if isinstance(n, ast.Call) and ast.unparse(n.func) == 'VolumeGeometry.from_attributes']
    if len(call) != 1:
        raise Unsupported('single-frame branch: from_attributes call not found')
    kw = {k.arg: k.value for k in call[0].keywords}
    if 'spacing_between_slices' not in kw:
        raise Unsupported('single-frame branch: spacing_between_slices not passed')
    block = [ast.parse(ast.unparse(s)).body[0] for s in stmts] + [ast.Return(value=kw['spacing_between_slices'])]
    for s in block:
        ast.fix_missing_locations(s)
    text = translate_block(block, 'singleFrameSpacing', [], {"self.get('SpacingBetweenSlices', 1.0)": ('rat', 'sbsOrDefault')},
                           doc='`_get_volume_geometry`, single-frame branch: slice spacing handed to from_attributes, from '
                               "`self.get('SpacingBetweenSlices', 1.0)`")
    return text, span_sha(stmts) + hashlib.sha256(ast.unparse(kw['spacing_between_slices']).encode()).hexdigest()[:8]


TARGETS['TC03single'] = {'file': 'image.py', 'build': build_single}


# ============================================================================================== bridges (tie T for hand-written parts)
class _Rename(ast.NodeTransformer):
    """Replace sub-expressions by names according to their unparsed text."""

    def __init__(self, mapping):
        self.mapping = mapping

    def generic_visit(self, node):
        try:
            key = ast.unparse(node)
        except Exception:  # noqa: BLE001
            key = None
        if key in self.mapping and isinstance(node, ast.expr):
            return ast.copy_location(ast.Name(id=self.mapping[key], ctx=ast.Load()), node)
        return super().generic_visit(node)


def _renamed(stmts, mapping):
    out = []
    for s in stmts:
        t = _Rename(mapping).visit(ast.parse(ast.unparse(s)).body[0])
        ast.fix_missing_locations(t)
        out.append(t)
    return out


def _ret(expr_src):
    r = ast.parse('return ' + expr_src).body[0]
    ast.fix_missing_locations(r)
    return r


def build_getitem(tree):
    """volume.py `_VolumeBase._prepare_getitem_index`: the bounds test `_check_slice` applies to a slice and, per axis, the
    emptiness test, the size and the index that becomes the new origin."""
    fn = find_func(tree, '_VolumeBase._prepare_getitem_index')
    inner = [n for n in fn.body if isinstance(n, ast.FunctionDef) and n.name == '_check_slice']
    if len(inner) != 1:
        raise Unsupported('_check_slice not found')
    chk = [s for s in strip_doc(inner[0].body)]
    if not all(isinstance(s, ast.If) for s in chk) or len(chk) != 2:
        raise Unsupported('_check_slice is no longer two guarded raises')
    m = {'val.start': 'start', 'val.stop': 'stop', 'self.spatial_shape[dim]': 'n'}
    blk = _renamed(chk, m) + [_ret('0')]
    t1 = translate_block(blk, 'getitemCheckSlice', [('start', 'optint'), ('stop', 'optint'), ('n', 'int')], {},
                         doc='`_prepare_getitem_index._check_slice`: which slice bounds are refused on an axis of length `n` (0 = accepted)')
    loops = [n for n in fn.body if isinstance(n, ast.For) and ast.unparse(n.iter) == 'range(0, 3)']
    if len(loops) != 1:
        raise Unsupported('per-axis loop `for d in range(0, 3)` not found')
    lp = loops[0]
    ifs = [s for s in lp.body if isinstance(s, ast.If) and 'len(tuple_index) > d' in ast.unparse(s.test)]
    if len(ifs) != 1:
        raise Unsupported('per-axis loop: `if len(tuple_index) > d` not found')
    body = ifs[0].body
    unpack = [s for s in body if isinstance(s, ast.Assign) and ast.unparse(s.targets[0]) == '(first, last, step)']
    if len(unpack) != 1 or ast.unparse(unpack[0].value) != 'index_item.indices(self.spatial_shape[d])':
        raise Unsupported('first, last, step = index_item.indices(self.spatial_shape[d]) not found')
    keep = [s for s in body if (isinstance(s, ast.Assign) and ast.unparse(s.targets[0]) in ('index_range', 'size'))
            or (isinstance(s, ast.If) and 'index_range' in ast.unparse(s.test))]
    if len(keep) != 3:
        raise Unsupported('per-axis arithmetic (index_range, emptiness test, size) changed shape')
    app = [s for s in ast.walk(lp) if isinstance(s, ast.Call) and ast.unparse(s.func) in ('origin_indices.append', 'new_shape.append')]
    org = [c for c in app if ast.unparse(c.func) == 'origin_indices.append']
    shp = [c for c in app if ast.unparse(c.func) == 'new_shape.append' and c in [x for b in body for x in ast.walk(b)]]
    if len(org) != 1 or len(shp) != 1:
        raise Unsupported('origin_indices.append / new_shape.append changed')
    vec = [s for s in ast.walk(lp) if isinstance(s, ast.Call) and ast.unparse(s.func) == 'new_vectors.append']
    if len(vec) != 1 or ast.unparse(vec[0].args[0]) != 'self._affine[:3, d] * step':
        raise Unsupported('new_vectors.append(self._affine[:3, d] * step) changed')
    ret = ast.Return(value=ast.Tuple(elts=[org[0].args[0], shp[0].args[0]], ctx=ast.Load()))
    ast.fix_missing_locations(ret)
    blk2 = [ast.parse(ast.unparse(s)).body[0] for s in keep] + [ret]
    for s in blk2:
        ast.fix_missing_locations(s)
    t2 = translate_block(blk2, 'getitemAxisStep', [('first', 'int'), ('last', 'int'), ('step', 'int')], {},
                         doc='`_prepare_getitem_index`, one axis, from `(first, last, step) = slice.indices(n)`: refusal of empty '
                             'results, then (index that becomes the new origin, size of the axis)')
    return t1 + '\n\n' + t2, span_sha(chk + keep) + hashlib.sha256((ast.unparse(org[0]) + ast.unparse(shp[0])).encode()).hexdigest()[:8]


def build_volpos(tree):
    """spatial.py `get_volume_positions`: constants, the normalisation of the hint, the spacing of a single position, the
    multiples of the `allow_missing_positions` branch, the mean gap of the strict branch, the perpendicularity test."""
    consts = {}
    for st in tree.body:
        if isinstance(st, ast.Assign) and len(st.targets) == 1 and isinstance(st.targets[0], ast.Name):
            consts[st.targets[0].id] = st.value
    from fractions import Fraction
    texts = []
    for py, ln in (('_DEFAULT_SPACING_RELATIVE_TOLERANCE', 'vpTolSpacing'), ('_DEFAULT_EQUALITY_TOLERANCE', 'vpTolEq'),
                   ('_DOT_PRODUCT_PERPENDICULAR_TOLERANCE', 'vpTolPerp')):
        v = consts.get(py)
        if not (isinstance(v, ast.Constant) and isinstance(v.value, float)):
            raise Unsupported(f'{py} is no longer a float literal')
        fr_ = Fraction(repr(v.value))
        texts.append(f'/-- `spatial.{py}` = {v.value!r} -/\ndef {ln} : Rat := ({fr_.numerator} : Rat) / {fr_.denominator}')
    fn = find_func(tree, 'get_volume_positions')
    body = strip_doc(fn.body)

    def head(st):
        if isinstance(st, ast.Assign):
            return 'assign ' + ast.unparse(st.targets[0])
        if isinstance(st, ast.If):
            return 'if ' + ast.unparse(st.test)[:60]
        if isinstance(st, ast.For):
            return 'for ' + ast.unparse(st.target)
        return type(st).__name__.lower()
    # every statement of the function and of both branches of `if allow_missing_positions:` is accounted for: a statement that
    # is not in these lists is NOT silently skipped (audit 2, C03-1) but makes the translation refuse
    want_top = ['if not sort', 'if spacing_hint is not None', 'if atol is not None and rtol is not None', 'assign image_positions_arr',
                'if image_positions_arr.ndim != 2 or image_positions_arr.shape[1', 'assign n', 'if n == 0', 'assign normal_vector',
                'assign (unique_positions, unique_index)', 'if not allow_duplicate_positions', 'if not sort',
                'if len(unique_positions) == 1', 'assign origin_distances', 'if sort', 'if allow_missing_positions',
                'if is_regular and enforce_handedness', 'assign pos1', 'assign pos2', 'assign span', 'assign span',
                'assign dot_product', 'assign is_perpendicular', 'if is_regular and is_perpendicular']
    got_top = [head(st) for st in body]
    if got_top != want_top:
        extra = [h for h in got_top if h not in want_top] or got_top
        raise Unsupported(f'get_volume_positions: statements changed (unconsumed: {extra[:3]})')
    # (1) hint normalisation
    hint_if = [s for s in body if isinstance(s, ast.If) and ast.unparse(s.test) == 'spacing_hint is not None']
    if len(hint_if) != 1:
        raise Unsupported('`if spacing_hint is not None:` not found')
    blk = [ast.parse(ast.unparse(hint_if[0])).body[0], _ret('spacing_hint')]
    # result: the normalised hint, or the sentinel 0 for "no hint" (0 itself is refused)
    blk = [ast.parse('if spacing_hint is None:\n    return 0.0').body[0]] + blk
    for s in blk:
        ast.fix_missing_locations(s)
    texts.append(translate_block(blk, 'vpNormHint', [('spacing_hint', 'optrat')], {},
                                 doc='`get_volume_positions`: the hint after normalisation (0 encodes "no hint"; a hint of 0 is refused)'))
    # (2) spacing of a single position
    single = [s for s in ast.walk(fn) if isinstance(s, ast.Assign) and ast.unparse(s.targets[0]) == 'spacing'
              and isinstance(s.value, ast.IfExp)]
    if len(single) != 2 or len({ast.unparse(s.value) for s in single}) != 1:
        raise Unsupported('spacing = 1.0 if spacing_hint is None else spacing_hint (twice) not found')
    ifexp = single[0].value
    blk = [ast.If(test=ifexp.test, body=[ast.Return(value=ifexp.body)], orelse=[ast.Return(value=ifexp.orelse)])]
    ast.fix_missing_locations(blk[0])
    texts.append(translate_block(blk, 'vpSingleSpacing', [('spacing_hint', 'optrat')], {},
                                 doc='`get_volume_positions`: spacing returned for one (distinct) position'))
    # (3) allow_missing branch
    am = [s for s in body if isinstance(s, ast.If) and ast.unparse(s.test) == 'allow_missing_positions']
    if len(am) != 1:
        raise Unsupported('`if allow_missing_positions:` not found')
    want_gaps = ['if spacing_hint is not None', 'assign origin_distance_multiples', 'assign is_regular', 'assign inverse_sort_index',
                 'if len(np.unique(inverse_sort_index)) < len(inverse_sort_index)']
    want_strict = ['assign spacings', 'assign spacing', 'if spacing_hint is not None', 'assign is_regular']
    if [head(st) for st in am[0].body] != want_gaps or [head(st) for st in am[0].orelse] != want_strict:
        raise Unsupported('get_volume_positions: statements of the allow_missing_positions branches changed: '
                          f'{[head(st) for st in am[0].body]} / {[head(st) for st in am[0].orelse]}')
    # (3a) the spacing with gaps allowed: the hint, or the smallest gap refined over the extent
    est = am[0].body[0]
    if [ast.unparse(st) for st in est.body] != ['spacing = spacing_hint']:
        raise Unsupported('gaps: the hint is no longer taken as the spacing')
    if [head(st) for st in est.orelse] != ['assign spacings', 'assign spacing', 'if np.isclose(spacing, 0.0, atol=_DEFAULT_EQUALITY_TOLERANCE)', 'for distance'] \
            or [ast.unparse(st) for st in est.orelse[:2]] != ['spacings = np.diff(origin_distances_sorted)', 'spacing = spacings.min()']:
        raise Unsupported(f'gaps: spacing estimate changed: {[head(st) for st in est.orelse]}')
    zero_if = est.orelse[2]
    if [ast.unparse(st) for st in zero_if.body] != ['return (None, None)'] or zero_if.orelse:
        raise Unsupported('gaps: zero test of the estimated spacing changed')
    loop = est.orelse[3]
    if loop.orelse or ast.unparse(loop.iter) != 'origin_distances_sorted[1:] - origin_distances_sorted[0]' or len(loop.body) != 2:
        raise Unsupported(f'gaps: refinement loop changed: {ast.unparse(loop)[:120]}')
    cnt, upd = loop.body
    if not (isinstance(cnt, ast.Assign) and ast.unparse(cnt.targets[0]) == 'n_spacings' and isinstance(cnt.value, ast.Call)
            and ast.unparse(cnt.value.func) == 'round' and len(cnt.value.args) == 1 and not cnt.value.keywords
            and isinstance(cnt.value.args[0], ast.Call) and ast.unparse(cnt.value.args[0].func) == 'float'
            and len(cnt.value.args[0].args) == 1):
        raise Unsupported(f'gaps: refinement count changed: {ast.unparse(cnt)}')
    texts.append(translate_block([ast.fix_missing_locations(ast.Return(value=cnt.value.args[0].args[0]))], 'vpRefineRatio',
                                 [('distance', 'rat'), ('spacing', 'rat')], {},
                                 doc='`get_volume_positions`, gaps allowed, no hint: `n_spacings = round(float(this))` (half to even) for the '
                                     'distance of each plane above the lowest one, in increasing order'))
    if not (isinstance(upd, ast.If) and not upd.orelse and len(upd.body) == 1 and isinstance(upd.body[0], ast.Assign)
            and ast.unparse(upd.body[0].targets[0]) == 'spacing'):
        raise Unsupported(f'gaps: refinement update changed: {ast.unparse(upd)}')
    texts.append(translate_block([ast.fix_missing_locations(ast.Return(value=upd.test))], 'vpRefineGuard', [('n_spacings', 'int')], {},
                                 doc='`get_volume_positions`, gaps allowed, no hint: the estimate is replaced when this holds'))
    texts.append(translate_block([ast.fix_missing_locations(ast.Return(value=upd.body[0].value))], 'vpRefined',
                                 [('distance', 'rat'), ('n_spacings', 'int')], {},
                                 doc='`get_volume_positions`, gaps allowed, no hint: … by this'))
    # (3b) distinct positions must get distinct multiples
    dist_if = am[0].body[4]
    if [ast.unparse(st) for st in dist_if.body] != ['is_regular = False'] or dist_if.orelse:
        raise Unsupported('gaps: the test for planes sharing a multiple changed')
    mult = [s for s in am[0].body if isinstance(s, ast.Assign) and ast.unparse(s.targets[0]) == 'origin_distance_multiples']
    if len(mult) != 1:
        raise Unsupported('origin_distance_multiples assignment not found')
    e = _Rename({'origin_distances.min()': 'dmin', 'origin_distances.max()': 'dmax', 'origin_distances': 'd'}).visit(
        ast.parse(ast.unparse(mult[0].value), mode='eval').body)
    texts.append(translate_block([ast.fix_missing_locations(ast.Return(value=e))], 'vpMultiple',
                                 [('d', 'rat'), ('dmin', 'rat'), ('dmax', 'rat'), ('spacing', 'rat')], {},
                                 doc='`get_volume_positions`, allow_missing_positions: the multiple of the spacing at which a '
                                     'position at distance `d` lies (element of `origin_distance_multiples`)'))
    idx = [s for s in am[0].body if isinstance(s, ast.Assign) and ast.unparse(s.targets[0]) == 'inverse_sort_index']
    reg = [s for s in am[0].body if isinstance(s, ast.Assign) and ast.unparse(s.targets[0]) == 'is_regular']
    if len(idx) != 1 or ast.unparse(idx[0].value) != 'origin_distance_multiples.round().astype(np.int64)':
        raise Unsupported('inverse_sort_index = origin_distance_multiples.round().astype(np.int64) changed')
    if len(reg) != 1 or not isinstance(reg[0].value, ast.Call) or ast.unparse(reg[0].value.func) != 'np.allclose' \
            or [ast.unparse(a) for a in reg[0].value.args] != ['origin_distance_multiples', 'origin_distance_multiples.round()'] \
            or sorted(k.arg for k in reg[0].value.keywords) != ['atol', 'rtol']:
        raise Unsupported('is_regular of the allow_missing branch changed')
    kw = {k.arg: k.value for k in reg[0].value.keywords}
    # the defaults `rtol`, `atol` take when the caller passes neither (the only way the image classes call it)
    dflt = [s for s in body if isinstance(s, ast.If) and ast.unparse(s.test) == 'atol is not None and rtol is not None']
    if len(dflt) != 1:
        raise Unsupported('rtol/atol default chain not found')
    node = dflt[0]
    while len(node.orelse) == 1 and isinstance(node.orelse[0], ast.If):
        node = node.orelse[0]
    dd = {ast.unparse(s.targets[0]): ast.unparse(s.value) for s in node.orelse if isinstance(s, ast.Assign)}
    if dd != {'rtol': '_DEFAULT_SPACING_RELATIVE_TOLERANCE', 'atol': '0.0'}:
        raise Unsupported(f'default rtol/atol changed: {dd}')
    blk = [ast.parse('rtol = _DEFAULT_SPACING_RELATIVE_TOLERANCE').body[0], ast.parse('atol = 0.0').body[0],
           ast.Return(value=ast.Tuple(elts=[kw['rtol'], kw['atol']], ctx=ast.Load()))]
    for b_ in blk:
        ast.fix_missing_locations(b_)
    texts.append(translate_block(blk, 'vpMissingTol', [('spacing', 'rat')], {},
                                 consts={'_DEFAULT_SPACING_RELATIVE_TOLERANCE': ('rat', 'vpTolSpacing')},
                                 doc='`get_volume_positions`, allow_missing_positions, default tolerances: (rtol, atol) of the '
                                     '`np.allclose(multiples, multiples.round(), …)` regularity test'))
    zero = [s for s in ast.walk(am[0]) if isinstance(s, ast.If) and 'np.isclose(spacing, 0.0' in ast.unparse(s.test)]
    if len(zero) != 1 or 'atol=_DEFAULT_EQUALITY_TOLERANCE' not in ast.unparse(zero[0].test):
        raise Unsupported('zero-gap test of the allow_missing branch changed')
    # (4) strict branch: mean gap
    sp = [s for s in am[0].orelse if isinstance(s, ast.Assign) and ast.unparse(s.targets[0]) == 'spacing']
    if len(sp) != 1:
        raise Unsupported('strict branch: spacing assignment not found')
    e = _Rename({'origin_distances_sorted[-1]': 'dmax', 'origin_distances_sorted[0]': 'dmin',
                 'len(origin_distances_sorted)': 'count'}).visit(ast.parse(ast.unparse(sp[0].value), mode='eval').body)
    texts.append(translate_block([ast.fix_missing_locations(ast.Return(value=e))], 'vpMeanGap',
                                 [('dmin', 'rat'), ('dmax', 'rat'), ('count', 'int')], {},
                                 doc='`get_volume_positions`, strict branch: the spacing from the extreme distances and the number of '
                                     'distinct positions'))
    # (5) perpendicularity
    perp = [s for s in body if isinstance(s, ast.Assign) and ast.unparse(s.targets[0]) == 'is_perpendicular']
    if len(perp) != 1:
        raise Unsupported('is_perpendicular assignment not found')
    texts.append(translate_block([ast.fix_missing_locations(ast.Return(value=perp[0].value))], 'vpIsPerp', [('dot_product', 'rat')],
                                 {}, consts={'_DOT_PRODUCT_PERPENDICULAR_TOLERANCE': ('rat', 'vpTolPerp')},
                                 doc='`get_volume_positions`: the perpendicularity test on the normalised dot product'))
    return '\n\n'.join(texts), span_sha([hint_if[0], single[0], mult[0], idx[0], reg[0], sp[0], perp[0]])


TARGETS['TC03getitem'] = {'file': 'volume.py', 'build': build_getitem}
TARGETS['TC03volpos'] = {'file': 'spatial.py', 'build': build_volpos}


_DIR_CODE = {'PixelIndexDirections.R': 0, 'PixelIndexDirections.L': 1, 'PixelIndexDirections.D': 2, 'PixelIndexDirections.U': 3}


def build_rot(tree):
    """spatial.py `create_rotation_matrix`: which direction cosines (with which sign) and which pixel spacing each index
    direction selects, the order of the cross product per handedness, where the normal goes, which spacings are refused;
    and the index convention of volumes."""
    texts = []
    conv = [st for st in tree.body if isinstance(st, ast.Assign) and ast.unparse(st.targets[0]) == 'VOLUME_INDEX_CONVENTION']
    if len(conv) != 1 or not isinstance(conv[0].value, ast.Tuple) or len(conv[0].value.elts) != 2:
        raise Unsupported('VOLUME_INDEX_CONVENTION is no longer a pair')
    codes = []
    for e in conv[0].value.elts:
        k = ast.unparse(e)
        if k not in _DIR_CODE:
            raise Unsupported(f'VOLUME_INDEX_CONVENTION element {k}')
        codes.append(_DIR_CODE[k])
    texts.append('/-- `spatial.VOLUME_INDEX_CONVENTION` (R = 0, L = 1, D = 2, U = 3) -/\n'
                 f'def rotVolumeConvention : Int × Int := (({codes[0]} : Int), ({codes[1]} : Int))')
    fn = find_func(tree, 'create_rotation_matrix')
    body = strip_doc(fn.body)
    # pixel_spacing[0] = between rows, [1] = between columns
    ps = {ast.unparse(s.targets[0]): ast.unparse(s.value) for s in ast.walk(fn) if isinstance(s, ast.Assign)
          and ast.unparse(s.targets[0]) in ('spacing_between_rows', 'spacing_between_columns') and 'pixel_spacing[' in ast.unparse(s.value)}
    if ps != {'spacing_between_rows': 'float(pixel_spacing[0])', 'spacing_between_columns': 'float(pixel_spacing[1])'}:
        raise Unsupported(f'unpacking of pixel_spacing changed: {ps}')
    cs = {ast.unparse(s.targets[0]): ast.unparse(s.value) for s in body if isinstance(s, ast.Assign)
          and ast.unparse(s.targets[0]) in ('row_cosines', 'column_cosines')}
    if cs != {'row_cosines': 'np.array(image_orientation[:3], dtype=float)',
              'column_cosines': 'np.array(image_orientation[3:], dtype=float)'}:
        raise Unsupported(f'row/column cosines changed: {cs}')
    refuse = [s for s in body if isinstance(s, ast.If) and 'spacing_between_rows <=' in ast.unparse(s.test)]
    if len(refuse) != 1:
        raise Unsupported('refusal of non-positive pixel spacings not found')
    texts.append(translate_block([refuse[0], _ret('0')], 'rotSpacingCheck',
                                 [('spacing_between_rows', 'rat'), ('spacing_between_columns', 'rat')], {},
                                 doc='`create_rotation_matrix`: which pixel spacings are refused (0 = accepted)'))
    loops = [s for s in body if isinstance(s, ast.For) and ast.unparse(s.iter) == 'index_convention_' and ast.unparse(s.target) == 'd']
    if len(loops) != 1 or len(loops[0].body) != 1 or not isinstance(loops[0].body[0], ast.If):
        raise Unsupported('loop over index_convention_ changed')
    node = loops[0].body[0]
    branches = []
    while True:
        t = node.test
        if not (isinstance(t, ast.Compare) and ast.unparse(t.left) == 'd' and len(t.ops) == 1 and isinstance(t.ops[0], ast.Eq)
                and ast.unparse(t.comparators[0]) in _DIR_CODE):
            raise Unsupported(f'direction test {ast.unparse(t)}')
        if len(node.body) != 2:
            raise Unsupported('direction branch is no longer two appends')
        a, b = (s.value for s in node.body if isinstance(s, ast.Expr))
        if ast.unparse(a.func) != 'rotation_columns.append' or ast.unparse(b.func) != 'spacings.append':
            raise Unsupported('direction branch appends changed')
        cos = {'row_cosines': (0, 1), '-row_cosines': (0, -1), 'column_cosines': (1, 1), '-column_cosines': (1, -1)}.get(ast.unparse(a.args[0]))
        sp = {'spacing_between_columns': 0, 'spacing_between_rows': 1}.get(ast.unparse(b.args[0]))
        if cos is None or sp is None:
            raise Unsupported(f'direction branch values: {ast.unparse(a)}, {ast.unparse(b)}')
        branches.append((_DIR_CODE[ast.unparse(t.comparators[0])], cos, sp))
        if not node.orelse:
            break
        if len(node.orelse) != 1 or not isinstance(node.orelse[0], ast.If):
            raise Unsupported('direction chain has a plain else')
        node = node.orelse[0]
    src = ''
    for i, (code, (csel, sign), sp) in enumerate(branches):
        src += f"{'if' if i == 0 else 'elif'} d == {code}:\n    return ({csel}, {sign}, {sp})\n"
    src += "raise KeyError('no branch')\n"
    blk = ast.parse(src).body
    texts.append(translate_block(blk, 'rotSelect', [('d', 'int')], {},
                                 doc='`create_rotation_matrix`, the branch of index direction `d` (R = 0, L = 1, D = 2, U = 3): '
                                     '(0 = row cosines / 1 = column cosines, sign, 0 = spacing between columns / 1 = spacing between rows)'))
    hand = [s for s in body if isinstance(s, ast.If) and ast.unparse(s.test) == 'handedness_ == AxisHandedness.RIGHT_HANDED']
    if len(hand) != 1 or len(hand[0].body) != 1 or len(hand[0].orelse) != 1:
        raise Unsupported('handedness branch changed')
    order = []
    for s in (hand[0].body[0], hand[0].orelse[0]):
        m = re.fullmatch(r'n = np\.cross\(rotation_columns\[(\d)\], rotation_columns\[(\d)\]\)', ast.unparse(s))
        if not m:
            raise Unsupported(f'normal: {ast.unparse(s)}')
        order.append((int(m.group(1)), int(m.group(2))))
    blk = ast.parse(f"if right_handed:\n    return ({order[0][0]}, {order[0][1]})\nelse:\n    return ({order[1][0]}, {order[1][1]})\n").body
    texts.append(translate_block(blk, 'rotCrossOrder', [('right_handed', 'bool')], {},
                                 doc='`create_rotation_matrix`: the normal is `cross(rotation_columns[i], rotation_columns[j])`'))
    sf = [s for s in body if isinstance(s, ast.If) and ast.unparse(s.test) == 'slices_first']
    if len(sf) != 1:
        raise Unsupported('slices_first branch not found')
    if [ast.unparse(s) for s in sf[0].body] != ['rotation_columns.insert(0, n)', 'spacings.insert(0, spacing_between_slices)'] or \
            [ast.unparse(s) for s in sf[0].orelse] != ['rotation_columns.append(n)', 'spacings.append(spacing_between_slices)']:
        raise Unsupported('slices_first branch changed')
    blk = ast.parse("if slices_first:\n    return 0\nelse:\n    return 2\n").body
    texts.append(translate_block(blk, 'rotNormalColumn', [('slices_first', 'bool')], {},
                                 doc='`create_rotation_matrix`: the column that holds spacing_between_slices × normal'))
    scale = [s for s in body if isinstance(s, ast.Assign) and ast.unparse(s.targets[0]) == 'rotation_columns'
             and isinstance(s.value, ast.ListComp)]
    if len(scale) != 1 or ast.unparse(scale[0].value) != '[c * s for c, s in zip(rotation_columns, spacings)]':
        raise Unsupported('scaling of the rotation columns changed')
    if ast.unparse(body[-1]) != 'return np.column_stack(rotation_columns)':
        raise Unsupported('return of create_rotation_matrix changed')
    return '\n\n'.join(texts), span_sha([conv[0], refuse[0], loops[0], hand[0], sf[0], scale[0]])


TARGETS['TC03rot'] = {'file': 'spatial.py', 'build': build_rot}


# ============================================================================================== the constructor's frame loop
def build_loop(tree):
    """seg/sop.py `Segmentation.__init__`: the loop that emits the frames (segments outside, planes in sorted order inside),
    which plane a frame takes its pixels and its PlanePositionSequence from, its dimension index value, when a frame is
    skipped, how omitted planes leave the sort index, how encoded frames are gathered from a worker pool; and
    `_get_nonempty_plane_indices`, `_get_pffg_item` (DimensionIndexValues)."""
    fn = find_func(tree, 'Segmentation.__init__')
    rows = []
    outer = [n for n in ast.walk(fn) if isinstance(n, ast.For) and ast.unparse(n.target) == 'segment_number']
    if len(outer) != 1:
        raise Unsupported('`for segment_number in ...` not found')
    ol = outer[0]
    rows.append(('loop.outer.iter', ast.unparse(ol.iter)))
    env = _simple_assigns(fn)
    if 'segments_iterable' not in env:
        raise Unsupported('segments_iterable is not assigned exactly once')
    rows.append(('loop.segments_iterable', ast.unparse(env['segments_iterable'])))
    if len(ol.body) != 1 or not isinstance(ol.body[0], ast.For):
        raise Unsupported('the segment loop no longer contains exactly the plane loop')
    il = ol.body[0]
    rows.append(('loop.inner.target', ast.unparse(il.target)))
    rows.append(('loop.inner.iter', ast.unparse(il.iter)))
    it = il.iter
    if not (isinstance(it, ast.Call) and ast.unparse(it.func) == 'enumerate' and len(it.args) == 2 and not it.keywords
            and isinstance(it.args[1], ast.Constant) and isinstance(it.args[1].value, int)):
        raise Unsupported('plane loop is no longer `enumerate(<sort index>, <int>)`')
    texts = [f'/-- `Segmentation.__init__`: first value of `plane_dim_ind` (`{ast.unparse(it)}`) -/\n'
             f'def frameEnumStart : Int := ({it.args[1].value} : Int)']
    # ---- index bookkeeping of the loop body as an executable block (audit 2, C03-2): which index selects the pixel plane, which
    # the plane position, which value becomes the dimension index value -- in source order, so that a re-binding of `plane_index`
    # or `plane_dim_ind` between the uses changes the generated definition.  Every statement of the loop body is accounted for.
    def head(st):
        if isinstance(st, ast.Assign):
            return 'assign ' + ast.unparse(st.targets[0])
        if isinstance(st, ast.If):
            return 'if ' + ast.unparse(st.test)[:70]
        if isinstance(st, ast.For):
            return 'for ' + ast.unparse(st.target)
        if isinstance(st, ast.Expr):
            return 'expr ' + ast.unparse(st.value)[:40]
        return type(st).__name__.lower()
    tracked = ('plane_index', 'plane_dim_ind')

    def binds(st):
        return any(isinstance(n, ast.Name) and n.id in tracked and isinstance(n.ctx, (ast.Store, ast.Del)) for n in ast.walk(st))

    def expect(stmts, want, what):
        got = [head(st) for st in stmts]
        if got != want:
            raise Unsupported(f'frame loop: statements of {what} changed (unconsumed: {[h for h in got if h not in want][:3] or got})')
    expect(il.body, ['if tile_pixel_array', 'if segment_number is None', 'if segment_number is not None', 'if segment_number is None',
                     'expr logger.debug(msg)', 'if dimension_organization_type != DimensionOrganizationTypeValues.TILED_F',
                     'if is_encaps'], 'the plane loop')
    tiled_if, seg_if, _skip_if, msg_if, _log, org_if, enc_if = il.body
    for st in (seg_if, _skip_if, msg_if, _log, enc_if):
        if binds(st):
            raise Unsupported(f'frame loop: {head(st)} re-binds the plane index or the dimension index')
    expect(tiled_if.orelse, ['assign plane_array'], 'the stacked branch of `if tile_pixel_array:`')
    expect(tiled_if.body, ['if dimension_organization_type == DimensionOrganizationTypeValues.TILED_F', 'assign plane_array'],
           'the tiled branch of `if tile_pixel_array:`')
    if binds(tiled_if.body[0]) or org_if.orelse:
        raise Unsupported('frame loop: tiled branch re-binds the plane index / TILED_FULL test has an else')
    pa0 = tiled_if.orelse[0].value
    if not (isinstance(pa0, ast.Subscript) and ast.unparse(pa0.value) == 'pixel_array'):
        raise Unsupported('frame loop: plane_array is no longer pixel_array[...]')
    expect(org_if.body, ['if self._coordinate_system is not None', 'assign pffg_item', 'expr pffg_sequence.append(pffg_item)'],
           'the per-frame item block')
    cs_if = org_if.body[0]
    expect(cs_if.body, ['assign plane_pos_val', 'if self._coordinate_system == CoordinateSystemNames.SLIDE'], 'the coordinate-system block')
    expect(cs_if.orelse, ['if segmentation_type == SegmentationTypeValues.LABELMAP'], 'the no-coordinate-system block')
    if binds(cs_if.orelse[0]) or binds(cs_if.body[0]):
        raise Unsupported('frame loop: index values block re-binds the plane index')
    slide_if = cs_if.body[1]
    expect(slide_if.orelse, ['assign dimension_index_values'], 'the patient branch of the index values')
    dv = slide_if.orelse[0].value
    if not (isinstance(dv, ast.List) and len(dv.elts) == 1):
        raise Unsupported('dimension_index_values of the patient case is no longer a one-element list')
    if binds(slide_if) :
        raise Unsupported('frame loop: slide index values re-bind the plane index')
    pf0 = org_if.body[1].value
    if not (isinstance(pf0, ast.Call) and ast.unparse(pf0.func) == 'self._get_pffg_item' and not pf0.args):
        raise Unsupported('frame loop: pffg_item is no longer self._get_pffg_item(keywords)')
    pk = {k.arg: k.value for k in pf0.keywords}
    pp0 = pk.get('plane_position')
    if not (isinstance(pp0, ast.Subscript) and ast.unparse(pp0.value) == 'plane_positions') or ast.unparse(pk.get('dimension_index_values')) != 'dimension_index_values':
        raise Unsupported('frame loop: plane_position / dimension_index_values arguments of _get_pffg_item changed')
    blk_src = ('pix_index = ' + ast.unparse(pa0.slice) + '\n' + 'div_value = ' + ast.unparse(dv.elts[0]) + '\n'
               + 'pos_index = ' + ast.unparse(pp0.slice) + '\n' + 'return (pix_index, pos_index, div_value)\n')
    texts.append(translate_block(ast.parse(blk_src).body, 'frameBookkeeping', [('plane_dim_ind', 'int'), ('plane_index', 'int')], {},
                                 doc='`Segmentation.__init__`, plane loop, stack of planes in the patient coordinate system, in source order: '
                                     '(index into `pixel_array` whose plane the frame carries, index into `plane_positions` whose position it '
                                     'records, its dimension index value).  No statement of the loop body re-binds `plane_index` / '
                                     '`plane_dim_ind` (checked; a re-binding makes the translation refuse)'))
    # every mention of the sort index / the loop variables in the constructor is accounted for
    # (reads of `plane_index` elsewhere -- e.g. in the source-frame reference, which other properties' fixes edit -- are not
    # placement; what matters is that the loop variables are bound exactly once, by the loop itself, that the sort index is not
    # touched outside the known assignments, and the three expressions of `frameBookkeeping` above)
    counts = {'plane_sort_index': sum(1 for n in ast.walk(fn) if isinstance(n, ast.Name) and n.id == 'plane_sort_index')}
    for nm in tracked:
        counts[nm + ' bound'] = sum(1 for n in ast.walk(fn) if isinstance(n, ast.Name) and n.id == nm
                                    and isinstance(n.ctx, (ast.Store, ast.Del)))
    if counts != {'plane_sort_index': 6, 'plane_index bound': 1, 'plane_dim_ind bound': 1}:
        raise Unsupported(f'frame loop: mentions of plane_sort_index / bindings of plane_index, plane_dim_ind changed: {counts}')
    psi_assigns = sorted(ast.unparse(st.value)[:60] for st in ast.walk(fn) if isinstance(st, ast.Assign)
                         and any(isinstance(n, ast.Name) and n.id == 'plane_sort_index' for t in st.targets for n in ast.walk(t)))
    rows.append(('sort.assignments', ' | '.join(psi_assigns)))
    # tiled frames: where the tile is cut from and the slide index values
    tf_if = tiled_if.body[0]
    rows.append(('tile.full.row_offset', ' | '.join(ast.unparse(st.value) for st in tf_if.body if isinstance(st, ast.Assign) and ast.unparse(st.targets[0]) == 'row_offset')))
    rows.append(('tile.full.column_offset', ' | '.join(ast.unparse(st.value) for st in tf_if.body if isinstance(st, ast.Assign) and ast.unparse(st.targets[0]) == 'column_offset')))
    rows.append(('tile.sparse', ' ; '.join(ast.unparse(st) for st in tf_if.orelse)))
    tcall = tiled_if.body[1].value
    if not (isinstance(tcall, ast.Call) and ast.unparse(tcall.func) == 'get_tile_array'):
        raise Unsupported('tiled frames: plane_array is no longer get_tile_array(...)')
    rows.append(('tile.call', ', '.join([ast.unparse(a) for a in tcall.args] + [f'{k.arg}={ast.unparse(k.value)}' for k in tcall.keywords])))
    rows.append(('slide.plane_pos_val', ast.unparse(cs_if.body[0].value)))
    if len(slide_if.body) != 1 or not isinstance(slide_if.body[0], ast.Try) or len(slide_if.body[0].body) != 1:
        raise Unsupported('slide index values are no longer one guarded assignment')
    rows.append(('slide.index_values', ast.unparse(slide_if.body[0].body[0])))
    rows.append(('slide.column_swap', ' | '.join(ast.unparse(st.value) for st in ast.walk(fn) if isinstance(st, ast.Assign)
                                                 and ast.unparse(st.targets[0]) == 'plane_position_values' and '[1, 0, 2, 3, 4]' in ast.unparse(st.value))))
    rows.append(('slide.unique_dimension_values', ' | '.join(ast.unparse(st.value)[:200].replace('\n', ' ') for st in ast.walk(fn) if isinstance(st, ast.Assign)
                                                            and ast.unparse(st.targets[0]) == 'unique_dimension_values')))
    # which plane of the input array a (non-tiled) frame carries
    pa = [s for s in ast.walk(il) if isinstance(s, ast.Assign) and ast.unparse(s.targets[0]) == 'plane_array'
          and 'get_tile_array' not in ast.unparse(s.value)]
    if len(pa) != 1:
        raise Unsupported('plane_array of the stacked case is not assigned exactly once')
    rows.append(('frame.plane_array', ast.unparse(pa[0].value)))
    pf = [n for n in ast.walk(il) if isinstance(n, ast.Call) and ast.unparse(n.func) == 'self._get_pffg_item']
    if len(pf) != 1 or pf[0].args:
        raise Unsupported('frame loop: one keyword-only call of _get_pffg_item expected')
    rows += [('frame.pffg.' + k.arg, ast.unparse(k.value)) for k in pf[0].keywords]
    # when a frame is skipped
    skip = [s for s in il.body if isinstance(s, ast.If) and ast.unparse(s.test) == 'segment_number is not None'
            and len(s.body) == 1 and isinstance(s.body[0], ast.If) and any(isinstance(x, ast.Continue) for x in s.body[0].body)]
    if len(skip) != 1 or skip[0].orelse or skip[0].body[0].orelse:
        raise Unsupported('skip of empty frames of one segment not found')
    if any(isinstance(x, ast.Continue) for s in il.body if s is not skip[0] for x in ast.walk(s)):
        raise Unsupported('a second `continue` in the plane loop')
    pos_skip, pos_pffg = il.body.index(skip[0]), [i for i, s in enumerate(il.body) if '_get_pffg_item' in ast.unparse(s)]
    if len(pos_pffg) != 1 or pos_skip > pos_pffg[0]:
        raise Unsupported('the skip no longer precedes the per-frame item')
    src = ('if segment_number is not None:\n    if ' + ast.unparse(_Rename({'np.any(segment_array)': 'any_nonzero'}).visit(
        ast.parse(ast.unparse(skip[0].body[0].test), mode='eval').body)) + ':\n        return True\nreturn False\n')
    blk = ast.parse(src).body
    texts.append(translate_block(blk, 'frameSkipped', [('segment_number', 'optint'), ('omit_empty_frames', 'bool'), ('any_nonzero', 'bool')], {},
                                 doc='`Segmentation.__init__`, plane loop: is the frame of this segment and plane left out? '
                                     '(`any_nonzero` = `np.any(segment_array)`)'))
    # dimension index value of the position dimension, patient coordinate system
    div = [s for s in ast.walk(il) if isinstance(s, ast.Assign) and ast.unparse(s.targets[0]) == 'dimension_index_values'
           and isinstance(s.value, ast.List) and len(s.value.elts) == 1 and isinstance(s.value.elts[0], ast.Name)]
    if len(div) != 1:
        raise Unsupported('dimension_index_values = [<name>] of the patient case not found')
    ret = ast.Return(value=div[0].value.elts[0])
    ast.fix_missing_locations(ret)
    texts.append(translate_block([ret], 'framePlaneIndexValue', [('plane_dim_ind', 'int'), ('plane_index', 'int')], {},
                                 doc='`Segmentation.__init__`, patient coordinate system: the dimension index value of the position '
                                     'dimension of a frame'))
    # omission: effective switch and what stays in the sort index
    om = [s for s in fn.body if isinstance(s, ast.If) and ast.unparse(s.test) == 'omit_empty_frames'
          and any(isinstance(x, ast.If) and ast.unparse(x.test) == 'is_empty' for x in s.body)]
    if len(om) != 1:
        raise Unsupported('`if omit_empty_frames:` with the `is_empty` decision not found')
    dec = [x for x in om[0].body if isinstance(x, ast.If) and ast.unparse(x.test) == 'is_empty'][0]
    sw = [x for x in dec.body if isinstance(x, ast.Assign) and ast.unparse(x.targets[0]) == 'omit_empty_frames']
    if len(sw) != 1 or any(isinstance(x, ast.Assign) and ast.unparse(x.targets[0]) == 'omit_empty_frames' for x in dec.orelse):
        raise Unsupported('omit_empty_frames is no longer switched off exactly in the is_empty branch')
    src = 'if omit_empty_frames:\n    if is_empty:\n        ' + ast.unparse(sw[0]) + '\nreturn omit_empty_frames\n'
    texts.append(translate_block(ast.parse(src).body, 'omitEffective', [('omit_empty_frames', 'bool'), ('is_empty', 'bool')], {},
                                 doc='`Segmentation.__init__`: the value of `omit_empty_frames` the frame loop sees'))
    for x in dec.body:
        if isinstance(x, ast.Assign) and ast.unparse(x.targets[0]) != 'omit_empty_frames':
            rows.append(('omit.all_empty.' + ast.unparse(x.targets[0]), ast.unparse(x.value)))
    for x in dec.orelse:
        if isinstance(x, ast.Assign):
            rows.append(('omit.some_nonempty.' + ast.unparse(x.targets[0]), ast.unparse(x.value)))
        else:
            raise Unsupported('omission branch: statement other than an assignment')
    alt = [x for x in om[0].orelse]
    rows.append(('omit.off', ' ; '.join(ast.unparse(x) for x in alt)))
    calls = [n for n in ast.walk(om[0]) if isinstance(n, ast.Call) and ast.unparse(n.func) == 'self._get_nonempty_plane_indices']
    if len(calls) != 1:
        raise Unsupported('call of _get_nonempty_plane_indices not found')
    rows.append(('omit.nonempty_call', ast.unparse(calls[0])))
    occ = [x for x in ast.walk(om[0]) if isinstance(x, ast.Assign) and ast.unparse(x.targets[0]) == 'occupied_array']
    rows.append(('omit.occupied_array', ' | '.join(ast.unparse(x.value) for x in occ)))
    # how the sort index is obtained
    rows += [('sort.call.' + k, _inline(fn, v, 1) if k == 'image_orientation' else ast.unparse(v)) for k, v in
             [(kw.arg, kw.value) for c in [n for n in ast.walk(fn) if isinstance(n, ast.Call)
                                           and ast.unparse(n.func) == 'self.DimensionIndexSequence.get_index_values']
              for kw in c.keywords]]
    giv = [n for n in ast.walk(fn) if isinstance(n, ast.Call) and ast.unparse(n.func) == 'self.DimensionIndexSequence.get_index_values']
    if len(giv) != 1 or [ast.unparse(a) for a in giv[0].args] != ['plane_positions']:
        raise Unsupported('call of get_index_values changed')
    tg = [s for s in ast.walk(fn) if isinstance(s, ast.Assign) and s.value is giv[0]]
    if len(tg) != 1:
        raise Unsupported('result of get_index_values is not assigned')
    rows.append(('sort.call.result', ast.unparse(tg[0].targets[0])))
    # gathering encoded frames
    gather = [s for s in ast.walk(fn) if isinstance(s, ast.Assign) and ast.unparse(s.targets[0]) == 'frames'
              and isinstance(s.value, ast.ListComp)]
    if len(gather) != 1:
        raise Unsupported('frames = [... for fut in frame_futures] not found')
    rows.append(('encode.gather', ast.unparse(gather[0].value)))
    sub = [s for s in ast.walk(il) if isinstance(s, ast.Call) and ast.unparse(s.func) in ('frame_futures.append', 'frames.append')]
    rows.append(('encode.appends', ' ; '.join(sorted(ast.unparse(s)[:60] for s in sub))))
    # helpers
    f2 = find_func(tree, 'Segmentation._get_nonempty_plane_indices')
    env2 = _simple_assigns(f2)
    if 'source_image_indices' not in env2:
        raise Unsupported('_get_nonempty_plane_indices: source_image_indices not assigned once')
    rows.append(('nonempty.indices', ast.unparse(env2['source_image_indices'])))
    rets = [n for n in ast.walk(f2) if isinstance(n, ast.Return)]
    rows.append(('nonempty.returns', ' | '.join(ast.unparse(r.value) for r in rets)))
    iff = [n for n in f2.body if isinstance(n, ast.If)]
    rows.append(('nonempty.all_empty_if', ' | '.join(ast.unparse(n.test) for n in iff)))
    f3 = find_func(tree, 'Segmentation._get_pffg_item')
    aiv = [s for s in ast.walk(f3) if isinstance(s, ast.Assign) and ast.unparse(s.targets[0]) == 'all_index_values']
    rows.append(('pffg.all_index_values', ' | '.join(ast.unparse(s.value) for s in aiv)))
    sel = [n for n in f3.body if isinstance(n, ast.If) and any(s in aiv for s in ast.walk(n))]
    rows.append(('pffg.all_index_values_if', ' | '.join(ast.unparse(n.test) for n in sel)))
    adds = [n for n in ast.walk(f3) if isinstance(n, ast.Call) and ast.unparse(n.func) == 'DataElement'
            and n.args and isinstance(n.args[0], ast.Constant) and n.args[0].value in (0x00209157, 0x00209113, 0x0048021a, 0x0062000b)]
    rows.append(('pffg.elements', ' ; '.join(sorted(f'{n.args[0].value:08x}={ast.unparse(n.args[2])}' for n in adds))))
    text = _table('wiringLoop', rows, 'seg/sop.py: the frame loop of Segmentation.__init__ and its helpers (source text)')
    return '\n\n'.join(texts) + '\n\n' + text, hashlib.sha256(repr(rows).encode()).hexdigest() + span_sha([skip[0], div[0], dec])[:8]


def build_index_values(tree):
    """seg/content.py `DimensionIndexSequence.get_index_values`: how the planes are ordered (patient: by the distance
    along the normal, unique values with the index of their first occurrence; slide: rows of attribute values) and when the
    positions are refused as not unique."""
    fn = find_func(tree, 'DimensionIndexSequence.get_index_values')
    rows = []

    def head(st):
        if isinstance(st, ast.Assign):
            return 'assign ' + ast.unparse(st.targets[0])
        if isinstance(st, ast.If):
            return 'if ' + ast.unparse(st.test)[:60]
        return type(st).__name__.lower()
    got = [head(st) for st in strip_doc(fn.body)]
    want = ['if self._coordinate_system is None', 'assign ref_seg_tag', 'assign indexers', 'assign plane_position_values',
            'if image_orientation is not None', 'if len(plane_sort_indices) != len(plane_positions)', 'return']
    if got != want:
        raise Unsupported(f'get_index_values: statements changed (unconsumed: {[h for h in got if h not in want][:3] or got})')
    n_mentions = sum(1 for n in ast.walk(fn) if isinstance(n, ast.Name) and n.id == 'plane_sort_indices')
    if n_mentions != 4:
        raise Unsupported(f'get_index_values: plane_sort_indices is mentioned {n_mentions} times (4 expected: two np.unique results, the '
                          'length test, the return)')
    br = [n for n in fn.body if isinstance(n, ast.If) and ast.unparse(n.test) == 'image_orientation is not None']
    if len(br) != 1:
        raise Unsupported('`if image_orientation is not None:` not found')
    b = br[0]
    if [head(st) for st in b.body] != ['if not hasattr(plane_positions[0][0], \'ImagePositionPatient\')', 'assign normal_vector',
                                      'assign origin_distances', 'assign (_, plane_sort_indices)'] \
            or [head(st) for st in b.orelse] != ['assign (_, plane_sort_indices)']:
        raise Unsupported(f'get_index_values: ordering branches changed: {[head(st) for st in b.body]} / {[head(st) for st in b.orelse]}')
    env = _block_env(b.body)
    for name in ('normal_vector', 'origin_distances'):
        if name not in env:
            raise Unsupported(f'{name} not assigned once in the patient branch')
        rows.append(('patient.' + name, ast.unparse(env[name])))
    us = [s for s in b.body if isinstance(s, ast.Assign) and isinstance(s.value, ast.Call) and ast.unparse(s.value.func) == 'np.unique']
    ue = [s for s in b.orelse if isinstance(s, ast.Assign) and isinstance(s.value, ast.Call) and ast.unparse(s.value.func) == 'np.unique']
    if len(us) != 1 or len(ue) != 1:
        raise Unsupported('np.unique calls of get_index_values changed')
    rows.append(('patient.unique', ast.unparse(us[0])))
    rows.append(('slide.unique', ast.unparse(ue[0])))
    chk = [n for n in fn.body if isinstance(n, ast.If) and 'len(plane_sort_indices)' in ast.unparse(n.test)]
    if len(chk) != 1 or not any(isinstance(x, ast.Raise) for x in chk[0].body):
        raise Unsupported('uniqueness refusal of get_index_values changed')
    rows.append(('refused_if', ast.unparse(chk[0].test)))
    rows.append(('refused_with', ast.unparse([x for x in chk[0].body if isinstance(x, ast.Raise)][0].exc.func)))
    if fn.body.index(chk[0]) < fn.body.index(b):
        raise Unsupported('uniqueness refusal precedes the ordering')
    rets = [n for n in ast.walk(fn) if isinstance(n, ast.Return) and n.value is not None]
    rows.append(('returns', ' | '.join(ast.unparse(r.value) for r in rets)))
    defaults = {a.arg: ast.unparse(d) for a, d in zip(fn.args.args[-len(fn.args.defaults):], fn.args.defaults)}
    rows.append(('default.handedness', defaults.get('handedness', '?')))
    text = _table('wiringIndexValues', rows, 'seg/content.py get_index_values: ordering of planes (source text)')
    return text, hashlib.sha256(repr(rows).encode()).hexdigest()


def build_slice_distances(tree):
    """spatial.py `_get_slice_distances` (the distance of a plane along the normal) and the normal of `get_normal_vector`"""
    fn = find_func(tree, '_get_slice_distances')
    body = strip_doc(fn.body)
    rows = [('slice_distances.body', ' ; '.join(ast.unparse(s) for s in body))]
    gn = find_func(tree, 'get_normal_vector')
    hand = [s for s in strip_doc(gn.body) if isinstance(s, ast.If) and ast.unparse(s.test) == 'handedness_ == AxisHandedness.RIGHT_HANDED']
    if len(hand) != 1:
        raise Unsupported('get_normal_vector: handedness branch changed')
    rows.append(('normal.right_handed', ' ; '.join(ast.unparse(s) for s in hand[0].body)))
    rows.append(('normal.left_handed', ' ; '.join(ast.unparse(s) for s in hand[0].orelse)))
    loops = [s for s in strip_doc(gn.body) if isinstance(s, ast.For) and ast.unparse(s.iter) == 'index_convention_']
    if len(loops) != 1:
        raise Unsupported('get_normal_vector: loop over the index convention changed')
    rows.append(('normal.columns', ast.unparse(loops[0]).replace('\n', ' ; ')))
    cs = {ast.unparse(s.targets[0]): ast.unparse(s.value) for s in strip_doc(gn.body) if isinstance(s, ast.Assign)
          and ast.unparse(s.targets[0]) in ('row_cosines', 'column_cosines')}
    rows.append(('normal.cosines', repr(sorted(cs.items()))))
    text = _table('wiringDistances', rows, 'spatial.py: distance of a plane along the normal, and the normal (source text)')
    return text, hashlib.sha256(repr(rows).encode()).hexdigest()


TARGETS['TC03loop'] = {'file': 'seg/sop.py', 'build': build_loop}
TARGETS['TC03idxval'] = {'file': 'seg/content.py', 'build': build_index_values}
TARGETS['TC03dist'] = {'file': 'spatial.py', 'build': build_slice_distances}
