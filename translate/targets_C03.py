"""Translation targets owned by C03.

TC03pyr  seg/pyramid.py `create_segmentation_pyramid`, single-source branch: the assignments that lead to
         `row_spacing` / `column_spacing` of a level (-> Gen.pyramidSpacing) and the size of a down-sampled
         level `output_size` for a factor `f` (-> Gen.pyramidLevelSize).
"""
from __future__ import annotations

import ast

from py2lean import Unsupported, find_func, span_sha, translate_block
from targets import assigns_to, find_if, ret_tuple


def build_pyr(tree):
    fn = find_func(tree, 'create_segmentation_pyramid')
    # the branch that builds PixelMeasuresSequence(pixel_spacing=(row_spacing, column_spacing), ...)
    cands = [n for n in ast.walk(fn) if isinstance(n, ast.If) and 'n_sources == 1' in ast.unparse(n.test)
             and any(isinstance(s, ast.Assign) and isinstance(s.targets[0], ast.Name) and s.targets[0].id == 'row_spacing'
                     for s in n.body)]
    if len(cands) != 1 or 'PixelMeasuresSequence' not in ast.unparse(cands[0]):
        raise Unsupported('single-source spacing branch of create_segmentation_pyramid not found')
    iff = cands[0]
    names = {'row_spacing', 'column_spacing'}
    # every statement of the branch body that only assigns plain names and (transitively) feeds the two spacings
    body = list(iff.body)
    keep = []
    needed = set(names)
    for s in reversed(body):
        tg = None
        if isinstance(s, ast.Assign) and len(s.targets) == 1 and isinstance(s.targets[0], ast.Name):
            tg = {s.targets[0].id}
            used = {n.id for n in ast.walk(s.value) if isinstance(n, ast.Name)}
        elif isinstance(s, ast.If):
            tg = {t.targets[0].id for t in ast.walk(s) if isinstance(t, ast.Assign) and isinstance(t.targets[0], ast.Name)}
            used = {n.id for n in ast.walk(s) if isinstance(n, ast.Name) and isinstance(n.ctx, ast.Load)}
        if tg and tg & needed:
            keep.append(s)
            needed |= used
    keep.reverse()
    if not keep:
        raise Unsupported('assignments to row_spacing/column_spacing not found')
    attrs = {
        'src_pixel_spacing[0]': ('rat', 'srcRowSpacing'), 'src_pixel_spacing[1]': ('rat', 'srcColSpacing'),
        'pixel_arrays[0].ndim': ('int', 'ndim0'), 'pixel_arrays[0].shape[0]': ('int', 'shape0_0'),
        'pixel_arrays[0].shape[1]': ('int', 'shape0_1'), 'pixel_arrays[0].shape[2]': ('int', 'shape0_2'),
        'pixel_array.ndim': ('int', 'ndim'), 'pixel_array.shape[0]': ('int', 'shape_0'),
        'pixel_array.shape[1]': ('int', 'shape_1'), 'pixel_array.shape[2]': ('int', 'shape_2'),
    }
    # src_pixel_spacing itself is an attribute read (a DS multi-value): drop its assignment, keep the indexed reads
    keep = [s for s in keep if not (isinstance(s, ast.Assign) and s.targets[0].id in
                                    ('src_pixel_spacing', 'source_pixel_measures', 'src_slice_thickness'))]
    block = keep + [ret_tuple(['row_spacing', 'column_spacing'])]
    for s in block:
        ast.fix_missing_locations(s)
    t1 = translate_block(block, 'pyramidSpacing', [], attrs,
                         doc='`create_segmentation_pyramid`, single source: (row_spacing, column_spacing) of a level from the '
                             'rank/shape of `pixel_arrays[0]` and of the level array `pixel_array`')
    # size of a down-sampled level
    sizes = [n for n in ast.walk(fn) if isinstance(n, ast.Assign) and isinstance(n.targets[0], ast.Name)
             and n.targets[0].id == 'output_size' and 'downsample_factors' not in ast.unparse(n.value)
             and '/ f' in ast.unparse(n.value)]
    if len(sizes) != 1 or not isinstance(sizes[0].value, ast.Tuple) or len(sizes[0].value.elts) != 2:
        raise Unsupported('output_size = (int(columns / f), int(rows / f)) not found')
    ret = ast.Return(value=sizes[0].value)
    ast.fix_missing_locations(ret)
    t2 = translate_block([ret], 'pyramidLevelSize', [('f', 'rat')],
                         {'source_images[0].TotalPixelMatrixColumns': ('int', 'totalColumns'),
                          'source_images[0].TotalPixelMatrixRows': ('int', 'totalRows')},
                         doc='`create_segmentation_pyramid`: `output_size` (columns, rows) of the level for factor `f`')
    return t1 + '\n\n' + t2, span_sha(keep + [sizes[0]])


TARGETS = {'TC03pyr': {'file': 'seg/pyramid.py', 'build': build_pyr}}
