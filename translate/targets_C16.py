"""Translation targets of C16 (tie T), all from sr/templates.py.

T16a  kind classification by content counting
        Gen.roiCountGuard      guards at the head of `_count_roi_items`
        Gen.roiCountStep       body of its `for item in group_item.ContentSequence` loop (counters in -> counters out)
        Gen.containsPlanarRois / Gen.containsVolumetricRois   the decisions over the five counters
T16b  argument checks at the head of `get_planar_roi_measurement_groups` / `get_volumetric_roi_measurement_groups`
        Gen.planarArgCheck / Gen.volumetricArgCheck
T16c  literal tables: Gen.planarAllowedRefTypes, Gen.volumetricAllowedRefTypes, Gen.refTypeValueTypes

Coded concepts are rendered as "value|scheme" strings (pydicom's code dictionary is consulted at translation
time for `codes.<scheme>.<keyword>`, module-level `Code(...)` constants are read from the AST); enumeration
members as their names.  `graphic_type` (an enum member of one of two enum classes, or None) becomes
(gt_given, gt_is2d, gt_name); tests `x is None` on the other optional filters become Boolean parameters.
`isinstance(graphic_type, (GraphicTypeValues, GraphicTypeValues3D))` is taken as true (callers pass enum members).
"""
from __future__ import annotations

import ast
import hashlib

from py2lean import Unsupported, find_func, lean_table, strip_doc, translate_block


def _module_codes(tree):
    """module-level NAME = Code('v', 's', 'm') / CodedConcept(value=..., scheme_designator=...)"""
    out = {}
    for st in tree.body:
        if isinstance(st, ast.Assign) and len(st.targets) == 1 and isinstance(st.targets[0], ast.Name) and isinstance(st.value, ast.Call):
            fn = ast.unparse(st.value.func)
            if fn == 'Code' and len(st.value.args) >= 2 and all(isinstance(a, ast.Constant) for a in st.value.args[:2]):
                out[st.targets[0].id] = f'{st.value.args[0].value}|{st.value.args[1].value}'
            elif fn == 'CodedConcept':
                kw = {k.arg: k.value.value for k in st.value.keywords if isinstance(k.value, ast.Constant)}
                if 'value' in kw and 'scheme_designator' in kw:
                    out[st.targets[0].id] = f'{kw["value"]}|{kw["scheme_designator"]}'
    return out


def _code_of(node, modcodes):
    """'value|scheme' of an expression denoting a coded concept, or None"""
    if isinstance(node, ast.Name) and node.id in modcodes:
        return modcodes[node.id]
    if isinstance(node, ast.Attribute) and isinstance(node.value, ast.Attribute) and isinstance(node.value.value, ast.Name) \
            and node.value.value.id == 'codes':
        from pydicom.sr.codedict import codes
        try:
            c = getattr(getattr(codes, node.value.attr), node.attr)
        except Exception as e:  # noqa: BLE001
            raise Unsupported(f'unknown code {ast.unparse(node)}: {e}')
        return f'{c.value}|{c.scheme_designator}'
    return None


def _const(s):
    return ast.Constant(value=s)


class _Rewrite(ast.NodeTransformer):
    """common rewrites: codes -> strings, enum members -> names, `in` / `not in` over literal collections"""

    def __init__(self, modcodes, locals_=None, names=None):
        self.modcodes = modcodes
        self.locals = locals_ or {}       # local name -> list of AST elements (collections resolved statically)
        self.names = names or {}          # expression text -> replacement Name id

    def generic_expr(self, node):
        key = ast.unparse(node)
        if key in self.names:
            return ast.Name(id=self.names[key], ctx=ast.Load())
        c = _code_of(node, self.modcodes)
        if c is not None:
            return _const(c)
        if isinstance(node, ast.Attribute) and isinstance(node.value, ast.Name) and node.value.id in (
                'ValueTypeValues', 'RelationshipTypeValues'):
            return _const(node.attr)
        if isinstance(node, ast.Attribute) and node.attr == 'value' and isinstance(node.value, ast.Attribute) and \
                isinstance(node.value.value, ast.Name) and node.value.value.id == 'ValueTypeValues':
            return _const(node.value.attr)
        return None

    def visit_Attribute(self, node):
        r = self.generic_expr(node)
        return r if r is not None else self.generic_visit(node)

    def visit_Name(self, node):
        r = self.generic_expr(node)
        return r if r is not None else node

    def visit_Call(self, node):
        # a call named in `names` (e.g. `_unversioned_name(group_item)`) stands for a parameter
        if ast.unparse(node) in self.names:
            return ast.Name(id=self.names[ast.unparse(node)], ctx=ast.Load())
        return self.generic_visit(node)

    def elements(self, node):
        if isinstance(node, (ast.Tuple, ast.List, ast.Set)):
            return node.elts
        if isinstance(node, ast.Name) and node.id in self.locals:
            return self.locals[node.id]
        raise Unsupported(f'collection {ast.unparse(node)} is not a literal')

    def visit_Compare(self, node):
        if len(node.ops) == 1 and isinstance(node.ops[0], (ast.In, ast.NotIn)):
            left = self.visit(node.left)
            elts = [self.visit(e) for e in self.elements(node.comparators[0])]
            neg = isinstance(node.ops[0], ast.NotIn)
            parts = [ast.Compare(left=left, ops=[ast.NotEq() if neg else ast.Eq()], comparators=[e]) for e in elts]
            return ast.BoolOp(op=ast.And() if neg else ast.Or(), values=parts) if len(parts) > 1 else parts[0]
        return self.generic_visit(node)


def _fix(stmts):
    out = [ast.parse(ast.unparse(s)).body[0] for s in stmts]
    for s in out:
        ast.fix_missing_locations(s)
    return out


# ---------------------------------------------------------------- T16a
def build_T16a(tree):
    mc = _module_codes(tree)
    fn = find_func(tree, '_count_roi_items')
    body = strip_doc(fn.body)
    loops = [s for s in body if isinstance(s, ast.For)]
    if len(loops) != 1 or ast.unparse(loops[0].target) != 'item' or ast.unparse(loops[0].iter) != 'group_item.ContentSequence':
        raise Unsupported('_count_roi_items: loop over group_item.ContentSequence not found')
    loop = loops[0]
    guards = body[:body.index(loop)]
    counters = []
    inits = []
    for s in guards:
        if isinstance(s, ast.Assign) and isinstance(s.value, ast.Constant) and s.value.value == 0:
            counters.append(s.targets[0].id)
            inits.append(s)
    guards = [s for s in guards if s not in inits]
    ret = body[-1]
    if not (isinstance(ret, ast.Return) and isinstance(ret.value, ast.Tuple) and [ast.unparse(e) for e in ret.value.elts] == counters
            and len(counters) == 5):
        raise Unsupported(f'_count_roi_items no longer returns its five counters in order: {counters}')
    rw = _Rewrite(mc, names={'group_item.ValueType': 'value_type', '_unversioned_name(group_item)': 'name'})
    gblock = _fix([rw.visit(ast.parse(ast.unparse(s)).body[0]) for s in guards] + [ast.parse('return True').body[0]])
    t_guard = translate_block(gblock, 'roiCountGuard', [('value_type', 'str'), ('name', 'str')], {},
                              doc='`_count_roi_items`: the guards before the loop (value type, then name of the container)')
    # the name every comparison of the loop body reads: the item's concept name WITHOUT its coding scheme version (a name that
    # states the version names the same concept); the first statement of the body binds it
    if not loop.body or ' '.join(ast.unparse(loop.body[0]).split()) != 'item_name = _unversioned_name(item)':
        raise Unsupported('_count_roi_items: the loop body no longer starts with `item_name = _unversioned_name(item)`')
    rw2 = _Rewrite(mc, names={'item_name': 'name', 'item.value_type': 'vt'})
    if any('item.name' in ast.unparse(s) for s in loop.body):
        raise Unsupported('_count_roi_items: the loop body compares `item.name` (with its coding scheme version) again')
    lbody = [rw2.visit(ast.parse(ast.unparse(s)).body[0]) for s in loop.body[1:]]
    lblock = _fix(lbody + [ast.parse('return (' + ', '.join(counters) + ')').body[0]])
    t_step = translate_block(lblock, 'roiCountStep', [('name', 'str'), ('vt', 'str')] + [(c, 'int') for c in counters], {},
                             doc='`_count_roi_items`: one iteration of the loop over the content items (counters in, counters out: '
                                 + ', '.join(counters) + ')')
    un = find_func(tree, '_unversioned_name')
    wv = find_func(tree, '_without_version')
    if [' '.join(ast.unparse(x).split()) for x in strip_doc(un.body)] != ['return _without_version(item.name)'] or \
            [' '.join(ast.unparse(x).split()) for x in strip_doc(wv.body)] != [
            'if name.scheme_version is None: return name',
            'return CodedConcept(value=name.value, scheme_designator=name.scheme_designator, meaning=name.meaning)']:
        raise Unsupported('_unversioned_name / _without_version changed: the name itself, or the same (value, designator, meaning) without version')
    # no comparison of a concept NAME with its coding scheme version is left in the file
    strict = [' '.join(ast.unparse(n).split()) for n in ast.walk(tree) if isinstance(n, ast.Compare) and
              any(isinstance(x, ast.Attribute) and x.attr == 'name' and isinstance(x.value, ast.Name) and x.value.id in ('item', 'content_item', 'group_item')
                  for x in [n.left] + list(n.comparators))]
    if strict:
        raise Unsupported(f'sr/templates.py compares a concept name together with its coding scheme version again: {strict[:3]}')
    parts = [t_guard, t_step]
    shas = [ast.unparse(fn), ast.unparse(un), ast.unparse(wv)]
    for qual, nm in (('_contains_planar_rois', 'containsPlanarRois'), ('_contains_volumetric_rois', 'containsVolumetricRois')):
        f2 = find_func(tree, qual)
        b2 = strip_doc(f2.body)
        first = b2[0]
        if not (isinstance(first, ast.Assign) and isinstance(first.targets[0], ast.Tuple) and
                ast.unparse(first.value) == '_count_roi_items(group_item)'):
            raise Unsupported(f'{qual} no longer starts by unpacking _count_roi_items(group_item)')
        names = [e.id for e in first.targets[0].elts]
        if names != counters:
            raise Unsupported(f'{qual} unpacks {names}, _count_roi_items returns {counters}')
        parts.append(translate_block(_fix(b2[1:]), nm, [(c, 'int') for c in counters], {},
                                     doc=f'`{qual}`: the decision over the five counters'))
        shas.append(ast.unparse(f2))
    return '\n\n'.join(parts), hashlib.sha256('\n'.join(shas).encode()).hexdigest()


# ---------------------------------------------------------------- T16b
class _ArgRewrite(_Rewrite):
    NONE_PARAMS = {'graphic_type': 'gt_given', 'reference_type': 'rt_given', 'referenced_sop_class_uid': 'cls_given',
                   'referenced_sop_instance_uid': 'inst_given'}

    def visit_Compare(self, node):
        if len(node.ops) == 1 and isinstance(node.ops[0], (ast.Is, ast.IsNot)) and isinstance(node.comparators[0], ast.Constant) \
                and node.comparators[0].value is None and isinstance(node.left, ast.Name) and node.left.id in self.NONE_PARAMS:
            nm = ast.Name(id=self.NONE_PARAMS[node.left.id], ctx=ast.Load())
            return nm if isinstance(node.ops[0], ast.IsNot) else ast.UnaryOp(op=ast.Not(), operand=nm)
        # graphic_type ==/in enum members
        if isinstance(node.left, ast.Name) and node.left.id == 'graphic_type' and len(node.ops) == 1:
            op = node.ops[0]
            if isinstance(op, (ast.Eq, ast.NotEq)):
                t = self.gt_member(node.comparators[0])
                return ast.UnaryOp(op=ast.Not(), operand=t) if isinstance(op, ast.NotEq) else t
            if isinstance(op, (ast.In, ast.NotIn)):
                parts = [self.gt_member(e) for e in self.elements(node.comparators[0])]
                t = ast.BoolOp(op=ast.Or(), values=parts) if len(parts) > 1 else parts[0]
                return ast.UnaryOp(op=ast.Not(), operand=t) if isinstance(op, ast.NotIn) else t
        if isinstance(node.left, ast.Name) and node.left.id == 'reference_type' and len(node.ops) == 1:
            left = ast.Name(id='rt', ctx=ast.Load())
            op = node.ops[0]
            if isinstance(op, (ast.In, ast.NotIn)):
                elts = [self.visit(e) for e in self.elements(node.comparators[0])]
                neg = isinstance(op, ast.NotIn)
                parts = [ast.Compare(left=left, ops=[ast.NotEq() if neg else ast.Eq()], comparators=[e]) for e in elts]
                return ast.BoolOp(op=ast.And() if neg else ast.Or(), values=parts) if len(parts) > 1 else parts[0]
            return ast.Compare(left=left, ops=[op], comparators=[self.visit(node.comparators[0])])
        return super().visit_Compare(node)

    def gt_member(self, node):
        if isinstance(node, ast.Attribute) and isinstance(node.value, ast.Name) and node.value.id in ('GraphicTypeValues', 'GraphicTypeValues3D'):
            is2d = ast.Name(id='gt_is2d', ctx=ast.Load())
            dim = is2d if node.value.id == 'GraphicTypeValues' else ast.UnaryOp(op=ast.Not(), operand=is2d)
            return ast.BoolOp(op=ast.And(), values=[dim, ast.Compare(left=ast.Name(id='gt_name', ctx=ast.Load()), ops=[ast.Eq()],
                                                                     comparators=[_const(node.attr)])])
        raise Unsupported(f'graphic_type compared with {ast.unparse(node)}')

    def visit_Call(self, node):
        if ast.unparse(node.func) == 'isinstance' and ast.unparse(node.args[0]) == 'graphic_type':
            cls = ast.unparse(node.args[1])
            if cls in ('(GraphicTypeValues, GraphicTypeValues3D)', '(GraphicTypeValues3D, GraphicTypeValues)'):
                return ast.Constant(value=True)
            if cls == 'GraphicTypeValues':
                return ast.Name(id='gt_is2d', ctx=ast.Load())
            if cls == 'GraphicTypeValues3D':
                return ast.UnaryOp(op=ast.Not(), operand=ast.Name(id='gt_is2d', ctx=ast.Load()))
            raise Unsupported(f'isinstance(graphic_type, {cls})')
        return self.generic_visit(node)


def _class_set(tree, cls, attr):
    c = find_func(tree, cls)
    for st in c.body:
        if isinstance(st, ast.Assign) and ast.unparse(st.targets[0]) == attr and isinstance(st.value, (ast.Set, ast.List, ast.Tuple)):
            return st.value.elts
    raise Unsupported(f'{cls}.{attr} is no longer a literal collection')


def _arg_check(tree, qual, cls, lean_name):
    mc = _module_codes(tree)
    fn = find_func(tree, qual)
    body = strip_doc(fn.body)
    head = []
    for st in body:
        if isinstance(st, ast.Assign) and '_find_measurement_groups' in ast.unparse(st.value):
            break
        if isinstance(st, ast.Assign) and ast.unparse(st.value) == '[]':
            continue                      # `sequences = []`
        head.append(st)
    else:
        raise Unsupported(f'{qual}: call of _find_measurement_groups not found')
    if not head or not all(isinstance(s, ast.If) for s in head):
        raise Unsupported(f'{qual}: argument checks are no longer a run of if-statements')
    allowed = _class_set(tree, cls, '_allowed_roi_reference_types')
    locals_ = {'allowed_vals': allowed}

    class Strip(ast.NodeTransformer):
        """drop the assignments of statically resolved local collections, remember list literals"""
        def visit_Assign(self, node):
            t = ast.unparse(node.targets[0])
            if t == 'allowed_vals':
                if '_allowed_roi_reference_types' not in ast.unparse(node.value) or cls not in ast.unparse(node.value):
                    raise Unsupported(f'allowed_vals is no longer {cls}._allowed_roi_reference_types')
                return None
            if isinstance(node.value, (ast.List, ast.Tuple, ast.Set)) and isinstance(node.targets[0], ast.Name):
                locals_[t] = node.value.elts
                return None
            return node
    head2 = [Strip().visit(ast.parse(ast.unparse(s)).body[0]) for s in head]
    rw = _ArgRewrite(mc, locals_=locals_)
    head3 = [rw.visit(s) for s in head2]

    class Fill(ast.NodeTransformer):
        def visit_If(self, node):
            self.generic_visit(node)
            if not node.body:
                node.body = [ast.Pass()]
            return node
    block = _fix([Fill().visit(s) for s in head3] + [ast.parse('return True').body[0]])
    text = translate_block(block, lean_name,
                           [('gt_given', 'bool'), ('gt_is2d', 'bool'), ('gt_name', 'str'), ('rt_given', 'bool'), ('rt', 'str'),
                            ('inst_given', 'bool'), ('cls_given', 'bool')], {},
                           doc=f'`{qual}`: the argument checks before the groups are looked at (result `true` = accepted); '
                               'graphic_type = (gt_given, gt_is2d, gt_name), reference_type = (rt_given, rt as "value|scheme")')
    return text, ast.unparse(ast.Module(body=head, type_ignores=[])) + ast.unparse(ast.Tuple(elts=allowed, ctx=ast.Load()))


def build_T16b(tree):
    t1, s1 = _arg_check(tree, 'MeasurementReport.get_planar_roi_measurement_groups',
                        'PlanarROIMeasurementsAndQualitativeEvaluations', 'planarArgCheck')
    t2, s2 = _arg_check(tree, 'MeasurementReport.get_volumetric_roi_measurement_groups',
                        'VolumetricROIMeasurementsAndQualitativeEvaluations', 'volumetricArgCheck')
    return t1 + '\n\n' + t2, hashlib.sha256((s1 + s2).encode()).hexdigest()


# ---------------------------------------------------------------- T16c
def build_T16c(tree):
    mc = _module_codes(tree)

    def codes_of(elts):
        out = []
        for e in elts:
            c = _code_of(e, mc)
            if c is None:
                raise Unsupported(f'table entry {ast.unparse(e)} is not a coded concept')
            out.append(c)
        return sorted(out)
    pl = codes_of(_class_set(tree, 'PlanarROIMeasurementsAndQualitativeEvaluations', '_allowed_roi_reference_types'))
    vo = codes_of(_class_set(tree, 'VolumetricROIMeasurementsAndQualitativeEvaluations', '_allowed_roi_reference_types'))
    fn = find_func(tree, '_get_roi_reference_items')
    table = None
    for st in ast.walk(fn):
        if isinstance(st, ast.Assign) and ast.unparse(st.targets[0]) == 'ref_type_value_type_map' and isinstance(st.value, ast.Dict):
            table = st.value
    if table is None:
        raise Unsupported('ref_type_value_type_map literal not found in _get_roi_reference_items')
    rows = []
    for k, v in zip(table.keys, table.values):
        c = _code_of(k, mc)
        if c is None or not isinstance(v, (ast.List, ast.Tuple)):
            raise Unsupported(f'ref_type_value_type_map entry {ast.unparse(k)} not understood')
        vts = []
        for e in v.elts:
            if not (isinstance(e, ast.Attribute) and ast.unparse(e.value) == 'ValueTypeValues'):
                raise Unsupported(f'value type {ast.unparse(e)} not understood')
            vts.append(e.attr)
        rows.append((c, vts))
    q = lambda s: '"' + s + '"'   # noqa: E731
    t1 = lean_table('planarAllowedRefTypes', 'List String', [q(c) for c in pl],
                    doc='`PlanarROIMeasurementsAndQualitativeEvaluations._allowed_roi_reference_types` (sorted)')
    t2 = lean_table('volumetricAllowedRefTypes', 'List String', [q(c) for c in vo],
                    doc='`VolumetricROIMeasurementsAndQualitativeEvaluations._allowed_roi_reference_types` (sorted)')
    t3 = lean_table('refTypeValueTypes', 'List (String × List String)',
                    ['(' + q(c) + ', [' + ', '.join(q(x) for x in vts) + '])' for c, vts in rows],
                    doc='`_get_roi_reference_items.ref_type_value_type_map`: reference type -> value types it may have')
    return '\n\n'.join([t1, t2, t3]), hashlib.sha256(repr((pl, vo, rows)).encode()).hexdigest()


# ---------------------------------------------------------------- T16d: per-item tests of the _contains_* helpers
def _item_loop(tree, qual, lean_name, value_attr):
    """`for item in matched_items:` of a `_contains_*_items` helper -> decision for ONE item (`continue` = no match)"""
    fn = find_func(tree, qual)
    body = strip_doc(fn.body)
    loops = [s for s in body if isinstance(s, ast.For)]
    if len(loops) != 1 or ast.unparse(loops[0].iter) != 'matched_items' or ast.unparse(loops[0].target) != 'item':
        raise Unsupported(f'{qual}: `for item in matched_items` not found')
    if not (isinstance(body[-1], ast.Return) and ast.unparse(body[-1].value) == 'False'):
        raise Unsupported(f'{qual}: does not end with `return False`')
    call = body[0]
    if not (isinstance(call, ast.Assign) and ast.unparse(call.targets[0]) == 'matched_items' and
            ast.unparse(call.value.func) == 'find_content_items' and not any(k.arg == 'recursive' for k in call.value.keywords)):
        raise Unsupported(f'{qual}: matched_items is no longer a non-recursive find_content_items call')

    class R(ast.NodeTransformer):
        def visit_Compare(self, node):
            t = ast.unparse(node)
            m = {'value is not None': ('value_given', False), 'referenced_sop_class_uid is not None': ('cls_given', False),
                 'referenced_sop_instance_uid is not None': ('inst_given', False),
                 f'item.{value_attr} == value': ('value_equal', False),
                 'item.referenced_sop_class_uid != referenced_sop_class_uid': ('cls_equal', True),
                 'found_uid != referenced_sop_instance_uid': ('inst_equal', True),
                 'item.referenced_sop_instance_uid != referenced_sop_instance_uid': ('inst_equal', True)}.get(t)
            if m is None:
                raise Unsupported(f'{qual}: test `{t}` not understood')
            nm = ast.Name(id=m[0], ctx=ast.Load())
            return ast.UnaryOp(op=ast.Not(), operand=nm) if m[1] else nm

        def visit_Continue(self, node):
            return ast.parse('return False').body[0]

        def visit_Assign(self, node):
            if ast.unparse(node) == 'found_uid = item.referenced_sop_instance_uid':
                return None
            return node
    stmts = [x for x in (R().visit(ast.parse(ast.unparse(st)).body[0]) for st in loops[0].body) if x is not None]

    class Fill(ast.NodeTransformer):
        def visit_If(self, node):
            self.generic_visit(node)
            node.body = [b for b in node.body if b is not None] or [ast.Pass()]
            return node
    stmts = [Fill().visit(x) for x in stmts]
    # an item that falls through the tests does not end the loop: no match for this item
    stmts = stmts + [ast.parse('return False').body[0]]
    for x in stmts:
        ast.fix_missing_locations(x)
    return stmts, ast.unparse(fn)


def build_T16d(tree):
    parts, shas = [], []
    for qual, nm, attr in (('_contains_code_items', 'codeItemMatches', 'value'), ('_contains_text_items', 'textItemMatches', 'TextValue'),
                           ('_contains_uidref_items', 'uidrefItemMatches', 'UID')):
        stmts, sha = _item_loop(tree, qual, nm, attr)
        parts.append(translate_block(stmts, nm, [('value_given', 'bool'), ('value_equal', 'bool')], {},
                                     doc=f'`{qual}`: does ONE matched item end the search with True'))
        shas.append(sha)
    stmts, sha = _item_loop(tree, '_contains_image_items', 'imageItemMatches', 'value')
    parts.append(translate_block(stmts, 'imageItemMatches', [('cls_given', 'bool'), ('cls_equal', 'bool'), ('inst_given', 'bool'),
                                                              ('inst_equal', 'bool')], {},
                                 doc='`_contains_image_items`: does ONE matched IMAGE item end the search with True'))
    shas.append(sha)
    return '\n\n'.join(parts), hashlib.sha256(''.join(shas).encode()).hexdigest()


# ---------------------------------------------------------------- T16e: loop-carried state of the query loops
def _scoped_names(node, ctx_type):
    """names loaded / stored in `node`; the variables of a comprehension are local to it (Python 3 scoping) and are
    left out, everything else a comprehension reads is a read of the enclosing scope"""
    out = set()

    def go(n, bound):
        if isinstance(n, (ast.ListComp, ast.SetComp, ast.GeneratorExp, ast.DictComp)):
            b = set(bound)
            for gi, gen in enumerate(n.generators):
                go(gen.iter, b if gi else bound)
                b |= {x.id for x in ast.walk(gen.target) if isinstance(x, ast.Name)}
                for c in gen.ifs:
                    go(c, b)
            for e in ([n.key, n.value] if isinstance(n, ast.DictComp) else [n.elt]):
                go(e, b)
            return
        if isinstance(n, ast.Lambda):
            raise Unsupported('lambda in a query loop')
        if isinstance(n, ast.Name):
            if isinstance(n.ctx, ctx_type) and n.id not in bound:
                out.add(n.id)
            return
        for c in ast.iter_child_nodes(n):
            go(c, bound)
    go(node, set())
    return out


def _loads(node):
    return _scoped_names(node, ast.Load)


def _stores(node):
    return _scoped_names(node, ast.Store)


def _exposed(stmts, defined):
    """(names that may be read before they are written when `stmts` run with `defined` already written,
        names definitely written afterwards, does the block always leave the iteration)"""
    exp = set()
    defined = set(defined)
    for st in stmts:
        if isinstance(st, (ast.Continue, ast.Break)):
            return exp, defined, True
        if isinstance(st, (ast.Raise, ast.Return)):
            exp |= _loads(st) - defined
            return exp, defined, True
        if isinstance(st, ast.Assign):
            exp |= _loads(st.value) - defined
            for t in st.targets:
                exp |= (_loads(t)) - defined            # subscripts / attributes on the left
                defined |= _stores(t)
        elif isinstance(st, ast.AugAssign):
            exp |= (_loads(st.value) | _stores(st.target) | _loads(st.target)) - defined
            defined |= _stores(st.target)
        elif isinstance(st, ast.AnnAssign):
            if st.value is not None:
                exp |= _loads(st.value) - defined
                defined |= _stores(st.target)
        elif isinstance(st, ast.Expr):
            exp |= _loads(st) - defined
        elif isinstance(st, ast.If):
            exp |= _loads(st.test) - defined
            e1, d1, t1 = _exposed(st.body, defined)
            e2, d2, t2 = _exposed(st.orelse, defined)
            exp |= e1 | e2
            if t1 and t2:
                return exp, defined, True
            defined = d2 if t1 else d1 if t2 else (d1 & d2)
        elif isinstance(st, ast.For):
            exp |= _loads(st.iter) - defined
            e1, _, _ = _exposed(st.body, defined | _stores(st.target))
            exp |= e1
            e2, _, _ = _exposed(st.orelse, defined)
            exp |= e2
        elif isinstance(st, ast.Pass):
            pass
        else:
            raise Unsupported(f'statement {type(st).__name__} in a query loop')
    return exp, defined, False


def build_T16e(tree):
    """For each of the three query methods: the variables ASSIGNED inside `for group_item in measurement_group_items:` that
    an iteration may READ BEFORE it writes them (state carried from one group to the next), and the names only used as
    result accumulators (`.append`).  Gen.queryLoopCarried : List (String × List String)."""
    rows, shas = [], []
    for meth in ('get_planar_roi_measurement_groups', 'get_volumetric_roi_measurement_groups', 'get_image_measurement_groups'):
        fn = find_func(tree, f'MeasurementReport.{meth}')
        loops = [s for s in strip_doc(fn.body) if isinstance(s, ast.For) and ast.unparse(s.target) == 'group_item'
                 and ast.unparse(s.iter) == 'measurement_group_items']
        if len(loops) != 1:
            raise Unsupported(f'{meth}: loop over measurement_group_items not found')
        loop = loops[0]
        assigned = set()
        for st in loop.body:
            assigned |= _stores(st)
        exp, _, _ = _exposed(loop.body, {'group_item'})
        carried = sorted(exp & assigned)
        rows.append((meth, carried))
        if not (isinstance(strip_doc(fn.body)[-1], ast.Return) and ast.unparse(strip_doc(fn.body)[-1].value) == 'sequences'):
            raise Unsupported(f'{meth}: does not end with `return sequences`')
        if 'sequences' in assigned:
            raise Unsupported(f'{meth}: the result list is reassigned inside the loop')
        shas.append(ast.unparse(loop))
    q = lambda x: '"' + x + '"'   # noqa: E731
    t = lean_table('queryLoopCarried', 'List (String × List String)',
                   ['(' + q(m) + ', [' + ', '.join(q(c) for c in cs) + '])' for m, cs in rows],
                   doc='per query method: variables assigned in the loop over the groups that an iteration may read before writing '
                       '(state carried from one group to the next)')
    return t, hashlib.sha256('\n'.join(shas).encode()).hexdigest()


def _build_T16f_volumetric(tree):
    """The graphic-type block of the volumetric query: the stored graphic types of ALL the reference items of the branch's value
    type are read into the branch's enumeration, the entry is `graphic_type in found_gts`.
      Gen.volumetricGraphicEntry (is2d any2d any3d : Bool) : Bool
    any2d / any3d = some SCOORD / SCOORD3D reference item has the graphic type asked for."""
    meth = 'get_volumetric_roi_measurement_groups'
    fn = find_func(tree, f'MeasurementReport.{meth}')
    loop = [s for s in strip_doc(fn.body) if isinstance(s, ast.For) and ast.unparse(s.target) == 'group_item'][0]
    cands = [n for n in ast.walk(loop) if isinstance(n, ast.If) and ast.unparse(n.test) == 'graphic_type is not None'
             and 'matches.append' in ast.unparse(n)]
    if len(cands) != 1:
        raise Unsupported(f'{meth}: graphic-type block of the loop not found')
    block = cands[0]
    if 'found_ref_type, ref_items = _get_volumetric_roi_reference_items(group_item)' not in ast.unparse(fn):
        raise Unsupported(f'{meth}: ref_items are no longer the items of _get_volumetric_roi_reference_items')
    comp = {
        'found_gts = [GraphicTypeValues(item.GraphicType) for item in ref_items if item.value_type == ValueTypeValues.SCOORD]': 'any2d',
        'found_gts = [GraphicTypeValues3D(item.GraphicType) for item in ref_items if item.value_type == ValueTypeValues.SCOORD3D]': 'any3d',
    }

    class R(ast.NodeTransformer):
        def visit_Call(self, node):
            if ast.unparse(node.func) == 'isinstance' and ast.unparse(node.args[0]) == 'graphic_type':
                c = ast.unparse(node.args[1])
                if c == 'GraphicTypeValues':
                    return ast.Name(id='is2d', ctx=ast.Load())
                raise Unsupported(f'isinstance(graphic_type, {c})')
            raise Unsupported(f'{meth}: call `{ast.unparse(node)}` in the graphic-type block')

        def visit_Assign(self, node):
            t = ' '.join(ast.unparse(node).split())
            if t in comp:
                return ast.Assign(targets=[ast.Name(id='found_gts', ctx=ast.Store())], value=ast.Name(id=comp[t], ctx=ast.Load()))
            raise Unsupported(f'{meth}: assignment `{t}` in the graphic-type block')

        def visit_Expr(self, node):
            if ast.unparse(node) == 'matches.append(graphic_type in found_gts)':
                return ast.Return(value=ast.Name(id='found_gts', ctx=ast.Load()))
            raise Unsupported(f'{meth}: statement `{ast.unparse(node)}` in the graphic-type block')

        def visit_Compare(self, node):
            raise Unsupported(f'{meth}: comparison `{ast.unparse(node)}` in the graphic-type block')
    stmts = [R().visit(ast.parse(ast.unparse(st)).body[0]) for st in block.body]
    for x in stmts:
        ast.fix_missing_locations(x)
    part = translate_block(stmts, 'volumetricGraphicEntry', [('is2d', 'bool'), ('any2d', 'bool'), ('any3d', 'bool')], {},
                           doc=f'`{meth}`: the entry the graphic-type filter appends to `matches` (any2d / any3d: some SCOORD / '
                               'SCOORD3D reference item has the graphic type asked for)')
    return part, ast.unparse(block)


# ---------------------------------------------------------------- T16f: the graphic-type entry of `matches`
def build_T16f(tree):
    """The `if graphic_type is not None:` block inside the loops of the planar and volumetric query, as a decision over
    (graphic_type is a 2-D enum member, value type of the (first) reference item, graphic type equal).
      Gen.planarGraphicEntry / Gen.volumetricGraphicEntry (is2d : Bool) (ref_vt : String) (graphic_equal : Bool) : Bool"""
    parts, shas = [], []
    vp, vs = _build_T16f_volumetric(tree)
    for meth, nm in (('get_planar_roi_measurement_groups', 'planarGraphicEntry'),):
        fn = find_func(tree, f'MeasurementReport.{meth}')
        loop = [s for s in strip_doc(fn.body) if isinstance(s, ast.For) and ast.unparse(s.target) == 'group_item'][0]
        cands = [n for n in ast.walk(loop) if isinstance(n, ast.If) and ast.unparse(n.test) == 'graphic_type is not None'
                 and 'matches.append' in ast.unparse(n)]
        if len(cands) != 1:
            raise Unsupported(f'{meth}: graphic-type block of the loop not found')
        block = cands[0]
        src = ast.unparse(fn)
        if 'ref_value_type = ValueTypeValues(ref_item.ValueType)' not in src and \
                'ref_value_type = ValueTypeValues(ref_items[0].ValueType)' not in src:
            raise Unsupported(f'{meth}: ref_value_type is no longer the value type of the (first) reference item')

        class R(ast.NodeTransformer):
            def visit_Call(self, node):
                if ast.unparse(node.func) == 'isinstance' and ast.unparse(node.args[0]) == 'graphic_type':
                    c = ast.unparse(node.args[1])
                    if c == 'GraphicTypeValues':
                        return ast.Name(id='is2d', ctx=ast.Load())
                    if c == 'GraphicTypeValues3D':
                        return ast.UnaryOp(op=ast.Not(), operand=ast.Name(id='is2d', ctx=ast.Load()))
                    raise Unsupported(f'isinstance(graphic_type, {c})')
                return self.generic_visit(node)

            def visit_Compare(self, node):
                t = ast.unparse(node)
                if t == 'found_gt == graphic_type':
                    return ast.Name(id='graphic_equal', ctx=ast.Load())
                if t.startswith('ref_value_type == ValueTypeValues.'):
                    return ast.Compare(left=ast.Name(id='ref_vt', ctx=ast.Load()), ops=[ast.Eq()],
                                       comparators=[ast.Constant(value=t.split('.')[-1])])
                raise Unsupported(f'{meth}: comparison `{t}` in the graphic-type block')

            def visit_Expr(self, node):
                if isinstance(node.value, ast.Call) and ast.unparse(node.value.func) == 'matches.append' and len(node.value.args) == 1:
                    return ast.Return(value=self.visit(node.value.args[0]))
                raise Unsupported(f'{meth}: statement `{ast.unparse(node)}` in the graphic-type block')

            def visit_Assign(self, node):
                t = ast.unparse(node)
                if t.startswith('found_gt = GraphicTypeValues(ref_item') or t.startswith('found_gt = GraphicTypeValues3D(ref_item'):
                    if '.GraphicType)' not in t:
                        raise Unsupported(f'{meth}: found_gt is not read from GraphicType')
                    # the enum the stored string is read into must be the enum of the branch
                    return None
                raise Unsupported(f'{meth}: assignment `{t}` in the graphic-type block')

            def visit_AnnAssign(self, node):
                return None
        stmts = [x for x in (R().visit(ast.parse(ast.unparse(st)).body[0]) for st in block.body) if x is not None]

        class Clean(ast.NodeTransformer):
            def visit_If(self, node):
                self.generic_visit(node)
                node.body = [b for b in node.body if b is not None] or [ast.Pass()]
                node.orelse = [b for b in node.orelse if b is not None]
                return node
        stmts = [Clean().visit(x) for x in stmts]
        for x in stmts:
            ast.fix_missing_locations(x)
        # 2-D branch must read the string into the 2-D enum, 3-D branch into the 3-D enum (textual)
        txt = ' '.join(ast.unparse(block).split())
        i2 = txt.find('isinstance(graphic_type, GraphicTypeValues)')
        e2 = txt.find('else:', txt.find('else:', i2) + 1) if i2 >= 0 else -1
        if 'found_gt = GraphicTypeValues(' not in txt or 'found_gt = GraphicTypeValues3D(' not in txt or \
                txt.find('found_gt = GraphicTypeValues(') > txt.find('found_gt = GraphicTypeValues3D('):
            raise Unsupported(f'{meth}: enum conversions of the stored graphic type changed')
        parts.append(translate_block(stmts, nm, [('is2d', 'bool'), ('ref_vt', 'str'), ('graphic_equal', 'bool')], {},
                                     doc=f'`{meth}`: the entry the graphic-type filter appends to `matches`'))
        shas.append(ast.unparse(block))
    parts.append(vp)
    shas.append(vs)
    return '\n\n'.join(parts), hashlib.sha256('\n'.join(shas).encode()).hexdigest()


# ---------------------------------------------------------------- T16g: what the queries write on the report object
def build_T16g(tree):
    """For the three query methods and every method of the report they call on `self` (transitively): the attributes of the
    report object they WRITE - `self.x = …`, `self.x op= …`, `del self.x`, `setattr(self, …)` / `object.__setattr__(self, …)`
    / `delattr(self, …)`, `self.__dict__[…] = …` / `vars(self)[…] = …` - memoising decorators, `global` / `nonlocal`
    statements.  Gen.queryWritesOnSelf : List (String × List String): empty lists = a query leaves nothing behind that a
    later query could read (no cache that an in-place edit of the report can make stale)."""
    todo = ['get_planar_roi_measurement_groups', 'get_volumetric_roi_measurement_groups', 'get_image_measurement_groups']
    seen, rows, shas = [], [], []
    cls = [n for n in ast.walk(tree) if isinstance(n, ast.ClassDef) and n.name == 'MeasurementReport']
    if len(cls) != 1:
        raise Unsupported('class MeasurementReport not found')
    own = {n.name for n in cls[0].body if isinstance(n, (ast.FunctionDef, ast.AsyncFunctionDef))}
    while todo:
        meth = todo.pop(0)
        if meth in seen:
            continue
        seen.append(meth)
        fn = find_func(tree, f'MeasurementReport.{meth}')
        w = []
        for d in fn.decorator_list:
            t = ast.unparse(d)
            if t not in ('classmethod', 'staticmethod', 'property'):
                w.append('decorator:' + t)
        for n in ast.walk(fn):
            if isinstance(n, ast.Attribute) and isinstance(n.ctx, (ast.Store, ast.Del)) and ast.unparse(n.value) == 'self':
                w.append(n.attr)
            elif isinstance(n, ast.Subscript) and isinstance(n.ctx, (ast.Store, ast.Del)) and \
                    ast.unparse(n.value) in ('self.__dict__', 'vars(self)'):
                w.append('__dict__[' + ast.unparse(n.slice) + ']')
            elif isinstance(n, ast.Call):
                f = ast.unparse(n.func)
                if f in ('setattr', 'delattr', 'object.__setattr__', 'object.__delattr__') and n.args and ast.unparse(n.args[0]) == 'self':
                    w.append(f + ':' + (ast.unparse(n.args[1]) if len(n.args) > 1 else '?'))
                if f in ('self.__dict__.update', 'self.__dict__.setdefault', 'vars(self).update', 'vars(self).setdefault',
                         'self.__setattr__', 'self.__delattr__'):
                    w.append(f)
                if isinstance(n.func, ast.Attribute) and ast.unparse(n.func.value) == 'self' and n.func.attr in own:
                    todo.append(n.func.attr)
            elif isinstance(n, (ast.Global, ast.Nonlocal)):
                w += [type(n).__name__.lower() + ':' + x for x in n.names]
        rows.append((meth, sorted(set(w))))
        shas.append(ast.unparse(fn))
    q = lambda x: '"' + x.replace('\\', '\\\\').replace('"', '\\"') + '"'   # noqa: E731
    t = lean_table('queryWritesOnSelf', 'List (String × List String)',
                   ['(' + q(m) + ', [' + ', '.join(q(c) for c in cs) + '])' for m, cs in rows],
                   doc='per query method (and every method of the report it calls on self): what it writes on the report object')
    return t, hashlib.sha256('\n'.join(shas).encode()).hexdigest()


# ---------------------------------------------------------------- T16h: what every filter forwards to the search helpers
def _rel_values():
    """RelationshipTypeValues: member name -> value, read from sr/enum.py of the tree under translation"""
    import os
    path = os.path.join(os.environ.get('HD_REPO', '/repo'), 'src', 'highdicom', 'sr', 'enum.py')
    et = ast.parse(open(path).read())
    for n in et.body:
        if isinstance(n, ast.ClassDef) and n.name == 'RelationshipTypeValues':
            return {st.targets[0].id: st.value.value for st in n.body
                    if isinstance(st, ast.Assign) and isinstance(st.value, ast.Constant) and isinstance(st.value.value, str)}
    raise Unsupported('sr/enum.py: RelationshipTypeValues not found')


def build_T16h(tree):
    """Every call of `_contains_code_items` / `_contains_uidref_items` / `_contains_image_items` inside the loops of the three
    queries, in source order: (method, helper, parent searched, concept name "value|scheme" or "" for None, the filter
    argument(s) forwarded as value, relationship type VALUE).
      Gen.filterCalls : List (String × String × String × String × String × String)"""
    mc = _module_codes(tree)
    rels = _rel_values()
    rows, shas = [], []
    for meth in ('get_planar_roi_measurement_groups', 'get_volumetric_roi_measurement_groups', 'get_image_measurement_groups'):
        fn = find_func(tree, f'MeasurementReport.{meth}')
        loop = [s for s in strip_doc(fn.body) if isinstance(s, ast.For) and ast.unparse(s.target) == 'group_item']
        if len(loop) != 1:
            raise Unsupported(f'{meth}: loop over the groups not found')
        calls = [n for n in ast.walk(loop[0]) if isinstance(n, ast.Call) and ast.unparse(n.func) in
                 ('_contains_code_items', '_contains_uidref_items', '_contains_image_items', '_contains_text_items')]
        calls.sort(key=lambda n: (n.lineno, n.col_offset))
        for c in calls:
            if len(c.args) != 1:
                raise Unsupported(f'{meth}: `{ast.unparse(c)[:60]}` no longer passes the parent as its only positional argument')
            kw = {k.arg: k.value for k in c.keywords}
            helper = ast.unparse(c.func)
            want = {'name', 'relationship_type'} | ({'value'} if helper != '_contains_image_items' else
                                                    {'referenced_sop_class_uid', 'referenced_sop_instance_uid'})
            if set(kw) != want:
                raise Unsupported(f'{meth}: keywords of `{helper}` are {sorted(kw)}')
            nm = kw['name']
            name = '' if (isinstance(nm, ast.Constant) and nm.value is None) else _code_of(nm, mc)
            if name is None:
                raise Unsupported(f'{meth}: name `{ast.unparse(nm)}` of a search is not a known code')
            rt = kw['relationship_type']
            if not (isinstance(rt, ast.Attribute) and ast.unparse(rt.value) == 'RelationshipTypeValues' and rt.attr in rels):
                raise Unsupported(f'{meth}: relationship type `{ast.unparse(rt)}` of a search')
            if helper == '_contains_image_items':
                if ast.unparse(kw['referenced_sop_class_uid']) != 'referenced_sop_class_uid' or \
                        ast.unparse(kw['referenced_sop_instance_uid']) != 'referenced_sop_instance_uid':
                    raise Unsupported(f'{meth}: the UID filters are not forwarded to `_contains_image_items` under their own names')
                val = 'uids'
            else:
                val = ast.unparse(kw['value'])
            rows.append((meth, helper, ast.unparse(c.args[0]), name, val, rels[rt.attr]))
        shas.append('\n'.join(ast.unparse(c) for c in calls))
    q = lambda x: '"' + x + '"'   # noqa: E731
    t = lean_table('filterCalls', 'List (String × String × String × String × String × String)',
                   ['(' + ', '.join(q(x) for x in r) + ')' for r in rows],
                   doc='calls of the search helpers in the query loops: (method, helper, parent, concept name, value forwarded, relationship)')
    return t, hashlib.sha256('\n'.join(shas).encode()).hexdigest()


# ---------------------------------------------------------------- T16i: one iteration of the ROI reference search
def build_T16i(tree):
    """The body of `for item in group_item.ContentSequence` in `_get_roi_reference_items` as a step:
      Gen.roiRefStep (rel : String) (name_allowed vt_expected rt_given name_is_rt : Bool) (rt : String) : Except ErrKind Bool
    true = the item is appended (and becomes the reference type when none was found yet), false = skipped; RuntimeError
    arms as in the source.  Shape checks: the table row is looked up under the item's name, the reference type is set to
    the item's name, the items are appended in iteration order, the empty result raises, the function returns
    (reference_type, returned_items)."""
    mc = _module_codes(tree)
    fn = find_func(tree, '_get_roi_reference_items')
    body = strip_doc(fn.body)
    loops = [s_ for s_ in body if isinstance(s_, ast.For)]
    if len(loops) != 1 or ast.unparse(loops[0].target) != 'item' or ast.unparse(loops[0].iter) != 'group_item.ContentSequence':
        raise Unsupported('_get_roi_reference_items: loop over group_item.ContentSequence not found')
    src = ' '.join(ast.unparse(fn).split())
    for needle in ('returned_items = []', 'reference_type = None', 'item_name = _unversioned_name(item)', 'expected_value_types = ref_type_value_type_map[item_name]',
                   'reference_type = item_name', 'returned_items.append(item)',
                   "if len(returned_items) == 0: raise RuntimeError(", 'return (reference_type, returned_items)'):
        if needle not in src:
            raise Unsupported(f'_get_roi_reference_items no longer contains `{needle}`')
    if src.count('returned_items.append(item)') != 1 or src.count('reference_type = item_name') != 1:
        raise Unsupported('_get_roi_reference_items: more than one append / assignment of the reference type')

    class R(_Rewrite):
        def visit_Compare(self, node):
            t = ast.unparse(node)
            if t == 'item.relationship_type != RelationshipTypeValues.CONTAINS':
                return ast.Compare(left=ast.Name(id='rel', ctx=ast.Load()), ops=[ast.NotEq()], comparators=[_const('CONTAINS')])
            if t == 'item_name in allowed_reference_types':
                return ast.Name(id='name_allowed', ctx=ast.Load())
            if t == 'item.value_type in expected_value_types':
                return ast.Name(id='vt_expected', ctx=ast.Load())
            if t == 'reference_type is None':
                return ast.UnaryOp(op=ast.Not(), operand=ast.Name(id='rt_given', ctx=ast.Load()))
            if t == 'item_name != reference_type':
                return ast.UnaryOp(op=ast.Not(), operand=ast.Name(id='name_is_rt', ctx=ast.Load()))
            if isinstance(node.left, ast.Name) and node.left.id == 'reference_type' and len(node.ops) == 1 and \
                    isinstance(node.ops[0], (ast.In, ast.NotIn)):
                node = ast.Compare(left=ast.Name(id='rt', ctx=ast.Load()), ops=node.ops, comparators=node.comparators)
                return super().visit_Compare(node)
            raise Unsupported(f'_get_roi_reference_items: comparison `{t}` in the loop body')

        def visit_Continue(self, node):
            return ast.Return(value=ast.Constant(value=False))

        def visit_Assign(self, node):
            t = ast.unparse(node)
            if t in ('expected_value_types = ref_type_value_type_map[item_name]', 'reference_type = item_name', 'item_name = _unversioned_name(item)'):
                return ast.Pass()
            raise Unsupported(f'_get_roi_reference_items: assignment `{t}` in the loop body')

        def visit_Expr(self, node):
            if ast.unparse(node) == 'returned_items.append(item)':
                return ast.Return(value=ast.Constant(value=True))
            raise Unsupported(f'_get_roi_reference_items: statement `{ast.unparse(node)}` in the loop body')
    stmts = _fix([R(mc).visit(ast.parse(ast.unparse(st)).body[0]) for st in loops[0].body] + [ast.parse('return False').body[0]])
    t = translate_block(stmts, 'roiRefStep', [('rel', 'str'), ('name_allowed', 'bool'), ('vt_expected', 'bool'), ('rt_given', 'bool'),
                                              ('name_is_rt', 'bool'), ('rt', 'str')], {},
                        doc='`_get_roi_reference_items`: one iteration of the loop over the content items (true = appended)')
    return t, hashlib.sha256(ast.unparse(fn).encode()).hexdigest()


# ---------------------------------------------------------------- T16j: the kind test at the head of each query loop
def build_T16j(tree):
    """The statements of each query loop before `matches = []`: template identifier when the container has one, content
    classification otherwise.
      Gen.planarHead / Gen.volumetricHead (tid_given : Bool) (tid : String) (contains : Bool) : Except ErrKind Bool
      Gen.imageHead (tid_given : Bool) (tid : String) (contains_planar contains_volumetric : Bool) : Except ErrKind Bool
    true = the group is of the kind (the loop body goes on), false = `continue`."""
    parts, shas = [], []
    for meth, nm, params in (
            ('get_planar_roi_measurement_groups', 'planarHead', [('tid_given', 'bool'), ('tid', 'str'), ('contains_planar', 'bool')]),
            ('get_volumetric_roi_measurement_groups', 'volumetricHead', [('tid_given', 'bool'), ('tid', 'str'), ('contains_volumetric', 'bool')]),
            ('get_image_measurement_groups', 'imageHead', [('tid_given', 'bool'), ('tid', 'str'), ('contains_planar', 'bool'),
                                                           ('contains_volumetric', 'bool')])):
        fn = find_func(tree, f'MeasurementReport.{meth}')
        loop = [s_ for s_ in strip_doc(fn.body) if isinstance(s_, ast.For) and ast.unparse(s_.target) == 'group_item']
        if len(loop) != 1:
            raise Unsupported(f'{meth}: loop over the groups not found')
        head = []
        for st in loop[0].body:
            if isinstance(st, ast.Assign) and ast.unparse(st) == 'matches = []':
                break
            head.append(st)
        else:
            raise Unsupported(f'{meth}: `matches = []` not found in the loop')
        if not head:
            raise Unsupported(f'{meth}: no kind test before `matches = []`')

        class R(ast.NodeTransformer):
            def visit_Compare(self, node):
                t = ast.unparse(node)
                if t == 'group_item.template_id is not None':
                    return ast.Name(id='tid_given', ctx=ast.Load())
                if t == 'group_item.template_id is None':
                    return ast.UnaryOp(op=ast.Not(), operand=ast.Name(id='tid_given', ctx=ast.Load()))
                return self.generic_visit(node)

            def visit_Attribute(self, node):
                if ast.unparse(node) == 'group_item.template_id':
                    return ast.Name(id='tid', ctx=ast.Load())
                return self.generic_visit(node)

            def visit_Call(self, node):
                t = ast.unparse(node)
                if t == '_contains_planar_rois(group_item)':
                    return ast.Name(id='contains_planar', ctx=ast.Load())
                if t == '_contains_volumetric_rois(group_item)':
                    return ast.Name(id='contains_volumetric', ctx=ast.Load())
                raise Unsupported(f'{meth}: call `{t}` in the kind test')

            def visit_Continue(self, node):
                return ast.Return(value=ast.Constant(value=False))

            def visit_AugAssign(self, node):
                if isinstance(node.op, ast.BitOr) and isinstance(node.target, ast.Name):
                    return ast.copy_location(
                        ast.Assign(targets=[ast.Name(id=node.target.id, ctx=ast.Store())],
                                   value=ast.BoolOp(op=ast.Or(), values=[ast.Name(id=node.target.id, ctx=ast.Load()),
                                                                         self.visit(node.value)]), lineno=node.lineno), node)
                raise Unsupported(f'{meth}: `{ast.unparse(node)}` in the kind test')
        stmts = _fix([R().visit(ast.parse(ast.unparse(st)).body[0]) for st in head] + [ast.parse('return True').body[0]])
        used = {n.id for st in stmts for n in ast.walk(st) if isinstance(n, ast.Name)}
        for pn, _ in params:
            if pn.startswith('contains_') and pn not in used:
                raise Unsupported(f'{meth}: the kind test no longer consults {pn[9:]} content classification')
        parts.append(translate_block(stmts, nm, params, {}, doc=f'`{meth}`: the kind test at the head of the loop (false = continue)'))
        shas.append('\n'.join(ast.unparse(st) for st in head))
    return '\n\n'.join(parts), hashlib.sha256('\n'.join(shas).encode()).hexdigest()


# ---------------------------------------------------------------- T16k: the ways out of the query loops
def _loop_exits(stmts, cond, out, own=True):
    """(kind, path condition) of every `continue` / `break` / `return` / `raise` of a loop body.  `continue` / `break` inside a
    NESTED loop belong to that loop and are reported as 'inner-continue' / 'inner-break'."""
    for st in stmts:
        c = ' and '.join(cond) or 'True'
        if isinstance(st, ast.Continue):
            out.append(('continue' if own else 'inner-continue', c))
        elif isinstance(st, ast.Break):
            out.append(('break' if own else 'inner-break', c))
        elif isinstance(st, ast.Return):
            out.append(('return', c))
        elif isinstance(st, ast.Raise):
            out.append(('raise', c))
        elif isinstance(st, ast.Expr) and isinstance(st.value, ast.Call) and ast.unparse(st.value.func).startswith('sequences.'):
            out.append((ast.unparse(st.value.func).split('.', 1)[1] + '(' + ', '.join(ast.unparse(a) for a in st.value.args) + ')', c))
        elif isinstance(st, ast.If):
            t = ' '.join(ast.unparse(st.test).split())
            _loop_exits(st.body, cond + (t,), out, own)
            _loop_exits(st.orelse, cond + ('not (' + t + ')',), out, own)
        elif isinstance(st, (ast.For, ast.While)):
            _loop_exits(st.body, cond + ('<inner loop>',), out, False)
            _loop_exits(st.orelse, cond + ('<else of inner loop>',), out, own)
        elif isinstance(st, ast.Try):
            _loop_exits(st.body, cond + ('try',), out, own)
            for h in st.handlers:
                _loop_exits(h.body, cond + ('except',), out, own)
            _loop_exits(st.orelse, cond + ('try-else',), out, own)
            _loop_exits(st.finalbody, cond + ('finally',), out, own)
        elif isinstance(st, ast.With):
            _loop_exits(st.body, cond, out, own)
        elif isinstance(st, ast.Match):
            raise Unsupported('match statement in a query loop')
    return out


def build_T16k(tree):
    """For each of the three query methods: every way out of an iteration of `for group_item in measurement_group_items:` other
    than running off its end (`continue` / `break` / `return` / `raise`, with the path condition) and every call on the result
    list (`sequences.append(seq)`, with its path condition), whether the loop has an
    `else:` clause, what the loop iterates over and how `measurement_group_items` is obtained, and the statements between the
    loop and the final `return sequences`.  An answer is complete only if every group is visited: no `break`, no `return`,
    the only `continue`s are the two of the kind test, nothing trims the result afterwards.
      Gen.queryLoopExits : List (String × String × String)    (method, kind, condition)
      Gen.queryLoopFrame : List (String × String × String)    (method, what, text): 'groups' = the expression the groups come
                           from, 'else' = 'yes'/'no', 'tail' = statements after the loop, 'appends' = number of result appends"""
    exits, frame, shas = [], [], []
    for meth in ('get_planar_roi_measurement_groups', 'get_volumetric_roi_measurement_groups', 'get_image_measurement_groups'):
        fn = find_func(tree, f'MeasurementReport.{meth}')
        body = strip_doc(fn.body)
        loops = [s for s in body if isinstance(s, ast.For) and ast.unparse(s.target) == 'group_item'
                 and ast.unparse(s.iter) == 'measurement_group_items']
        if len(loops) != 1:
            raise Unsupported(f'{meth}: loop over measurement_group_items not found')
        loop = loops[0]
        for kind, c in _loop_exits(loop.body, (), []):
            exits.append((meth, kind, c))
        k = body.index(loop)
        src = [s for s in body[:k] if isinstance(s, ast.Assign) and any(ast.unparse(t) == 'measurement_group_items' for t in s.targets)]
        if len(src) != 1:
            raise Unsupported(f'{meth}: measurement_group_items is not assigned exactly once before the loop')
        frame.append((meth, 'groups', ' '.join(ast.unparse(src[0].value).split())))
        # every other statement before the loop that mentions the list of groups (an in-place `reverse()`, `del …[1:]`, a slice
        # assignment would trim or reorder it without an assignment to the name)
        touching = [' '.join(ast.unparse(x).split()) for x in body[:k]
                    if x is not src[0] and any(isinstance(n, ast.Name) and n.id == 'measurement_group_items' for n in ast.walk(x))]
        frame.append((meth, 'groups-touched-before-loop', ' ; '.join(touching)))
        # every (augmented) assignment to / deletion of the result list other than its initialisation
        res_assign = []
        for n in ast.walk(fn):
            tg = []
            if isinstance(n, ast.Assign):
                tg = n.targets
            elif isinstance(n, (ast.AugAssign, ast.AnnAssign)):
                tg = [n.target]
            elif isinstance(n, ast.Delete):
                tg = n.targets
            for t_ in tg:
                if any(isinstance(y, ast.Name) and y.id == 'sequences' for y in ast.walk(t_)):
                    res_assign.append(' '.join(ast.unparse(n).split()))
        frame.append((meth, 'result-assignments', ' ; '.join(res_assign)))
        frame.append((meth, 'else', 'yes' if loop.orelse else 'no'))
        tail = body[k + 1:]
        if not tail or not isinstance(tail[-1], ast.Return):
            raise Unsupported(f'{meth}: does not end with a return')
        frame.append((meth, 'tail', ' ; '.join(' '.join(ast.unparse(x).split()) for x in tail)))
        napp = sum(1 for n in ast.walk(loop) if isinstance(n, ast.Call) and ast.unparse(n.func) in ('sequences.append', 'sequences.extend', 'sequences.insert'))
        other = [ast.unparse(n.func) for n in ast.walk(fn) if isinstance(n, ast.Call) and isinstance(n.func, ast.Attribute)
                 and ast.unparse(n.func.value) == 'sequences' and n.func.attr != 'append']
        frame.append((meth, 'appends', str(napp)))
        frame.append((meth, 'other-result-calls', ','.join(other)))
        shas.append(ast.unparse(fn))
    q = lambda x: '"' + x.replace('\\', '\\\\').replace('"', '\\"') + '"'   # noqa: E731
    t1 = lean_table('queryLoopExits', 'List (String × String × String)', ['(' + ', '.join(q(x) for x in r) + ')' for r in exits],
                    doc='per query method: (method, kind, path condition) of every continue / break / return / raise inside the loop over the groups')
    t2 = lean_table('queryLoopFrame', 'List (String × String × String)', ['(' + ', '.join(q(x) for x in r) + ')' for r in frame],
                    doc='per query method: where the groups come from, whether the loop has an else clause, what follows the loop, '
                        'how the result list is used')
    return t1 + '\n\n' + t2, hashlib.sha256('\n'.join(shas).encode()).hexdigest()


# ---------------------------------------------------------------- T16l: the skeleton of `matches` in the three loop bodies
class _CodeText(ast.NodeTransformer):
    """codes.<scheme>.<keyword> and module-level code constants -> 'value|scheme' string constants"""
    def __init__(self, modcodes):
        self.modcodes = modcodes

    def visit_Attribute(self, node):
        c = _code_of(node, self.modcodes)
        if c is not None:
            return ast.copy_location(ast.Constant(value=c), node)
        return self.generic_visit(node)

    def visit_Name(self, node):
        if node.id in self.modcodes and isinstance(node.ctx, ast.Load):
            return ast.copy_location(ast.Constant(value=self.modcodes[node.id]), node)
        return node


# the two recurring tests of the loop bodies get a name (the table `queryConditionNames` carries their text)
_COND_NAMES = {
    'reference_type is not None or graphic_type is not None or referenced_sop_class_uid is not None or (referenced_sop_instance_uid is not None)': 'NEEDS_REF',
    'referenced_sop_instance_uid is not None or referenced_sop_class_uid is not None': 'HAS_UID',
}


def _skeleton(stmts, cond, out):
    """(kind, path condition, text) of every `matches.append(e)` and every assignment to a name starting with `matches` in
    a block, in program order; loops are named in the condition"""
    nrm = lambda n: ' '.join(ast.unparse(n).split())   # noqa: E731
    for st in stmts:
        c = ' and '.join(_COND_NAMES.get(x, ('(' + x + ')') if ' or ' in x else x) for x in cond) or 'True'
        if isinstance(st, ast.Expr) and isinstance(st.value, ast.Call) and ast.unparse(st.value.func) == 'matches.append':
            out.append(('append', c, nrm(st.value.args[0])))
        elif isinstance(st, ast.Assign) and len(st.targets) == 1 and isinstance(st.targets[0], ast.Name) and st.targets[0].id.startswith('matches'):
            out.append(('assign ' + st.targets[0].id, c, nrm(st.value)))
        elif isinstance(st, ast.If):
            t = nrm(st.test)
            _skeleton(st.body, cond + (t,), out)
            _skeleton(st.orelse, cond + ('not (' + t + ')',), out)
        elif isinstance(st, ast.For):
            _skeleton(st.body, cond + ('for ' + nrm(st.target) + ' in ' + nrm(st.iter),), out)
    return out


def build_T16l(tree):
    """The skeleton of the filter part of the three loop bodies: which entries are appended to `matches`, under which
    condition, and how `matches_uids` (the referenced-UID entry) is put together - every `matches.append(...)` and every
    assignment to a `matches*` variable with its path condition, coded concepts written as 'value|scheme'.
      Gen.queryMatchesSkeleton : List (String × String × String × String)   (method, kind, condition, text)"""
    modcodes = _module_codes(tree)
    rows, shas = [], []
    for meth in ('get_planar_roi_measurement_groups', 'get_volumetric_roi_measurement_groups', 'get_image_measurement_groups'):
        fn = find_func(tree, f'MeasurementReport.{meth}')
        loops = [s for s in strip_doc(fn.body) if isinstance(s, ast.For) and ast.unparse(s.target) == 'group_item'
                 and ast.unparse(s.iter) == 'measurement_group_items']
        if len(loops) != 1:
            raise Unsupported(f'{meth}: loop over measurement_group_items not found')
        body = [_CodeText(modcodes).visit(ast.parse(ast.unparse(x)).body[0]) for x in loops[0].body]
        for kind, c, t in _skeleton(body, (), []):
            rows.append((meth.replace('get_', '').replace('_roi_measurement_groups', '').replace('_measurement_groups', ''), kind, c, t))
        shas.append(ast.unparse(loops[0]))
    if not rows:
        raise Unsupported('no `matches` entries found in the query loops')
    q = lambda x: '"' + x.replace('\\', '\\\\').replace('"', '\\"') + '"'   # noqa: E731
    t = lean_table('queryMatchesSkeleton', 'List (String × String × String × String)',
                   ['(' + ', '.join(q(x) for x in r) + ')' for r in rows],
                   doc='per query: (method, kind, path condition, text) of every `matches.append(...)` and every assignment to a '
                       '`matches*` variable in the loop body')
    t2 = lean_table('queryConditionNames', 'List (String × String)', ['(' + q(v) + ', ' + q(k) + ')' for k, v in _COND_NAMES.items()],
                    doc='the tests abbreviated in `queryMatchesSkeleton`')
    return t + '\n\n' + t2, hashlib.sha256('\n'.join(shas).encode()).hexdigest()


# ---------------------------------------------------------------- T16m: what the accessors of a returned group search for
def build_T16m(tree):
    """The accessors of `_MeasurementsAndQualitativeEvaluations` (the class of every returned group): every
    `find_content_items(root_item, ...)` call - accessor, concept name ('value|scheme', '' = none, '<name>' = the caller's
    argument), value type, relationship type VALUE ('' = none), recursive? - and the names `get_qualitative_evaluations`
    excludes.
      Gen.accessorSearches : List (String × String × String × String × Bool)
      Gen.evaluationReservedNames : List String"""
    modcodes = _module_codes(tree)
    rels = _rel_values()
    cls = [n for n in ast.walk(tree) if isinstance(n, ast.ClassDef) and n.name == '_MeasurementsAndQualitativeEvaluations']
    if len(cls) != 1:
        raise Unsupported('class _MeasurementsAndQualitativeEvaluations not found')
    rows, shas, reserved = [], [], None

    def code_text(node):
        c = _code_of(node, modcodes)
        if c is not None:
            return c
        if isinstance(node, ast.Call) and ast.unparse(node.func) in ('Code', 'CodedConcept'):
            if node.args and all(isinstance(a, ast.Constant) for a in node.args[:2]):
                return f'{node.args[0].value}|{node.args[1].value}'
            kw = {k.arg: k.value.value for k in node.keywords if isinstance(k.value, ast.Constant)}
            if 'value' in kw and 'scheme_designator' in kw:
                return f'{kw["value"]}|{kw["scheme_designator"]}'
        if isinstance(node, ast.Name):
            return '<' + node.id + '>'
        raise Unsupported(f'accessor searches for a name that is no code: {ast.unparse(node)}')
    for fn in [n for n in cls[0].body if isinstance(n, ast.FunctionDef) and n.name not in ('__init__', 'from_sequence')]:
        for call in [n for n in ast.walk(fn) if isinstance(n, ast.Call) and ast.unparse(n.func) == 'find_content_items']:
            if len(call.args) != 1 or ast.unparse(call.args[0]) != 'root_item':
                raise Unsupported(f'{fn.name}: find_content_items is no longer called on root_item')
            kw = {k.arg: k.value for k in call.keywords}
            if set(kw) - {'name', 'value_type', 'relationship_type', 'recursive'}:
                raise Unsupported(f'{fn.name}: unexpected arguments of find_content_items: {sorted(kw)}')
            vt = ast.unparse(kw['value_type']).split('.')[-1] if 'value_type' in kw else ''
            rel = ''
            if 'relationship_type' in kw:
                m = ast.unparse(kw['relationship_type']).split('.')[-1]
                if m not in rels:
                    raise Unsupported(f'{fn.name}: relationship type {m} is no member of the enumeration')
                rel = rels[m]
            rec = 'recursive' in kw and ast.unparse(kw['recursive']) != 'False'
            rows.append((fn.name, code_text(kw['name']) if 'name' in kw else '', vt, rel, rec))
        if fn.name == 'get_qualitative_evaluations':
            tuples = [n for n in ast.walk(fn) if isinstance(n, ast.Compare) and len(n.ops) == 1 and isinstance(n.ops[0], ast.NotIn)
                      and ast.unparse(n.left) == '_unversioned_name(item)' and isinstance(n.comparators[0], ast.Tuple)]
            if len(tuples) != 1:
                raise Unsupported('get_qualitative_evaluations: the exclusion `_unversioned_name(item) not in (...)` not found')
            reserved = [code_text(e) for e in tuples[0].comparators[0].elts]
        if fn.name in ('tracking_identifier', 'tracking_uid', 'finding_category', 'finding_type', 'method'):
            # single-valued accessors return the first match
            t = ' '.join(ast.unparse(fn).split())
            if 'if len(matches) > 0: return ' not in t or 'matches[0].value' not in t:
                raise Unsupported(f'{fn.name}: no longer returns the value of the first match')
        shas.append(ast.unparse(fn))
    if reserved is None or not rows:
        raise Unsupported('accessors of _MeasurementsAndQualitativeEvaluations not found')
    q = lambda x: '"' + x.replace('\\', '\\\\').replace('"', '\\"') + '"'   # noqa: E731
    t1 = lean_table('accessorSearches', 'List (String × String × String × String × Bool)',
                    ['(' + ', '.join(q(x) for x in r[:4]) + ', ' + ('true' if r[4] else 'false') + ')' for r in rows],
                    doc='(accessor, concept name, value type, relationship type, recursive) of every `find_content_items(root_item, …)` '
                        'call of the accessors of a measurement group')
    t2 = lean_table('evaluationReservedNames', 'List String', [q(x) for x in reserved],
                    doc='`get_qualitative_evaluations`: names of CODE items that are not evaluations')
    return t1 + '\n\n' + t2, hashlib.sha256('\n'.join(shas).encode()).hexdigest()


TARGETS = {
    'T16m': {'file': 'sr/templates.py', 'build': build_T16m},
    'T16l': {'file': 'sr/templates.py', 'build': build_T16l},
    'T16k': {'file': 'sr/templates.py', 'build': build_T16k},
    'T16h': {'file': 'sr/templates.py', 'build': build_T16h},
    'T16i': {'file': 'sr/templates.py', 'build': build_T16i},
    'T16j': {'file': 'sr/templates.py', 'build': build_T16j},
    'T16g': {'file': 'sr/templates.py', 'build': build_T16g},
    'T16f': {'file': 'sr/templates.py', 'build': build_T16f},
    'T16e': {'file': 'sr/templates.py', 'build': build_T16e},
    'T16d': {'file': 'sr/templates.py', 'build': build_T16d},
    'T16a': {'file': 'sr/templates.py', 'build': build_T16a},
    'T16b': {'file': 'sr/templates.py', 'build': build_T16b},
    'T16c': {'file': 'sr/templates.py', 'build': build_T16c},
}
