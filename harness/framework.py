"""Common flow of every property check (DESIGN.md sections 3, 6, 7).

    ./check Cnn --tier quick|thorough [--replay file]

1 translate (tie T)  2 lake build  3 audit  4 correspondence + oracle (tie C)  5 decide.
Exit 0 = held on everything explored, 1 = VIOLATION line printed, 2 = infrastructure error.
"""
from __future__ import annotations

import argparse
import collections
import hashlib
import importlib
import json
import os
import re
import sys
import time
import traceback

HERE = os.path.dirname(os.path.abspath(__file__))
VERIF_ROOT = os.path.dirname(HERE)
sys.path.insert(0, HERE)
sys.path.insert(0, VERIF_ROOT)

import lean_bridge  # noqa: E402

TRUSTED_BASE = [
    'Lean 4.33.0 kernel (and compiler/interpreter for the executable driver)',
    'axioms: propext, Classical.choice, Quot.sound only (audited per theorem on every run)',
    'Mathlib v4.33.0 single modules in proof files (checked by the same kernel)',
    'translate/py2lean.py (tie T) and harness/* incl. generators, comparators, hd_env shim (tie C)',
]


def _jsonable(x):
    try:
        import numpy as np
    except Exception:  # pragma: no cover
        np = None
    if isinstance(x, dict):
        return {str(k): _jsonable(v) for k, v in x.items()}
    if isinstance(x, (list, tuple)):
        return [_jsonable(v) for v in x]
    if np is not None:
        if isinstance(x, np.ndarray):
            return {'shape': list(x.shape), 'dtype': str(x.dtype), 'data': x.tolist()}
        if isinstance(x, np.generic):
            return x.item()
    if isinstance(x, (str, int, float, bool)) or x is None:
        return x
    if isinstance(x, bytes):
        return x.hex()
    return repr(x)


class Ctx:
    def __init__(self, prop, tier, seed, scale, driver):
        self.prop = prop
        self.tier = tier
        self.seed = seed
        self.scale = scale            # budget multiplier (1 quick, 10-20 thorough, x10 in search mode)
        self.search_mode = False
        self.driver = driver
        self.model_available = True
        self.evaluations = 0
        self.nontrivial = set()
        self.hists = collections.defaultdict(collections.Counter)
        self.samples = []
        self.disagreements = []       # L0/L1 model vs implementation
        self.l2_disagreements = []
        self.failures = []            # oracle failures on the implementation
        self.notes = []
        self.exhaustive = []
        self.t0 = time.time()

    # budget helpers
    def n(self, quick, thorough=None):
        """Number of cases for this tier."""
        if thorough is None:
            thorough = quick * 20
        base = quick if self.tier == 'quick' else thorough
        return base * (10 if self.search_mode else 1)

    def rng(self, stream, index=0):
        import hd_env
        return hd_env.rng(self.prop, stream, self.seed, index)

    def np_rng(self, stream, index=0):
        import hd_env
        return hd_env.np_rng(self.prop, stream, self.seed, index)

    # model access
    def model(self, requests):
        """requests: list of (fn, args).  Returns list of answers or None if the model is unavailable."""
        if not self.model_available:
            return None
        try:
            return self.driver.batch(requests)
        except Exception as e:  # noqa: BLE001
            self.model_available = False
            self.notes.append('model driver unavailable: ' + str(e)[-1500:])
            return None

    # bookkeeping
    def case(self, sample=None, nontrivial_key=None, **hist):
        self.evaluations += 1
        if nontrivial_key is not None:
            self.nontrivial.add(hashlib.sha1(repr(nontrivial_key).encode()).hexdigest()[:16])
        for k, v in hist.items():
            self.hists[k][str(v)] += 1
        if sample is not None and len(self.samples) < 6:
            self.samples.append(_jsonable(sample))

    def hist(self, name, key, n=1):
        self.hists[name][str(key)] += n

    def disagree(self, layer, case, impl, model, what=''):
        rec = {'layer': layer, 'what': what, 'case': _jsonable(case), 'impl': _jsonable(impl), 'model': _jsonable(model)}
        if layer == 'L2':
            if len(self.l2_disagreements) < 50:
                self.l2_disagreements.append(rec)
        elif len(self.disagreements) < 50:
            self.disagreements.append(rec)

    def fail(self, case, detail, site=None):
        """Property oracle failed on the implementation for `case`."""
        if len(self.failures) < 200:
            self.failures.append({'case': _jsonable(case), 'detail': _jsonable(detail), 'site': site})

    def note(self, s):
        if len(self.notes) < 100:
            self.notes.append(s)


def load_findings():
    path = os.path.join(VERIF_ROOT, 'known_findings.json')
    if not os.path.exists(path):
        return []
    return json.load(open(path)).get('findings', [])


def write_replay(prop, payload):
    d = os.path.join(VERIF_ROOT, 'replays', prop)
    os.makedirs(d, exist_ok=True)
    blob = json.dumps(payload, indent=1, sort_keys=True, default=repr)
    h = hashlib.sha1(blob.encode()).hexdigest()[:12]
    path = os.path.join(d, f'{h}.json')
    with open(path, 'w') as f:
        f.write(blob)
    return os.path.relpath(path, VERIF_ROOT)


class SearchTimeout(BaseException):
    """Raised by the alarm that bounds the failing-input search (BaseException: the `except Exception` clauses with which
    the correspondence modules classify the implementation's errors must not swallow it)."""


def _reap_children():
    """Worker processes a correspondence module forked for the interrupted search must not outlive it."""
    try:
        import multiprocessing
        for ch in multiprocessing.active_children():
            ch.terminate()
    except Exception:  # noqa: BLE001
        pass
    try:
        import subprocess
        me = str(os.getpid())
        out = subprocess.run(['pgrep', '-P', me], capture_output=True, text=True).stdout.split()
        for pid in out:
            try:
                os.kill(int(pid), 15)
            except Exception:  # noqa: BLE001
                pass
    except Exception:  # noqa: BLE001
        pass


def main(argv=None):
    ap = argparse.ArgumentParser()
    ap.add_argument('prop')
    ap.add_argument('--tier', default=os.environ.get('VERIF_TIER', 'quick'), choices=['quick', 'thorough'])
    ap.add_argument('--replay')
    ap.add_argument('--no-build', action='store_true', help='development only: skip lake build/audit')
    args = ap.parse_args(argv)
    prop = args.prop
    seed = int(os.environ.get('VERIF_SEED', '0') or 0)
    t0 = time.time()
    # hard caps (DESIGN 3): hitting one is an infrastructure error (exit 2), never a VIOLATION
    import signal
    cap = int(os.environ.get('HDV_CAP_S', '0') or 0) or (900 if args.tier == 'quick' else 3600)

    def _timeout(signum, frame):
        print(f'TIMEOUT property={prop} tier={args.tier} after {cap}s (infrastructure error, no verdict)')
        sys.stdout.flush()
        os._exit(2)
    signal.signal(signal.SIGALRM, _timeout)
    signal.alarm(cap)
    try:
        return _run(prop, args.tier, seed, args, t0)
    except SystemExit:
        raise
    except Exception:  # noqa: BLE001
        traceback.print_exc()
        print(f'INFRA-ERROR property={prop}')
        return 2


def _run(prop, tier, seed, args, t0):
    import hd_env
    shim = hd_env.setup()
    mod = importlib.import_module(f'corr.{prop}')
    findings = [f for f in load_findings() if f['property'] == prop]
    open_findings = [f for f in findings if f.get('status') == 'open']

    if args.replay:
        payload = json.load(open(args.replay))
        # a stored case is a pure function of (seed, tier, stream, index): replay under the seed/tier it was found with
        seed = int(payload.get('seed', seed))
        tier = payload.get('tier', tier)
        ctx = Ctx(prop, tier, seed, 1, lean_bridge.Driver(mod.DRIVER))
        if 'case' in payload and hasattr(mod, 'replay'):
            res = mod.replay(ctx, payload['case'])
            print(json.dumps({'replayed': payload['case'], 'result': _jsonable(res)}, indent=1, default=repr))
            return 1 if res else 0
        print(json.dumps(payload, indent=1))
        return 0

    stages = {}
    broken = []   # names of ties / theorems that no longer check

    # 1. translation (tie T)
    targets = getattr(mod, 'TARGETS', [])
    # FOREIGN_TARGETS (optional): targets OWNED BY ANOTHER PROPERTY whose generated definitions this property's model
    # consumes.  They are regenerated like the own ones (so the proofs speak about the current source), but a selector
    # that no longer finds its block is reported by the owner's check as well; here it is recorded in the evidence under its
    # own key AND counts as a broken tie (the last good generated file would otherwise keep the proofs green on stale text).
    foreign = [t for t in getattr(mod, 'FOREIGN_TARGETS', []) if t not in targets]
    trans_info = {}
    if targets or foreign:
        sys.path.insert(0, os.path.join(VERIF_ROOT, 'translate'))
        import py2lean
        with lean_bridge.BuildLock():
            trans_info = py2lean.regenerate(list(targets) + foreign, hd_env.HD_REPO)
        for t, info in trans_info.items():
            if not info['ok']:
                if t in foreign:
                    # recorded separately (the owner's check reports it too), but the tie of THIS property to the current
                    # source is no longer shown either: the stale generated file must not keep the proofs green in silence
                    stages.setdefault('foreign_targets_broken', []).append(f'{t}: {info.get("error", "")[:200]}')
                    print(f'FOREIGN-TARGET-BROKEN target={t} (owned by another property, consumed by {prop}) {info.get("error", "")[:200]}')
                    broken.append(f'translation:foreign:{t}:{info.get("error", "")[:200]}')
                    continue
                broken.append(f'translation:{t}:{info.get("error", "")[:200]}')
                print(f'TRANSLATION-BROKEN target={t} {info.get("error", "")[:300]}')
    stages['translation'] = {t: {k: v for k, v in i.items() if k != 'lean'} for t, i in trans_info.items()}

    # 2. build
    modules = list(mod.LEAN_MODULES)
    audit_rows = []
    build_ok = True
    banned_hits = []
    if not args.no_build:
        if tier == 'thorough':
            # force re-elaboration of the property modules
            for m in modules:
                for ext in ('olean', 'ilean', 'trace', 'olean.hash', 'ilean.hash'):
                    p = os.path.join(lean_bridge.LEAN_DIR, '.lake', 'build', 'lib', 'lean', *m.split('.')) + '.' + ext
                    if os.path.exists(p):
                        os.unlink(p)
        build_ok, out, failing, bt = lean_bridge.lake_build(modules)
        stages['build'] = {'ok': build_ok, 'seconds': round(bt, 1)}
        if not build_ok:
            names = []
            for f in failing:
                th = lean_bridge.theorem_at(f['file'], f['line'])
                names.append(f"{f['file']}:{f['line']}:{th}")
                broken.append(f"proof:{th or '?'}@{f['file']}:{f['line']}: {f['msg']}")
            stages['build']['failing'] = names
            stages['build']['tail'] = out[-3000:]
            # try to build at least the model+driver dependencies
            dm = getattr(mod, 'MODEL_MODULES', [])
            if dm:
                ok2, *_ = lean_bridge.lake_build(dm)
                stages['build']['model_ok'] = ok2
        # 3. audit
        if build_ok:
            audit_rows = lean_bridge.audit(modules, mod.NAMESPACE)
            obl_path = os.path.join(lean_bridge.LEAN_DIR, 'obligations', f'{prop}.json')
            obl = json.load(open(obl_path)) if os.path.exists(obl_path) else []
            stages['obligation_list'] = len(obl)
            have = {r['theorem'] for r in audit_rows}
            for name in obl:
                if name not in have:
                    broken.append(f'proof:missing-theorem:{name}')
            for r in audit_rows:
                bad = [a for a in r['axioms'] if a not in lean_bridge.ALLOWED_AXIOMS]
                if bad:
                    broken.append(f"proof:axioms:{r['theorem']}:{','.join(bad)}")
            banned_hits = lean_bridge.grep_banned(lean_bridge.lean_sources_for(modules))
            for h in banned_hits:
                broken.append(f'proof:banned-token:{h}')
            if tier == 'thorough' and os.environ.get('HDV_LEANCHECKER', '1') == '1':
                import subprocess
                p = subprocess.run(['lake', 'env', 'leanchecker', *modules], cwd=lean_bridge.LEAN_DIR,
                                   capture_output=True, text=True, timeout=3000)
                stages['leanchecker'] = {'rc': p.returncode, 'tail': (p.stdout + p.stderr)[-500:]}
                if p.returncode != 0:
                    broken.append('proof:leanchecker-rejected')

    # 3b. the driver's own imports (a driver may import model or generated modules that no property module imports; in a
    #     fresh build they would be missing and the model unavailable)
    if not args.no_build:
        try:
            drv_src = open(os.path.join(lean_bridge.LEAN_DIR, mod.DRIVER)).read()
            drv_imports = [m for m in re.findall(r'^import\s+(HdVerif\.\S+)', drv_src, re.M)]
            if drv_imports:
                ok3, out3, _f3, bt3 = lean_bridge.lake_build(drv_imports)
                stages['driver_imports'] = {'ok': ok3, 'modules': drv_imports, 'seconds': round(bt3, 1)}
                if not ok3:
                    stages['driver_imports']['tail'] = out3[-1500:]
        except OSError:
            pass

    # 4. correspondence + oracle
    scale = 1 if tier == 'quick' else 10
    ctx = Ctx(prop, tier, seed, scale, lean_bridge.Driver(mod.DRIVER))
    ctx.shim = shim
    corr_error = None
    import contextlib
    quiet = os.environ.get('HDV_VERBOSE') != '1'
    devnull = open(os.devnull, 'w')
    try:
        with (contextlib.redirect_stdout(devnull) if quiet else contextlib.nullcontext()), \
                (contextlib.redirect_stderr(devnull) if quiet else contextlib.nullcontext()):
            mod.run(ctx)
    except Exception:  # noqa: BLE001
        corr_error = traceback.format_exc()
        ctx.note('correspondence crashed: ' + corr_error[-2000:])
    if corr_error:
        broken.append('correspondence:harness-crashed')
    if not ctx.model_available:
        broken.append('correspondence:model-unavailable')
    for d in ctx.disagreements:
        broken.append(f"correspondence:{d['layer']}:{d['what']}")

    # attribute failures to known findings
    def attribute(fl):
        if hasattr(mod, 'attribute'):
            try:
                return mod.attribute(fl, open_findings)
            except Exception:  # noqa: BLE001
                return None
        return None

    unknown = []
    attributed = collections.Counter()
    for fl in ctx.failures:
        fid = attribute(fl)
        if fid:
            attributed[fid] += 1
        else:
            unknown.append(fl)

    # 5. if a tie broke and the oracle has not failed yet: failing-input search (10x budget)
    if broken and not unknown and not corr_error and hasattr(mod, 'run'):
        sctx = Ctx(prop, tier, seed + 7919, scale, ctx.driver)
        sctx.search_mode = True
        sctx.model_available = ctx.model_available
        sctx.focus = [d['case'] for d in ctx.disagreements + ctx.l2_disagreements]
        # The search is bounded by what is left of the hard cap: a tie that no longer checks must end in a
        # VIOLATION line (with the failing input found so far, or `no-failing-input-found`), never in a TIMEOUT.
        import signal
        cap = int(os.environ.get('HDV_CAP_S', '0') or 0) or (900 if tier == 'quick' else 3600)
        left = int(cap - (time.time() - t0))
        budget = max(0, left - max(60, cap // 10))
        old_handler = signal.getsignal(signal.SIGALRM)

        def _search_timeout(signum, frame):
            raise SearchTimeout()
        try:
            if budget < 10:
                raise SearchTimeout()
            signal.signal(signal.SIGALRM, _search_timeout)
            signal.alarm(budget)
            with (contextlib.redirect_stdout(devnull) if quiet else contextlib.nullcontext()), \
                    (contextlib.redirect_stderr(devnull) if quiet else contextlib.nullcontext()):
                if hasattr(mod, 'search'):
                    mod.search(sctx, broken)
                else:
                    mod.run(sctx)
        except SearchTimeout:
            sctx.note(f'failing-input search stopped after its time budget ({budget}s of the {cap}s cap)')
            ctx.note(f'failing-input search stopped after its time budget ({budget}s of the {cap}s cap)')
        except Exception:  # noqa: BLE001
            sctx.note('search crashed: ' + traceback.format_exc()[-1500:])
        finally:
            signal.alarm(0)
            signal.signal(signal.SIGALRM, old_handler)
            signal.alarm(max(30, int(cap - (time.time() - t0))))
            _reap_children()
        for fl in sctx.failures:
            if not attribute(fl):
                unknown.append(fl)
        ctx.evaluations += sctx.evaluations
        ctx.nontrivial |= sctx.nontrivial
        ctx.note(f'failing-input search ran {sctx.evaluations} extra cases')

    # known findings: replay witnesses
    kf_lines = []
    for f in open_findings:
        still = True
        if hasattr(mod, 'replay') and 'witness' in f:
            try:
                still = bool(mod.replay(ctx, f['witness']))
            except Exception:  # noqa: BLE001
                still = True
        if still:
            kf_lines.append(f"KNOWN-FINDING: property={prop} {f['what']}")
        else:
            ctx.note(f"known finding {f['id']} no longer reproduces")

    violations = 0
    out_lines = []
    if unknown:
        violations = 1
        first = unknown[0]
        if hasattr(mod, 'shrink'):
            try:
                first = mod.shrink(ctx, first) or first
            except Exception:  # noqa: BLE001
                pass
        path = write_replay(prop, {'property': prop, 'kind': 'failing-input', 'case': first['case'],
                                   'detail': first['detail'], 'site': first.get('site'),
                                   'others': len(unknown) - 1, 'broken': broken[:20], 'seed': seed, 'tier': tier})
        out_lines.append(f'VIOLATION property={prop} replay={path}')
    elif broken:
        violations = 1
        path = write_replay(prop, {'property': prop, 'kind': 'tie-broken', 'no_longer_checks': broken[:50],
                                   'disagreements': ctx.disagreements[:5], 'build': stages.get('build'),
                                   'seed': seed, 'tier': tier})
        out_lines.append(f'VIOLATION property={prop} replay={path} no-failing-input-found')

    # evidence
    obligations = len(audit_rows)
    discharged = sum(1 for r in audit_rows if all(a in lean_bridge.ALLOWED_AXIOMS for a in r['axioms']))
    cov = {
        'obligations': obligations,
        'discharged': discharged,
        'checker_cmd': 'cd lean && lake build ' + ' '.join(modules) + ' && lake env lean <#audit ' + mod.NAMESPACE + '>'
                       + (' && lake env leanchecker ' + ' '.join(modules) if tier == 'thorough' else ''),
        'trusted_base': TRUSTED_BASE + list(getattr(mod, 'TRUSTED_EXTRA', [])),
        'theorems': [{'name': r['theorem'], 'axioms': r['axioms']} for r in audit_rows],
        'evaluations': ctx.evaluations,
        'distinct_nontrivial': len(ctx.nontrivial),
        'rule': getattr(mod, 'RULE', ''),
        'samples': ctx.samples or [{'note': 'no correspondence cases ran'}],
        'histograms': {k: dict(v.most_common(40)) for k, v in ctx.hists.items()},
        'exhaustive_subdomains': ctx.exhaustive,
        'translated_targets': stages.get('translation', {}),
        'stages': stages,
        'model_driver_requests': ctx.driver.requests,
        'l0_l1_disagreements': len(ctx.disagreements),
        'l2_disagreements': len(ctx.l2_disagreements),
        'oracle_failures_unattributed': len(unknown),
        'oracle_failures_known_findings': dict(attributed),
        'broken_ties': broken[:50],
        'modelled_not_verified': list(getattr(mod, 'MODELLED_NOT_VERIFIED', [])),
        'notes': ctx.notes,
        'shim_installed': bool(shim),
        'repo': hd_env.HD_REPO,
    }
    ev = {
        'property_id': prop,
        'tier': tier,
        'seed': seed,
        'level': 'proof',
        'coverage': cov,
        'assumptions': list(getattr(mod, 'ASSUMPTIONS', [])),
        'wall_s': round(time.time() - t0, 2),
        'violations': violations,
    }
    os.makedirs(os.path.join(VERIF_ROOT, 'evidence'), exist_ok=True)
    # development runs with --no-build never overwrite the real evidence file (it would record 0 obligations)
    ev_name = f'{prop}.json' if not args.no_build else f'{prop}.nobuild.json'
    with open(os.path.join(VERIF_ROOT, 'evidence', ev_name), 'w') as f:
        json.dump(ev, f, indent=1, default=repr)
    for line in kf_lines:
        print(line)
    for line in out_lines:
        print(line)
    print(f'{prop} tier={tier} seed={seed} theorems={obligations} discharged={discharged} '
          f'cases={ctx.evaluations} nontrivial={len(ctx.nontrivial)} disagreements={len(ctx.disagreements)} '
          f'l2={len(ctx.l2_disagreements)} oracle_failures={len(unknown)} known={sum(attributed.values())} '
          f'broken={len(broken)} wall={ev["wall_s"]}s')
    if broken:
        for b in broken[:10]:
            print('  broken:', b)
    return 1 if violations else 0


if __name__ == '__main__':
    sys.exit(main())
