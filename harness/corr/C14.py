"""C14  A content sequence and its name index never disagree.

Tie T: T14 (the relationship-type decision trees of __init__ / append / insert / __setitem__, regenerated), T14p (method
bodies as programs), T14v (expressions the hand-written parts copy), T14s (object state: attributes, properties, hooks).
Tie C: random operation histories on `highdicom.sr.ContentSequence` (root / non-root SR / non-SR) are
run on the implementation and on the Lean model (Model/SRContentSeq.lean, driver fn "history"); after
the construction and after EVERY operation the list, every `find`, every `index` / `in` and `get_nodes`
are compared.  Oracle (independent of the model): the property's own statement evaluated on the real
sequence after every operation.
"""
from __future__ import annotations

import copy as _copy
import json
import os

import numpy as np

PROP = 'C14'
TARGETS = ['T14', 'T14p', 'T14v', 'T14s']
LEAN_MODULES = ['HdVerif.Props.C14']
MODEL_MODULES = ['HdVerif.Model.SRContentSeq']
NAMESPACE = 'HdVerif.C14'
DRIVER = 'Drivers/C14.lean'
RULE = ('one case = one history: a construction (constructor / from_sequence / ContentItem.ContentSequence setter) of a '
        'root, non-root SR or non-SR sequence from 0..4 items followed by 1..15 operations drawn from append, extend, '
        '(argument a list or a ContentSequence with any flags), insert (any position, also positions that are not ints), setitem (index / slice incl. extended), delitem (index / slice), +=, pop, remove '
        '(indices and positions in every accepted spelling: int, bool, numpy integer types, objects with __index__), '
        'reverse, clear, continue-on-find-result, continue-on-get_nodes-result, and (5 %; 4 % of the constructions) every entry path with an argument that is NOT a content item (a plain Dataset holding all elements of one, an empty Dataset, str, None, int; alone or after conforming items); iterable arguments as list / tuple / generator / iterator / deque; in 35 % of the histories a POOL of up to three sequences is alive (clone = ContentSequence(member, own flags), attach = item.ContentSequence = member, copy = copy.copy(member), deepcopy = copy.deepcopy(member), pickle = pickle round trip), operations go to any member and EVERY member (list, every find, index / in, get_nodes, flags, object identities) is observed after every step; items share a 4-name alphabet (equal '
        'names may differ in code meaning; two further names are an SRT / SCT alias pair, == but with different hashes; two more are the code of name 0 with scheme versions 1.0 / 2.0 - different names with the same value and designator; every fifth item gets its name as a plain pydicom Code), carry or lack a relationship type, and have a unique ObservationUID unless '
        'deliberately duplicated (same object or equal copy); after every step list, find(n) for all names (each spelled as CodedConcept and as pydicom Code), index/in '
        'for all items made so far and get_nodes are observed.  Non-trivial = history with >= 2 accepted mutations and '
        'two items sharing a name present at some point; distinct by (kind, op-kind sequence, accept pattern)')
ASSUMPTIONS = [
    'item equality is Dataset equality (==), which coincides with equality of the generated ObservationUID (items are '
    'never mutated after creation); concept-name equality/hash is CodedConcept.__eq__/__hash__ (property C17)',
    'pydicom ConstrainedList list semantics (append/insert/extend/__setitem__/__delitem__ on the underlying list) and '
    'CPython slice.indices are re-defined in the model and compared on every step',
    'arguments of the QUERIES are content items (index / in of something else raise TypeError; a list would answer ValueError / '
    'False) and items are not mutated after they entered a sequence (a renamed item stays filed under its old name): both '
    'outside the quantifier of the property; run once on the real code, see docs/C14.md',
]
MODELLED_NOT_VERIFIED = ['pydicom.sequence.Sequence / ConstrainedList (list mutation primitives)',
                         'CPython list slicing (slice.indices, extended-slice assignment)',
                         'collections.abc.MutableSequence mixins pop/remove/reverse/clear (modelled as their source reads)',
                         'pydicom Dataset.__eq__',
                         'CPython copy protocol on an object without hooks (copy.copy = second name for list and index, '
                         'copy.deepcopy / pickle = equal sequence of new objects): Model/SRSeqPool.lean, tied by the pool histories; '
                         'that the class has no hooks and no further state is regenerated (T14s) and proved (object_state_pinned)']

POOL_OPS = ('clone', 'attach', 'copy', 'deepcopy', 'pickle')
PARTIAL_OPS = ('extend', 'iadd', 'extend_self', 'extend_other')      # keep what they appended before the offending item
NAMES = 4                      # alphabet n0..n3 (+ one name never used: index NAMES)
ALIAS = (5, 6)                 # two names that are == (SRT T-B7000 / SCT 111002) but hash differently
VERSIONED = (7, 8)              # the code of name 0 with scheme version '1.0' / '2.0': different names (and keys)
ALL_NAMES = 9                  # every name index that is looked up after every step
RELS = ['CONTAINS', 'HAS PROPERTIES', 'HAS OBS CONTEXT', 'INFERRED FROM']
KINDS = {'root': (True, True), 'sr': (False, True), 'nonsr': (False, False)}
ERR = {'IndexError': 'index', 'ValueError': 'value', 'TypeError': 'type', 'RuntimeError': 'runtime',
       'KeyError': 'key', 'AttributeError': 'attribute'}


# ----------------------------------------------------------------------------------------------
# generator (pure function of (seed, stream, index))

def _gen_item(r, kind, st, p_bad=0.15, init=False):
    """st: generator state {'next': uid counter, 'made': [specs]}; init: item offered to the constructor."""
    if st['made'] and r.random() < 0.07:
        base = r.choice(st['made'])
        d = dict(base)
        d['dup'] = r.choice(['same', 'copy'])
        if d['dup'] == 'copy':                 # an equal COPY is another object: its own tag
            st['copies'] = st.get('copies', 0) + 1
            d['t'] = 100000 + st['copies']
        return d
    u = st['next']
    st['next'] += 1
    bad = r.random() < p_bad
    if kind == 'root':
        rel = r.choice(RELS) if bad else None
        cls = 'container' if r.random() < (0.97 if init else 0.8) else r.choice(['text', 'code', 'num'])
    elif kind == 'sr':
        rel = None if bad else r.choice(RELS)
        cls = r.choice(['text', 'text', 'code', 'num', 'container'])
    else:
        rel = r.choice(RELS) if r.random() < (0.04 if init else 0.3) else None
        cls = r.choice(['text', 'text', 'code', 'num', 'container'])
    d = {'u': u, 'n': r.choice(ALIAS) if r.random() < 0.03 else r.choice(VERSIONED + (0,)) if r.random() < 0.08 else
         (min(r.randrange(NAMES + 2), NAMES - 1) if r.random() < 0.5 else r.randrange(NAMES)),
         'm': r.randrange(2), 'rel': rel, 'cls': cls, 'content': r.random() < 0.35, 't': u}
    st['made'].append(d)
    return d


BAD_POS = {'float': 1.0, 'none': None, 'str': 'first'}
# arguments that are not content items: a plain Dataset holding everything a content item holds (name, relationship type,
# value type, value), an empty Dataset, and things that are not data sets at all
OTHERS = ['lookalike', 'lookalike', 'lookalike-norel', 'empty-dataset', 'str', 'none', 'int']
FORMS = ['list', 'list', 'tuple', 'generator', 'iterator', 'deque']
SPELLINGS = ['int', 'int', 'int', 'np.int64', 'np.intp', 'np.int8', 'np.uint16', 'bool', 'index-object']


class _Idx:
    """an object that is an index only through __index__"""

    def __init__(self, v):
        self.v = v

    def __index__(self):
        return self.v


def _spell(value, how):
    """The same integer in another accepted spelling (falls back to int where the spelling cannot hold the value)."""
    if not isinstance(value, int) or isinstance(value, bool) or how in (None, 'int'):
        return value
    if how == 'bool':
        return bool(value) if value in (0, 1) else value
    if how == 'index-object':
        return _Idx(value)
    if how == 'np.uint16':
        return np.uint16(value) if 0 <= value < 65536 else value
    if how == 'np.int8':
        return np.int8(value) if -128 <= value < 128 else value
    return {'np.int64': np.int64, 'np.intp': np.intp}[how](value)


def _gen_bulk(r, op, kind, st, p_bad, sizes):
    """extend / += : the argument is a plain list or (35 %) a ContentSequence of ANY kind (root / SR / non-SR flags),
    holding items its own constructor accepts -- which need not obey the rule of the receiving sequence."""
    if r.random() < 0.06:
        return {'op': 'extend_self', 'how': op, 'xs': [], 'as_seq': None}      # seq.extend(seq) / seq += seq
    if r.random() < 0.35:
        akind = r.choice(['root', 'sr', 'nonsr', kind])
        xs = []
        for _ in range(r.choice(sizes)):
            d = _gen_item(r, akind, st, 0.0, init=True)
            while 'dup' in d:                       # fresh items only: their fields are adjusted below
                d = _gen_item(r, akind, st, 0.0, init=True)
            xs.append(d)
        for d in xs:
            if akind == 'root':
                d['cls'] = 'container'
            if akind == 'nonsr':
                d['rel'] = None
        return {'op': op, 'xs': xs, 'as_seq': akind}
    return {'op': op, 'xs': [_gen_item(r, kind, st, p_bad) for _ in range(r.choice(sizes))], 'as_seq': None}


def _gen_slice(r, n):
    def bound():
        if r.random() < 0.3:
            return None
        return r.randint(-n - 2, n + 2)
    step = r.choice([None, 1, 1, 1, 2, 2, -1, -1, -2, 3, -3, 0] if r.random() < 0.5 else [None, 1])
    return [bound(), bound(), step]


def _slice_positions(s, n):
    return list(range(*slice(*s).indices(n)))


def gen_case(ctx, idx):
    r = ctx.rng('hist', idx)
    kind = r.choice(['root', 'sr', 'sr', 'nonsr'])
    st = {'next': 1, 'made': []}
    via = r.choice(['ctor', 'ctor', 'iterator', 'from_sequence', 'setattr' if kind == 'sr' else 'ctor'])
    n_init = r.choice([0, 0, 1, 2, 2, 3, 4])
    p_bad_init = 0.04
    init = [_gen_item(r, kind, st, p_bad_init, init=True) for _ in range(n_init)]
    if via == 'from_sequence':
        for k, d in enumerate(init):            # parsing makes every data set an object of its own
            if 'dup' in d:
                d.pop('dup')
                d['t'] = 200000 + k
    nops = r.choice([1, 2, 3, 4, 5, 6, 8, 10, 12, 15])
    ops = []
    est = n_init                      # rough length estimate, only steers the index distribution
    pool_case = r.random() < 0.35     # several sequences alive at once (one built from another)
    for _ in range(nops):
        x = r.random()
        if pool_case and r.random() < 0.26:
            ops.append({'op': r.choice(['clone', 'clone', 'attach', 'copy', 'deepcopy', 'pickle']), 'seq': r.randrange(3)})
            continue
        if r.random() < 0.05:
            # an argument that is NOT a content item (see OTHERS) on one of the entry paths
            o = r.choice(['append_other', 'extend_other', 'extend_other', 'insert_other', 'setitem_other', 'setslice_other'])
            op = {'op': o, 'what': r.choice(OTHERS)}
            if o == 'extend_other':
                op.update(how=r.choice(['extend', 'iadd']), xs=[_gen_item(r, kind, st, 0.05) for _ in range(r.choice([0, 0, 1, 2]))],
                          post=r.choice([0, 1]))
                est += len(op['xs'])
            elif o == 'insert_other':
                op['pos'] = r.randint(-est - 2, est + 2)
            elif o == 'setitem_other':
                op['i'] = r.randint(-est - 1, est)
            elif o == 'setslice_other':
                op.update(s=_gen_slice(r, est), xs=[_gen_item(r, kind, st, 0.05) for _ in range(r.choice([0, 1, 2]))])
            ops.append(op)
            continue
        if x < 0.24:
            ops.append({'op': 'append', 'x': _gen_item(r, kind, st)})
            est += 1
        elif x < 0.34:
            ops.append(_gen_bulk(r, 'extend', kind, st, 0.08, [0, 1, 2, 2, 3]))
            est += len(ops[-1]['xs'])
        elif x < 0.48:
            ops.append({'op': 'insert', 'pos': r.choice(['float', 'none', 'str']) if r.random() < 0.07 else r.randint(-est - 2, est + 2),
                        'x': _gen_item(r, kind, st)})
            est += 1
        elif x < 0.58:
            ops.append({'op': 'setitem', 'i': r.randint(-est - 1, est), 'x': _gen_item(r, kind, st)})
        elif x < 0.67:
            s = _gen_slice(r, est)
            if s[2] in (None, 1):
                k = r.choice([0, 1, 1, 2, 3])
            else:
                k = len(_slice_positions(s, est)) if s[2] != 0 else 1
                if r.random() < 0.2:
                    k += r.choice([-1, 1])
            ops.append({'op': 'setslice', 's': s, 'xs': [_gen_item(r, kind, st, 0.08) for _ in range(max(k, 0))]})
        elif x < 0.77:
            ops.append({'op': 'delitem', 'i': r.randint(-est - 1, est)})
            est = max(est - 1, 0)
        elif x < 0.82:
            ops.append({'op': 'delslice', 's': _gen_slice(r, est)})
        elif x < 0.86:
            ops.append(_gen_bulk(r, 'iadd', kind, st, 0.1, [0, 1, 2]))
            est += len(ops[-1]['xs'])
        elif x < 0.89:
            ops.append({'op': 'pop', 'i': r.choice([None, None, r.randint(-est - 1, est)])})
            est = max(est - 1, 0)
        elif x < 0.92:
            ops.append({'op': 'remove', 'x': dict(r.choice(st['made']), dup='same') if st['made'] else _gen_item(r, kind, st)})
        elif x < 0.95:
            ops.append({'op': 'reverse'})
        elif x < 0.96:
            ops.append({'op': 'clear'})
            est = 0
        elif x < 0.98:
            ops.append({'op': 'into_find', 'n': r.randrange(NAMES)})
        else:
            ops.append({'op': 'into_nodes'})
    for op in ops:
        if op['op'] in ('insert', 'setitem', 'delitem', 'pop'):
            op['spell'] = r.choice(SPELLINGS)          # every accepted spelling of an index: int, bool, numpy ints, __index__
        if op['op'] in ('extend', 'iadd', 'setslice') and not op.get('as_seq'):
            op['form'] = r.choice(FORMS)               # the iterable argument as list / tuple / generator / iterator / deque
    if pool_case:
        for op in ops:
            op.setdefault('seq', r.randrange(3))       # taken modulo the pool size when the history runs
    extra = _gen_item(r, kind, st)          # an item that never enters: probe for index / in
    extra.pop('dup', None)
    case = {'idx': idx, 'kind': kind, 'via': via, 'init': init, 'ops': ops, 'probe': extra}
    if via in ('ctor', 'iterator', 'setattr') and r.random() < 0.04:
        # something that is not a content item among the items offered to the constructor / the attribute setter
        case['init_other'] = {'what': r.choice(OTHERS), 'at': r.randrange(len(init) + 1)}
    return case


# ----------------------------------------------------------------------------------------------
# implementation side

def _name(n, m=0):
    from highdicom.sr.coding import CodedConcept
    if n == ALIAS[0]:
        return CodedConcept('T-B7000', 'SRT', 'alias a')
    if n == ALIAS[1]:
        return CodedConcept('111002', 'SCT', 'alias b')
    if n in VERSIONED:
        return CodedConcept(value=str(1000), scheme_designator='99HDV', meaning='name 0' + (' (alt)' if m else ''),
                            scheme_version='1.0' if n == VERSIONED[0] else '2.0')
    return CodedConcept(value=str(1000 + n), scheme_designator='99HDV', meaning=f'name {n}' + (' (alt)' if m else ''))


def _name_code(n, m=0):
    """The same name spelled as a plain pydicom Code (the other documented argument type of `find`)."""
    from pydicom.sr.coding import Code
    nm = _name(n, m)
    return Code(nm.value, nm.scheme_designator, nm.meaning, nm.scheme_version)


def _spelt_alike(a, b):
    """Two concept names written with the same designator, value and version (no hash, no library equality involved)."""
    return (str(a.value), str(a.scheme_designator), a.scheme_version or None) == \
        (str(b.value), str(b.scheme_designator), b.scheme_version or None)


def _uid_of(item):
    try:
        return int(str(item.ObservationUID).rsplit('.', 1)[1])
    except Exception:  # noqa: BLE001   (something that is not one of the generated items got into a sequence)
        return -1


def _build(d):
    from highdicom.sr import (CodeContentItem, ContainerContentItem, NumContentItem, TextContentItem)
    from pydicom.sr.codedict import codes
    nm = _name(d['n'], d['m'])
    if d['u'] % 5 == 0 and d['n'] not in ALIAS:
        # the name as a plain pydicom Code (with or without scheme version); the constructor converts it
        from pydicom.sr.coding import Code
        nm = Code(nm.value, nm.scheme_designator, nm.meaning, nm.scheme_version)
    rel = d['rel']
    if d['cls'] == 'text':
        it = TextContentItem(nm, f"item {d['u']}", relationship_type=rel)
    elif d['cls'] == 'code':
        it = CodeContentItem(nm, codes.SCT.Abdomen, relationship_type=rel)
    elif d['cls'] == 'num':
        it = NumContentItem(nm, d['u'], codes.UCUM.Millimeter, relationship_type=rel)
    else:
        it = ContainerContentItem(nm, relationship_type=rel)
    it.ObservationUID = f"1.2.826.0.1.3680043.8.498.{d['u']}"
    if d['content']:
        # a fixture: stored directly, so that the attribute setter (under test in the 'setattr' constructions and the
        # `attach` steps) cannot make the generator fail
        from highdicom.sr import ContentSequence
        from pydicom.dataset import Dataset
        child = ContentSequence([TextContentItem(_name(0), 'child', relationship_type='CONTAINS')], is_root=False, is_sr=True)
        Dataset.__setattr__(it, 'ContentSequence', child)
    return it


def _tag(d):
    """identity of the object an item specification stands for (default for hand-written cases: the uid; copies apart)"""
    return d.get('t', d['u'] if d.get('dup') != 'copy' else 100000 + d['u'])


class _Objs:
    """tag -> the Python object; uid -> the specification of the content (equal copies share the uid)."""

    def __init__(self):
        self.by_tag = {}
        self.by_uid = {}          # uid -> some object with that content (source of copies)
        self.specs = {}
        self.tag_of = {}          # id(object) -> tag

    def register(self, tag, obj):
        self.by_tag[tag] = obj
        self.tag_of[id(obj)] = tag
        self.by_uid.setdefault(_uid_of(obj), obj)

    def get(self, d):
        u, t = d['u'], _tag(d)
        self.specs.setdefault(u, {k: d[k] for k in ('u', 'n', 'm', 'rel', 'cls', 'content')})
        if t in self.by_tag:
            return self.by_tag[t]
        if u in self.by_uid and d.get('dup') == 'copy':
            obj = _copy.deepcopy(self.by_uid[u])
        elif d.get('dup') == 'copy':
            self.register(u, _build(d))
            obj = _copy.deepcopy(self.by_uid[u])
        else:
            obj = _build(d)
        self.register(t, obj)
        return obj

    def tags(self, xs):
        return [self.tag_of.get(id(i), -1) for i in xs]


def _kind_of(e):
    return ERR.get(type(e).__name__, 'other:' + type(e).__name__)


def _observe(seq, objs, probes):
    """Everything the property talks about, read off the real sequence; items are reported by OBJECT tag."""
    lst = list(seq)
    obs = {'list': objs.tags(lst), 'uids': [_uid_of(i) for i in lst], 'find': [], 'find_uids': [], 'index': [], 'in': [],
           'nodes': None, 'nodes_uids': None, 'find_code': [], 'find_code_uids': []}
    for n in range(ALL_NAMES):
        # every name is looked up in both documented spellings of the argument: CodedConcept and pydicom Code
        for key, nm in (('find', _name(n)), ('find_code', _name_code(n, n % 2))):
            try:
                found = list(seq.find(nm))
                obs[key].append(objs.tags(found))
                obs[key + '_uids'].append([_uid_of(i) for i in found])
            except Exception as e:  # noqa: BLE001
                obs[key].append('err:' + _kind_of(e))
                obs[key + '_uids'].append('err:' + _kind_of(e))
    for t in probes:
        x = objs.by_tag[t]
        try:
            obs['index'].append(int(seq.index(x)))
        except Exception as e:  # noqa: BLE001
            obs['index'].append('err:' + _kind_of(e))
        try:
            obs['in'].append(bool(x in seq))
        except Exception as e:  # noqa: BLE001
            obs['in'].append('err:' + _kind_of(e))
    obs['flags'] = [bool(seq.is_root), bool(seq.is_sr)]
    try:
        nodes = list(seq.get_nodes())
        obs['nodes'] = objs.tags(nodes)
        obs['nodes_uids'] = [_uid_of(i) for i in nodes]
    except Exception as e:  # noqa: BLE001
        obs['nodes'] = obs['nodes_uids'] = 'err:' + _kind_of(e)
    return obs


def _rule_ok(kind, spec):
    """The property's relationship-type rule for one item."""
    if kind == 'root':
        return spec['rel'] is None
    if kind == 'sr':
        return spec['rel'] is not None
    return True


def _ctor_documented_ok(kind, spec):
    """What the constructor documents as acceptable (stronger than the property's rule)."""
    if kind == 'root':
        return spec['rel'] is None and spec['cls'] == 'container'
    if kind == 'sr':
        return spec['rel'] is not None
    return spec['rel'] is None


def _oracle(ctx, case, step, seq, kind, objs, probes, obs):
    """The property evaluated directly on the implementation after step `step` (-1 = construction)."""
    lst = list(seq)
    luids = [_uid_of(i) for i in lst]
    where = {'case': case, 'step': step}
    from highdicom.sr import ContentItem as _CI
    if any(not isinstance(i, _CI) for i in lst):
        # what is in the list is a content item (every entry path tests the type); nothing else can be evaluated then
        ctx.fail(where, {'what': 'an element of the sequence is not a content item',
                         'types': [type(i).__name__ for i in lst], 'list': luids}, site='non-item-entered')
        return
    # find: exactly the current items with that name, once each (multiset; the property does not fix the order), for the
    # name spelled as CodedConcept and as pydicom Code
    for n, spelling in [(n, sp) for n in range(ALL_NAMES) for sp in ('find', 'find_code')]:
        nm = _name(n) if spelling == 'find' else _name_code(n, n % 2)
        how = '' if spelling == 'find' else ' spelled as pydicom Code'
        want = sorted(_uid_of(i) for i in lst if i.name == nm)
        got = obs[spelling + '_uids'][n]
        if isinstance(got, str):
            ctx.fail(where, f'find(name {n}{how}) raised {got}; list={luids}', site='find')
        elif sorted(got) != want:
            # the open finding C14-alias-names-split-index explains EXACTLY this answer and no other: every item whose
            # name is WRITTEN like the query (same designator, value, version), none of the items whose name is == the
            # query but written in the other scheme (the SRT / SCT alias, filed under another hash), and at least one
            # such item is in the list.  Any other wrong answer -- also for an alias name, e.g. missing an item whose
            # name is written exactly like the query -- is a different violation and is reported in full.
            alike = sorted(_uid_of(i) for i in lst if _spelt_alike(i.name, nm))
            missed = [_uid_of(i) for i in lst if i.name == nm and not _spelt_alike(i.name, nm)
                      and hash(i.name) != hash(nm)]
            alias_only = n in ALIAS and sorted(got) == alike and bool(missed) and sorted(alike + missed) == want
            if alias_only:      # reported once per history (the failure list is capped)
                seen = ctx.__dict__.setdefault('_alias_reported', set())
                if case.get('idx') in seen or len(seen) >= 40:      # at most 40 reports of the known finding per run
                    continue
                seen.add(case.get('idx'))
            ctx.fail(where, {'what': f'find(name {n}{how}) differs from the items of that name in the list',
                             'found': sorted(got), 'in_list_with_name': want, 'list': luids,
                             'explained_by_alias_hash_split': alias_only,
                             'missed_alias_items': sorted(missed) if alias_only else []}, site='find')
        elif sorted(obs[spelling][n]) != sorted(objs.tags([i for i in lst if i.name == nm])):
            # the same contents, but not the same OBJECTS as are in the sequence
            ctx.fail(where, {'what': f'find(name {n}{how}) returns objects that are equal to, but not the same as, the items in '
                                     'the sequence', 'found_objects': sorted(obs[spelling][n]),
                             'objects_in_list': sorted(objs.tags([i for i in lst if i.name == nm])), 'list': luids},
                     site='find-identity')
    # index / in agree with the list itself (== semantics of list.index)
    for k, t in enumerate(probes):
        x = objs.by_tag[t]
        u = _uid_of(x)
        present = any(x == i for i in lst)
        got = obs['index'][k]
        if present:
            want = next(j for j, i in enumerate(lst) if i == x)
            if got != want:
                ctx.fail(where, {'what': f'index(item {u}) != list(seq).index(item)', 'got': got, 'want': want, 'list': luids},
                         site='index')
        elif got != 'err:value':
            ctx.fail(where, {'what': f'index(item {u}) of an absent item did not raise ValueError', 'got': got, 'list': luids},
                     site='index')
        if obs['in'][k] != present:
            ctx.fail(where, {'what': f'(item {u} in seq) disagrees with the list', 'got': obs['in'][k], 'want': present,
                             'list': luids}, site='contains')
    # position queries and the other inherited read accessors agree with the list itself (pydicom keeps it in `_list`)
    n = len(lst)
    raw = getattr(seq, '_list', None)
    try:
        if isinstance(raw, list) and (len(raw) != n or any(a is not b for a, b in zip(raw, lst))):
            ctx.fail(where, {'what': 'iterating the sequence does not yield the stored list', 'iter': luids,
                             'stored': [_uid_of(i) for i in raw]}, site='positions')
        if len(seq) != n:
            ctx.fail(where, {'what': 'len(seq) != number of items', 'got': len(seq), 'want': n}, site='positions')
        if any(seq[j] is not lst[j] for j in range(-n, n)):
            ctx.fail(where, {'what': 'seq[j] is not the j-th item of the list for some j', 'list': luids}, site='positions')
        if any(a is not b for a, b in zip(reversed(seq), lst[::-1])) or any(a is not b for a, b in zip(seq[::-1], lst[::-1])) \
                or len(seq[::2]) != len(lst[::2]):
            ctx.fail(where, {'what': 'reversed(seq) / seq[::-1] / seq[::2] disagree with the list', 'list': luids}, site='positions')
        for j in (n, -n - 1):
            try:
                seq[j]
                ctx.fail(where, {'what': f'seq[{j}] of a sequence of length {n} did not raise IndexError'}, site='positions')
            except IndexError:
                pass
        for t in probes[:4]:
            x = objs.by_tag[t]
            if seq.count(x) != sum(1 for i in lst if i == x):
                ctx.fail(where, {'what': f'count(item {_uid_of(x)}) disagrees with the list', 'got': seq.count(x),
                                 'want': sum(1 for i in lst if i == x)}, site='positions')
        if not (seq == lst) or (seq != lst):
            ctx.fail(where, {'what': 'the sequence does not compare equal to the list of its items'}, site='positions')
    except Exception as e:  # noqa: BLE001
        ctx.fail(where, f'a read accessor (len / seq[j] / reversed / slices / count / ==) raised {_kind_of(e)}: {e}', site='positions')
    # get_nodes
    want = sorted(objs.tags([i for i in lst if 'ContentSequence' in i]))
    if isinstance(obs['nodes'], str):
        ctx.fail(where, f'get_nodes raised {obs["nodes"]}; list={luids}', site='get_nodes')
    elif sorted(obs['nodes']) != want:
        ctx.fail(where, {'what': 'get_nodes differs from the items with content in the list', 'got': obs['nodes_uids'],
                         'want': want}, site='get_nodes')
    # relationship rule over the current list (raw attribute presence, not the library's accessor)
    for i in lst:
        has = 'RelationshipType' in i
        if (kind == 'root' and has) or (kind == 'sr' and not has):
            ctx.fail(where, {'what': 'relationship-type rule broken by an item in the sequence', 'item': _uid_of(i),
                             'has_relationship_type': has, 'kind': kind}, site='relationship-rule')
            break


def _expected_accept(kind, op, n, objs):
    """True when the operation offers only items obeying the property's rule at a valid position, so that a
    refusal would be enforcement of some OTHER rule; None when the oracle has no opinion."""
    o = op['op']
    if o == 'insert' and isinstance(op['pos'], str):
        return None
    if o == 'extend_self':
        return True
    if o in ('append', 'insert'):
        return True if _rule_ok(kind, op['x']) else False
    if o in ('extend', 'iadd'):
        return all(_rule_ok(kind, x) for x in op['xs'])
    if o == 'setitem':
        if not (-n <= op['i'] < n):
            return None
        return _rule_ok(kind, op['x'])
    if o == 'setslice':
        if op['s'][2] == 0:
            return None
        if op['s'][2] not in (None, 1) and len(_slice_positions(op['s'], n)) != len(op['xs']):
            return None
        return all(_rule_ok(kind, x) for x in op['xs'])
    return None


def _other(what, kind):
    """Something that is not a highdicom ContentItem."""
    from pydicom.dataset import Dataset
    if what.startswith('lookalike'):
        from highdicom.sr import TextContentItem
        rel = None if (kind == 'root' or what.endswith('norel')) else 'CONTAINS'      # obeys the rule unless 'norel'
        real = TextContentItem(_name(1), 'not a content item', relationship_type=rel)
        real.ObservationUID = '1.2.826.0.1.3680043.8.498.99999'
        plain = Dataset()
        for el in real:                      # the same data elements in a plain Dataset
            plain.add(el)
        assert type(plain) is Dataset
        return plain
    return {'empty-dataset': Dataset(), 'str': 'item', 'none': None, 'int': 7}[what]


def _form(items, form):
    """The same items as another kind of iterable."""
    if form == 'tuple':
        return tuple(items)
    if form == 'generator':
        return (i for i in items)
    if form == 'iterator':
        return iter(items)
    if form == 'deque':
        import collections
        return collections.deque(items)
    return items


def _bulk_arg(op, objs):
    from highdicom.sr import ContentSequence
    items = [objs.get(x) for x in op['xs']]
    if op.get('form') and not op.get('as_seq'):
        return _form(items, op['form'])
    if op.get('as_seq'):
        is_root, is_sr = KINDS[op['as_seq']]
        try:
            return ContentSequence(items, is_root=is_root, is_sr=is_sr)
        except Exception:  # noqa: BLE001
            return items
    return items


def _apply(seq, op, objs, kind='sr'):
    """Run one operation on the real sequence.  Returns (new seq, error kind or None)."""
    o = op['op']
    try:
        if o == 'append_other':
            seq.append(_other(op['what'], kind))
            return seq, None
        if o == 'extend_other':
            arg = [objs.get(x) for x in op['xs']] + [_other(op['what'], kind)] + \
                ([objs.get(x) for x in op['xs'][:1]] if op.get('post') else [])
            if op.get('how') == 'iadd':
                seq += arg
            else:
                seq.extend(arg)
            return seq, None
        if o == 'insert_other':
            seq.insert(op['pos'], _other(op['what'], kind))
            return seq, None
        if o == 'setitem_other':
            seq[op['i']] = _other(op['what'], kind)
            return seq, None
        if o == 'setslice_other':
            seq[slice(*op['s'])] = [objs.get(x) for x in op['xs']] + [_other(op['what'], kind)]
            return seq, None
        if o == 'append':
            seq.append(objs.get(op['x']))
        elif o == 'extend':
            seq.extend(_bulk_arg(op, objs))
        elif o == 'iadd':
            seq += _bulk_arg(op, objs)
        elif o == 'extend_self':
            # the receiver itself as argument; guarded, because an implementation that iterates the live list never ends
            import signal

            def _alarm(*a):
                raise RuntimeError('extend(self) did not terminate within 2 s')
            old = signal.signal(signal.SIGALRM, _alarm)
            signal.setitimer(signal.ITIMER_REAL, 2.0)
            try:
                if op.get('how') == 'iadd':
                    seq += seq
                else:
                    seq.extend(seq)
            finally:
                signal.setitimer(signal.ITIMER_REAL, 0)
                signal.signal(signal.SIGALRM, old)
        elif o == 'insert':
            seq.insert(BAD_POS[op['pos']] if isinstance(op['pos'], str) else _spell(op['pos'], op.get('spell')), objs.get(op['x']))
        elif o == 'setitem':
            seq[_spell(op['i'], op.get('spell'))] = objs.get(op['x'])
        elif o == 'setslice':
            seq[slice(*op['s'])] = _form([objs.get(x) for x in op['xs']], op.get('form'))
        elif o == 'delitem':
            del seq[_spell(op['i'], op.get('spell'))]
        elif o == 'delslice':
            del seq[slice(*op['s'])]
        elif o == 'pop':
            seq.pop() if op['i'] is None else seq.pop(_spell(op['i'], op.get('spell')))
        elif o == 'remove':
            seq.remove(objs.get(op['x']))
        elif o == 'reverse':
            seq.reverse()
        elif o == 'clear':
            seq.clear()
        elif o == 'into_find':
            seq = seq.find(_name(op['n']))
        elif o == 'into_nodes':
            seq = seq.get_nodes()
        else:
            raise RuntimeError('unknown op ' + o)
    except Exception as e:  # noqa: BLE001
        return seq, _kind_of(e)
    return seq, None


def _construct(case, objs):
    from highdicom.sr import ContainerContentItem, ContentSequence
    from pydicom import Dataset
    is_root, is_sr = KINDS[case['kind']]
    items = [objs.get(d) for d in case['init']]
    if case.get('init_other'):
        items.insert(case['init_other']['at'], _other(case['init_other']['what'], case['kind']))
    try:
        if case['via'] == 'from_sequence':
            plain = [Dataset.from_json(i.to_json()) for i in items]
            seq = ContentSequence.from_sequence(plain, is_root=is_root, is_sr=is_sr)
            for i, d in zip(seq, case['init']):       # the parsed objects take the places (and tags) of the given ones
                gone = objs.by_tag.pop(_tag(d), None)
                if gone is not None:
                    objs.tag_of.pop(id(gone), None)
                objs.by_uid[_uid_of(i)] = i
                objs.register(_tag(d), i)
        elif case['via'] == 'setattr':
            parent = ContainerContentItem(_name(0), relationship_type='CONTAINS')
            parent.ContentSequence = items
            seq = parent.ContentSequence
        elif case['via'] == 'iterator':
            seq = ContentSequence((i for i in items), is_root=is_root, is_sr=is_sr)      # a one-shot iterable
        else:
            seq = ContentSequence(items, is_root=is_root, is_sr=is_sr)
    except Exception as e:  # noqa: BLE001
        return None, _kind_of(e)
    return seq, None


def _pool_put(pool, kinds, seq, kind):
    if len(pool) < 3:
        pool.append(seq)
        kinds.append(kind)
    else:
        pool[2], kinds[2] = seq, kind


def run_history(ctx, case, oracle=True):
    """Runs one history on the implementation; returns the trace [(err, observations of every pool member)]
    (construction first).  The pool starts with the constructed sequence; `clone` / `attach` add sequences built
    from a member; every other operation goes to member `seq` (mod pool size); after EVERY operation EVERY member
    is observed and put to the oracle."""
    from highdicom.sr import ContainerContentItem, ContentSequence
    objs = _Objs()
    kind = case['kind']
    probes = []

    def note_items(ds):
        for d in ds:
            objs.get(d)
            if _tag(d) not in probes:
                probes.append(_tag(d))
    note_items([case['probe']])
    note_items(case['init'])
    seq, err = _construct(case, objs)
    trace = []
    if seq is not None and case.get('init_other') and oracle:
        ctx.fail({'case': case, 'step': -1}, {'what': 'a sequence was constructed from items among which one is not a content item',
                                             'argument': case['init_other']['what']}, site='non-item-entered')
    if seq is None:
        # oracle: a construction offering only documented-acceptable items must be accepted
        if oracle and not case.get('init_other') and all(_ctor_documented_ok(kind, d) for d in case['init']):
            ctx.fail({'case': case, 'step': -1}, f'construction from acceptable items refused ({err})', site='construct')
        trace.append({'err': err, 'obs': None})
        return trace, None
    pool, kinds = [seq], ['sr' if case['via'] == 'setattr' else kind]
    n_deep, keep = 0, []          # deep copies made so far; they are kept alive (object ids serve as keys)
    groups, n_groups = [0], 1     # members that are names of ONE sequence (copy.copy) share a group number
    obs = [_observe(seq, objs, probes)]
    trace.append({'err': None, 'obs': obs, 'probes': list(probes)})
    if oracle:
        _oracle(ctx, case, -1, seq, kinds[0], objs, probes, obs[0])
    for k, op in enumerate(case['ops']):
        note_items([op['x']] if 'x' in op else op.get('xs', []))
        t = op.get('seq', 0) % len(pool)
        n_before = len(pool[t])
        before = trace[-1]['obs'][t] if trace[-1]['obs'] else None
        if op['op'] in POOL_OPS:
            err = None
            try:
                if op['op'] == 'clone':
                    is_root, is_sr = KINDS[kinds[t]]
                    new, nk = ContentSequence(pool[t], is_root=is_root, is_sr=is_sr), kinds[t]
                elif op['op'] == 'attach':
                    parent = ContainerContentItem(_name(0), relationship_type='CONTAINS')
                    parent.ContentSequence = pool[t]
                    new, nk = parent.ContentSequence, 'sr'
                elif op['op'] == 'copy':
                    new, nk = _copy.copy(pool[t]), kinds[t]
                else:
                    import pickle
                    new = _copy.deepcopy(pool[t]) if op['op'] == 'deepcopy' else pickle.loads(pickle.dumps(pool[t]))
                    nk = kinds[t]
                    n_deep += 1
                    # the copies are new objects: the copy of the object tagged T is tagged T + 10^6 * 2^(number of this deep copy)
                    if len(new) == len(pool[t]):
                        for a, b in zip(pool[t], new):
                            if id(a) in objs.tag_of:       # (a stale id of a dead object may equal id(b): always re-register)
                                objs.register(objs.tag_of[id(a)] + 1000000 * 2 ** n_deep, b)
                    keep.append(new)
                _pool_put(pool, kinds, new, nk)
                g = groups[t] if op['op'] == 'copy' else n_groups
                n_groups += 1
                if len(groups) < len(pool):
                    groups.append(g)
                else:
                    groups[2] = g
            except Exception as e:  # noqa: BLE001
                err = _kind_of(e)
        else:
            was = pool[t]
            pool[t], err = _apply(pool[t], op, objs, kinds[t])
            if pool[t] is not was:        # find / get_nodes handed back a new sequence: the name now stands for that one
                groups[t] = n_groups
                n_groups += 1
            if err == 'runtime' and op['op'] == 'extend_self':
                if oracle:
                    ctx.fail({'case': case, 'step': k}, 'seq.extend(seq) / seq += seq did not terminate', site='extend-self')
                trace.append({'err': err, 'obs': None})
                return trace, objs
        obs = [_observe(m, objs, probes) for m in pool]
        trace.append({'err': err, 'obs': obs, 'probes': list(probes)})
        if oracle:
            if op['op'] in ('copy', 'deepcopy', 'pickle'):
                if err is not None:
                    ctx.fail({'case': case, 'step': k}, f'{op["op"]} of a sequence failed ({err})', site=op['op'])
                elif obs[len(pool) - 1]['uids'] != before['uids']:
                    ctx.fail({'case': case, 'step': k}, {'what': f'{op["op"]} of a sequence does not hold equal items in the same order',
                                                         'copy': obs[len(pool) - 1]['uids'], 'original': before['uids']}, site=op['op'])
            elif op['op'] not in ('clone', 'attach'):
                if err is not None and op['op'] not in PARTIAL_OPS and before is not None and \
                        (obs[t]['list'], obs[t]['find']) != (before['list'], before['find']):
                    # enforcement means the refused item does not enter and nothing else happens: a refused operation
                    # (other than extend / +=, which keep what they appended before the offender) leaves list and index as they were
                    ctx.fail({'case': case, 'step': k}, {'what': f'{op["op"]} was refused ({err}) but changed the sequence',
                                                         'list_before': before['list'], 'list_after': obs[t]['list'],
                                                         'find_before': before['find'], 'find_after': obs[t]['find']},
                             site='refused-but-changed')
                if op['op'].endswith('_other') and err is None:
                    ctx.fail({'case': case, 'step': k}, {'what': f'{op["op"]} accepted an argument that is not a content item',
                                                         'argument': op['what']}, site='non-item-entered')
                exp = _expected_accept(kinds[t], op, n_before, objs)
                if exp is True and err is not None:
                    ctx.fail({'case': case, 'step': k}, {'what': f'{op["op"]} refused items that obey the relationship rule '
                                                                f'of a {kinds[t]} sequence', 'error': err}, site=op['op'])
                if err is not None and err.startswith('other:'):
                    ctx.fail({'case': case, 'step': k}, f'{op["op"]} raised unexpected {err}', site=op['op'])
                if op['op'] in ('pop', 'remove', 'reverse', 'clear') and err not in (None, 'index', 'value'):
                    ctx.fail({'case': case, 'step': k}, f'{op["op"]} failed with {err}', site=op['op'])
            elif op['op'] == 'clone' and err is not None and all(
                    u in objs.specs and _ctor_documented_ok(kinds[t], objs.specs[u]) for u in trace[-2]['obs'][t]['uids']):
                ctx.fail({'case': case, 'step': k}, f'a sequence could not be constructed from a {kinds[t]} sequence with the '
                                                    f'same flags ({err})', site='clone')
            prev = trace[-2]['obs']
            if op['op'] not in POOL_OPS and prev:
                # a sequence built FROM another one (constructor, attribute setter, deep copy, pickle, query result) is a
                # sequence of its own: an operation on one name changes only the sequence behind that name
                for m in range(min(len(prev), len(pool))):
                    if m != t and groups[m] != groups[t] and \
                            (obs[m]['list'], obs[m]['find']) != (prev[m]['list'], prev[m]['find']):
                        ctx.fail({'case': case, 'step': k}, {'what': f'{op["op"]} on one sequence changed another sequence that was '
                                                            'built from it (or from which it was built)',
                                                            'other_list_before': prev[m]['list'], 'other_list_after': obs[m]['list'],
                                                            'other_find_before': prev[m]['find'], 'other_find_after': obs[m]['find']},
                                 site='interference')
                        break
            for m, (member, mk) in enumerate(zip(pool, kinds)):
                _oracle(ctx, case, k, member, mk, objs, probes, obs[m])
    return trace, objs


# ----------------------------------------------------------------------------------------------
# model side

def _item_json(d):
    return [d['n'], (RELS.index(d['rel']) if d['rel'] is not None else None), d['cls'] == 'container', bool(d['content']), d['u'],
            _tag(d)]


def model_request(case):
    is_root, is_sr = KINDS[case['kind']]
    ops = []
    for op in case['ops']:
        o = dict(op)
        if 'x' in o:
            o['x'] = _item_json(o['x'])
        if 'xs' in o:
            o['xs'] = [_item_json(x) for x in o['xs']]
        ops.append(o)
    probes = [case['probe']['u']]
    return ('history', {'root': is_root, 'sr': is_sr, 'via': case['via'], 'init': [_item_json(d) for d in case['init']],
                        'ops': ops, 'names': ALL_NAMES, 'probe': _item_json(case['probe']),
                        'init_other': bool(case.get('init_other'))})


def _compare(ctx, case, trace, ans):
    if 'proto_err' in ans:
        ctx.disagree('L0', case, 'n/a', ans, 'model protocol error')
        return
    mtrace = ans['ok']
    if len(mtrace) != len(trace):
        ctx.disagree('L0', case, len(trace), len(mtrace), 'trace length')
        return
    for k, (a, b) in enumerate(zip(trace, mtrace)):
        ia, ib = a['err'] is None, b.get('err') is None
        if ia != ib:
            ctx.disagree('L0', {'case': case, 'step': k - 1}, a['err'], b.get('err'), 'ok-vs-error of the operation')
            return
        if a['obs'] is None:
            continue
        if len(a['obs']) != len(b['obs']):
            ctx.disagree('L0', {'case': case, 'step': k - 1}, len(a['obs']), len(b['obs']), 'number of sequences in the pool')
            return
        for m, key in [(m, key) for m in range(len(a['obs'])) for key in ('list', 'find', 'find_code', 'index', 'in', 'nodes', 'flags')]:
            # the model has one `find` per name (the dict key); the look-up spelled as pydicom Code must give the same
            va, vb = a['obs'][m][key], b['obs'][m]['find' if key == 'find_code' else key]
            va = json.loads(json.dumps(va))
            # error kinds inside observations: compare ok-vs-error only
            def norm(v):
                if isinstance(v, str):
                    return 'err'
                if isinstance(v, list):
                    return [norm(x) for x in v]
                return v
            if norm(va) != norm(vb):
                ctx.disagree('L0', {'case': case, 'step': k - 1, 'member': m}, {key: va}, {key: vb}, f'observable {key}')
                return


# ----------------------------------------------------------------------------------------------

def _corpus():
    d = os.path.join(os.path.dirname(os.path.dirname(os.path.dirname(os.path.abspath(__file__)))), 'corpus', PROP)
    out = []
    if os.path.isdir(d):
        for f in sorted(os.listdir(d)):
            if f.endswith('.json'):
                c = json.load(open(os.path.join(d, f)))
                out.append(c.get('case', c))
    return out


def _selfcheck(ctx):
    """Assumptions of the generator that are about other components."""
    a, b = _name(1, 0), _name(1, 1)
    if not (a == b and hash(a) == hash(b) and a != _name(2)):
        ctx.note('generator assumption broken: names differing only in meaning are not equal/hash-equal (C17); '
                 'meaning variants disabled')
        return False
    return True


def _slices_exhaustive(ctx):
    """The model's slice resolution against CPython's `range(*slice(...).indices(n))`, complete grid."""
    top = 6 if ctx.tier == 'quick' else 9
    reqs, want = [], []
    for n in range(top + 1):
        bounds = [None] + list(range(-n - 2, n + 3))
        for a in bounds:
            for b in bounds:
                for c in (None, -3, -2, -1, 0, 1, 2, 3):
                    reqs.append(('slicePositions', {'n': n, 's': [a, b, c]}))
                    try:
                        w = list(range(*slice(a, b, c).indices(n)))
                        if c in (None, 1) and w:      # plain slices are reported as the span a..b-1
                            w = list(range(w[0], w[-1] + 1))
                        want.append(('ok', w))
                    except ValueError:
                        want.append(('err', 'value'))
    ans = ctx.model(reqs)
    if ans is None:
        return
    bad = 0
    for (fn, args), w, a in zip(reqs, want, ans):
        got = ('ok', a['ok']) if 'ok' in a else ('err', a.get('err'))
        if got != w and bad < 5:
            bad += 1
            ctx.disagree('L1', args, w, got, 'slice positions (CPython slice.indices vs model resolveSlice)')
    ctx.hist('slice_grid', 'cases', len(reqs))
    ctx.exhaustive.append(f'slice resolution for n in 0..{top}, start/stop in None or -n-2..n+2, step in None,-3..3 '
                          f'({len(reqs)} slices) against CPython')


def run(ctx):
    import hd_env  # noqa: F401
    variants = _selfcheck(ctx)
    _slices_exhaustive(ctx)
    cases = _corpus()
    n = ctx.n(400, 6000)
    cases += [gen_case(ctx, i) for i in range(n)]
    reqs, traces = [], []
    for case in cases:
        if isinstance(case, dict) and 'case' in case and 'ops' not in case:
            case = case['case']
        if not variants:
            for d in case['init'] + [x for op in case['ops'] for x in ([op['x']] if 'x' in op else op.get('xs', []))]:
                d['m'] = 0
        trace, _ = run_history(ctx, case)
        accepted = sum(1 for t, op in zip(trace[1:], case['ops']) if t['err'] is None
                       and op['op'] not in ('into_find', 'into_nodes') + POOL_OPS)
        shared = False
        for t in trace:
            if t['obs'] and any(isinstance(f, list) and len(f) >= 2 for o in t['obs'] for f in o['find']):
                shared = True
        key = None
        if accepted >= 2 and shared:
            key = (case['kind'], tuple(op['op'] for op in case['ops']), tuple(t['err'] is None for t in trace))
        ctx.case(sample=case if ctx.evaluations % 131 == 0 else None, nontrivial_key=key, kind=case['kind'],
                 via=case['via'], length=len(case['ops']), construct=('ok' if trace[0]['err'] is None else trace[0]['err']))
        for t, op in zip(trace[1:], case['ops']):
            ctx.hist('ops', op['op'] + ('[seq:' + op['as_seq'] + ']' if op.get('as_seq') else '') + ('' if t['err'] is None else '/refused:' + t['err']))
        if case.get('init_other'):
            ctx.hist('non_item_argument', 'constructor:' + case['init_other']['what'])
        for op in case['ops']:
            if op.get('form'):
                ctx.hist('iterable_argument_form', op['form'])
            if op.get('what'):
                ctx.hist('non_item_argument', op['what'])
            if op.get('spell'):
                ctx.hist('index_spelling', op['spell'])
        if trace[-1]['obs']:
            ctx.hist('final_len', min(len(trace[-1]['obs'][0]['list']), 12))
            ctx.hist('pool_size', len(trace[-1]['obs']))
        reqs.append(model_request(case))
        traces.append((case, trace))
    answers = ctx.model(reqs)
    if answers is None:
        return
    for (case, trace), ans in zip(traces, answers):
        _compare(ctx, case, trace, ans)


def replay(ctx, case):
    """Re-run one stored case on the implementation; returns failure detail or None."""
    if 'case' in case and 'ops' not in case:
        case = case['case']
    sub = type(ctx)(ctx.prop, ctx.tier, ctx.seed, 1, ctx.driver)
    run_history(sub, case)
    return sub.failures[:3] or None


def shrink(ctx, failure):
    """Delta-debugging on the operation list (and the initial items) while some oracle failure persists."""
    c = failure['case']
    case = c['case'] if 'case' in c and 'ops' not in c else c
    site = failure.get('site')

    def fails(cs):
        sub = type(ctx)(ctx.prop, ctx.tier, ctx.seed, 1, ctx.driver)
        try:
            run_history(sub, cs)
        except Exception:  # noqa: BLE001
            return None
        same = [f for f in sub.failures if f.get('site') == site] or sub.failures
        return same[0] if same else None
    best = fails(case)
    if not best:
        return failure
    cur = json.loads(json.dumps(case))
    changed = True
    while changed:
        changed = False
        for k in range(len(cur['ops']) - 1, -1, -1):
            t = dict(cur, ops=cur['ops'][:k] + cur['ops'][k + 1:])
            f = fails(t)
            if f:
                cur, best, changed = t, f, True
        for k in range(len(cur['init']) - 1, -1, -1):
            t = dict(cur, init=cur['init'][:k] + cur['init'][k + 1:])
            f = fails(t)
            if f:
                cur, best, changed = t, f, True
    return best


def attribute(failure, open_findings):
    """find(name) misses an item whose name is == but hashes differently (the SRT / SCT alias pair): known finding."""
    ids = {f['id'] for f in open_findings}
    d = failure.get('detail')
    what = d.get('what', '') if isinstance(d, dict) else str(d)
    # only the answer the finding predicts: look-up by an alias name that returns exactly the items filed under the
    # same hash and misses exactly the ==-named items filed under the other one (computed by the oracle on the
    # sequence at hand: `explained_by_alias_hash_split`, with the missed items named)
    if 'C14-alias-names-split-index' in ids and failure.get('site') == 'find' and isinstance(d, dict) and \
            d.get('explained_by_alias_hash_split') is True and d.get('missed_alias_items') and \
            any(f'find(name {n})' in what or f'find(name {n} spelled' in what for n in ALIAS):
        return 'C14-alias-names-split-index'
    return None
